#!/venv/bin/python
"""tools/mkmutant.py <name> <repo-relative-file> <old> <new> [--count N]
Creates mutants/<name>.diff replacing the (unique) occurrence of <old> by <new>."""
import difflib, os, sys
name, rel, old, new = sys.argv[1:5]
src = open(os.path.join('/repo', rel)).read()
n = src.count(old)
if n != 1:
    sys.exit(f"'{old}' occurs {n} times in {rel}")
dst = src.replace(old, new)
diff = ''.join(difflib.unified_diff(src.splitlines(True), dst.splitlines(True), 'a/' + rel, 'b/' + rel))
out = os.path.join(os.path.dirname(os.path.dirname(os.path.abspath(__file__))), 'mutants', name + '.diff')
mode = 'a' if os.path.exists(out) and '--append' in sys.argv else 'w'
open(out, mode).write(diff)
print(out)
