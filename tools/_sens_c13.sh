#!/bin/sh
cd /verif
for m in "$@"; do tools/sens.py mutants/$m.diff C13 --tests 2>&1 | grep -v "^WARNING conda"; done
