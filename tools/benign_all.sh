#!/bin/sh
# tools/benign_all.sh — behaviour-preserving changes (benign/*.diff): every check must stay quiet (exit 0)
cd "$(dirname "$0")/.." || exit 2
for p in benign/*.diff; do
  tools/sens.py $p $(cat READY_CHECKS) --tests 2>&1 | grep -v "^$" | cut -c1-260
done
