#!/venv/bin/python
"""tools/sens.py <patch.diff> <CHECK> [<CHECK> ...] [--tier quick] [--tests]
Copies /repo to a scratch directory outside /repo and /verif, applies the patch, runs each
check with BPVERIF_REPO pointing at the copy, reports exit codes, and deletes the copy.
--tests additionally runs the repo's pinned test suite against the mutated copy."""
import os, shutil, subprocess, sys, tempfile, time
args = [a for a in sys.argv[1:] if not a.startswith('--')]
patch, checks = os.path.abspath(args[0]), args[1:]
tier = 'quick'
if '--tier' in sys.argv: tier = sys.argv[sys.argv.index('--tier') + 1]; checks = [c for c in checks if c != tier]
root = os.path.dirname(os.path.dirname(os.path.abspath(__file__)))
tmp = tempfile.mkdtemp(prefix='bpverif-mut-', dir='/tmp')
copy = os.path.join(tmp, 'repo')
try:
    shutil.copytree('/repo', copy, ignore=shutil.ignore_patterns('.git', '__pycache__', 'docs', 'benchmark', 'editors'))
    r = subprocess.run(['patch', '-p1', '-s', '-i', patch], cwd=copy)
    if r.returncode != 0: sys.exit('patch failed')
    env = dict(os.environ, BPVERIF_REPO=copy)
    if '--tests' in sys.argv:
        e2 = dict(os.environ, PYTHONPATH=copy + '/compiler:' + copy + '/lib/py')
        t = subprocess.run(['/venv/bin/python', '-m', 'pytest', '-q', '-p', 'no:cacheprovider', '-x', '--timeout=900', 'tests/test_compiler', 'tests/test_encoding/test_encoding.py::test_encoding_issue52'], cwd=copy, env=e2, capture_output=True, text=True)
        print('TESTS', 'pass' if t.returncode == 0 else 'FAIL', t.stdout.strip().splitlines()[-1] if t.stdout.strip() else '')
    for c in checks:
        t0 = time.time()
        r = subprocess.run([os.path.join(root, 'run'), c, '--tier', tier], env=env, capture_output=True, text=True)
        lines = [l for l in r.stdout.splitlines() if l.startswith(('VIOLATION', 'HARNESS', '  part'))]
        print(f'{os.path.basename(patch)} {c}: exit={r.returncode} {time.time()-t0:.0f}s', '|', ' '.join(lines)[:400])
        if r.returncode == 2: print(r.stdout[-3000:], r.stderr[-3000:])
finally:
    shutil.rmtree(tmp, ignore_errors=True)
    # evidence files were rewritten by the mutated run; restore the committed ones
    subprocess.run(['git', 'checkout', '--', 'evidence'], cwd=root, capture_output=True)
