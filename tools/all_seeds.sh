#!/bin/sh
# tools/all_seeds.sh "2 3 4" — every registered check at each given seed; prints one line per run
cd "$(dirname "$0")/.." || exit 2
for s in $1; do
  for c in $(cat READY_CHECKS); do
    out=$(./run $c --tier quick --seed $s 2>&1); rc=$?
    echo "seed=$s $c exit=$rc $(echo "$out" | grep -c '^KNOWN') known-lines | $(echo "$out" | grep 'VIOLATION\|HARNESS' | head -3 | cut -c1-300 | tr '\n' ' ')"
  done
done
