#!/venv/bin/python
"""Prints the markdown tables of seeded/ (round 1: seeded/CNN, round 2: seeded/CNN-2) for DESIGN.md."""
import glob, json, os, sys
root = os.path.dirname(os.path.dirname(os.path.abspath(__file__)))
def rows(pattern):
    out = []
    for d in sorted(glob.glob(os.path.join(root, "seeded", pattern, "meta.json"))):
        m = json.load(open(d)); v = m.get("verification", {})
        name = os.path.basename(os.path.dirname(d))
        summ = str(m.get("summary", "")).replace("\n", " ").replace("|", "/")
        summ = summ if len(summ) <= 230 else summ[:227] + "..."
        checks = ", ".join(f"{c}: {'caught' if x['exit'] == 1 else 'quiet' if x['exit'] == 0 else 'exit ' + str(x['exit'])}" for c, x in v.get("checks", {}).items())
        fa = v.get("first_attempt")
        first = ""
        if fa:
            first = "first: " + ", ".join(f"{k}: {'caught' if val == 1 else 'quiet'}" for k, val in fa.items() if k != "note") + " — " + str(fa.get("note", ""))[:400]
        if isinstance(m.get("first_attempt"), str):
            first = m["first_attempt"][:500]
        out.append(f"| {name} | {summ} | {checks} | {first.replace('|','/')} |")
    return out
which = sys.argv[1] if len(sys.argv) > 1 else "1"
print("| id | change | checks now (quick tier) | history |\n|----|--------|------------------------|---------|")
print("\n".join(rows("C??" if which == "1" else "C??-" + which)))
