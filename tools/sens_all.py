#!/venv/bin/python
"""tools/sens_all.py [pattern] — run every mutants/<cNN>_*.diff against its property's quick check
(and extra checks listed in EXTRA) and write mutants/RESULTS.json + RESULTS.md.
Known-equivalent mutants (behaviour-preserving under the property's preconditions) are listed in EQUIVALENT."""
import glob, json, os, re, subprocess, sys, time
root = os.path.dirname(os.path.dirname(os.path.abspath(__file__)))
EQUIVALENT = {
    "c04_memset": "the big-endian decoder's memset only matters for a NON-zeroed target; the property quantifies over zeroed targets",
    "c14_c_bits8": "bits == 8 falls to the partial-byte path which ORs the same 8 bits into a zeroed byte",
    "c04_go_alias_bool": "r (= j % 8) is always 0 for a 1-bit field, the changed branch is unreachable",
    "c08_scope_stack_not_passed": "lookup uses only the current proto's scopes and cycle detection the filepath stack: the scope_stack snapshot of imported definitions only affects generated names (C10/C15); the repo's own tests kill it",
    "c13_equiv_go_hex": "deliberately equivalent (Go hex literal denotes the same value): must NOT raise an alarm",
    "c18_cache_unfrozen": "caches are identity-keyed: output is deterministically wrong (other properties), not order/process dependent",
}
EXTRA = {"c05_msg_prefix_c": ["C03"], "c07_opmode_mask": ["C04", "C07"], "c03_word16_thresh": ["C03", "C14"], "c04_be_fishift": ["C04", "C06"], "c04_be_assign": ["C04", "C06"], "c12_sort_str": ["C12", "C01"], "c12_hex_cap": ["C12", "C13"]}
pat = sys.argv[1] if len(sys.argv) > 1 else "*"
res_path = os.path.join(root, "mutants", "RESULTS.json")
results = json.load(open(res_path)) if os.path.exists(res_path) else {}
for p in sorted(glob.glob(os.path.join(root, "mutants", pat + ".diff"))):
    name = os.path.basename(p)[:-5]
    m = re.match(r"c(\d\d)_", name)
    if not m:
        continue
    checks = EXTRA.get(name, ["C" + m.group(1)])
    ready = set(open(os.path.join(root, "READY_CHECKS")).read().split())
    checks = [c for c in checks if c in ready]
    if not checks:
        continue
    r = subprocess.run([os.path.join(root, "tools", "sens.py"), p, *checks, "--tests"], capture_output=True, text=True)
    entry = {"tests": None, "checks": {}, "equivalent": EQUIVALENT.get(name)}
    for line in r.stdout.splitlines():
        if line.startswith("TESTS"):
            entry["tests"] = "pass" if "pass" in line.split()[1] else "fail"
        mm = re.match(r"\S+\.diff (C\d\d): exit=(\d+) (\d+)s \| ?(.*)", line)
        if mm:
            entry["checks"][mm.group(1)] = {"exit": int(mm.group(2)), "seconds": int(mm.group(3)), "first": mm.group(4)[:160]}
    results[name] = entry
    print(name, entry["tests"], {c: v["exit"] for c, v in entry["checks"].items()}, flush=True)
    json.dump(results, open(res_path, "w"), indent=1, sort_keys=True)
with open(os.path.join(root, "mutants", "RESULTS.md"), "w") as f:
    f.write("| mutant | repo tests | check: exit (1 = caught) | note |\n|---|---|---|---|\n")
    for name, e in sorted(results.items()):
        f.write(f"| {name} | {e['tests']} | " + ", ".join(f"{c}: {v['exit']}" for c, v in e["checks"].items()) + f" | {e.get('equivalent') or ''} |\n")
