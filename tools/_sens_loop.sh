#!/bin/sh
cd /verif
C=$1; shift
for m in "$@"; do tools/sens.py mutants/$m.diff $C --tests 2>&1 | grep -v "^WARNING conda"; done
