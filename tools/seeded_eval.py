#!/venv/bin/python
"""tools/seeded_eval.py <ID-dir-name> <CHECK> [<CHECK>...]  [--src /tmp/seeded-out/<name>]
Confirms an independently written breaking change and runs checks against it:
 1. copies patch.diff / demo.* / meta.json from --src into /verif/seeded/<name>/ (if --src given)
 2. scratch copy of /repo (outside /repo and /verif), `git apply`-style patch
 3. repo's pinned stable tests against the copy (must pass), demo on /repo (must pass) and on the copy (must fail)
 4. each CHECK quick tier against the copy via BPVERIF_REPO; exit codes recorded in meta.json["verification"]
The copy is removed afterwards."""
import json, os, shutil, subprocess, sys, tempfile, time
args = sys.argv[1:]
src = None
if "--src" in args:
    i = args.index("--src"); src = args[i + 1]; del args[i:i + 2]
name, checks = args[0], args[1:]
root = os.path.dirname(os.path.dirname(os.path.abspath(__file__)))
dst = os.path.join(root, "seeded", name)
os.makedirs(dst, exist_ok=True)
if src:
    for f in os.listdir(src):
        if os.path.isfile(os.path.join(src, f)) and (f.startswith(("patch", "demo", "meta"))):
            shutil.copy(os.path.join(src, f), os.path.join(dst, f))
tmp = tempfile.mkdtemp(prefix="bpverif-seeded-", dir="/tmp")
copy = os.path.join(tmp, "repo")
ver = {"at_repo_commit": subprocess.run(["git", "-C", "/repo", "log", "--format=%h", "-1"], capture_output=True, text=True).stdout.strip(), "checks": {}}
try:
    shutil.copytree("/repo", copy, ignore=shutil.ignore_patterns(".git", "__pycache__", "docs", "benchmark", "editors"))
    r = subprocess.run(["patch", "-p1", "-s", "-i", os.path.join(dst, "patch.diff")], cwd=copy, capture_output=True, text=True)
    ver["patch_applies"] = r.returncode == 0
    if r.returncode != 0:
        print("PATCH FAILED", r.stdout, r.stderr)
    e2 = dict(os.environ, PYTHONPATH=copy + "/compiler:" + copy + "/lib/py")
    t = subprocess.run(["/venv/bin/python", "-m", "pytest", "-q", "-p", "no:cacheprovider", "--timeout=900", "tests/test_compiler", "tests/test_encoding/test_encoding.py::test_encoding_issue52"], cwd=copy, env=e2, capture_output=True, text=True)
    ver["repo_tests"] = (t.stdout.strip().splitlines() or ["?"])[-1]
    demo = "demo.sh" if os.path.exists(os.path.join(dst, "demo.sh")) else "demo.py"
    runner = ["sh"] if demo.endswith(".sh") else ["/venv/bin/python"]
    d1 = subprocess.run(runner + [os.path.join(dst, demo), "/repo"], capture_output=True, text=True, timeout=1800)
    d2 = subprocess.run(runner + [os.path.join(dst, demo), copy], capture_output=True, text=True, timeout=1800)
    ver["demo_on_repo_exit"] = d1.returncode
    ver["demo_on_changed_exit"] = d2.returncode
    ver["demo_on_changed_tail"] = (d2.stdout + d2.stderr)[-400:]
    env = dict(os.environ, BPVERIF_REPO=copy)
    for c in checks:
        t0 = time.time()
        r = subprocess.run([os.path.join(root, "run"), c, "--tier", "quick"], env=env, capture_output=True, text=True)
        lines = [l for l in r.stdout.splitlines() if l.startswith(("VIOLATION", "  part", "HARNESS"))]
        ver["checks"][c] = {"exit": r.returncode, "seconds": int(time.time() - t0), "first": " ".join(lines[:2])[:500]}
        print(name, c, "exit", r.returncode, int(time.time() - t0), "s |", " ".join(lines[:2])[:300], flush=True)
finally:
    shutil.rmtree(tmp, ignore_errors=True)
    subprocess.run(["git", "checkout", "--", "evidence"], cwd=root, capture_output=True)
mp = os.path.join(dst, "meta.json")
meta = json.load(open(mp)) if os.path.exists(mp) else {}
old_checks = dict(meta.get("verification", {}).get("checks", {}))
meta.setdefault("verification", {}).update(ver)
# results of checks evaluated in earlier calls are kept (a later call re-evaluates only the checks it names)
for c, v in old_checks.items():
    meta["verification"]["checks"].setdefault(c, v)
meta["verification"]["caught_by"] = sorted(c for c, v in meta["verification"]["checks"].items() if v["exit"] == 1)
json.dump(meta, open(mp, "w"), indent=1)
print(name, "tests:", ver.get("repo_tests"), "demo repo/changed:", ver.get("demo_on_repo_exit"), ver.get("demo_on_changed_exit"), "caught_by:", meta["verification"]["caught_by"])
