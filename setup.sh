#!/bin/sh
# Offline setup: make sure hypothesis is importable by /venv's python (it is pre-installed; the
# wheelhouse install is a no-op then) and that the toolchain the checks need is present.
cd "$(dirname "$0")" || exit 1
/venv/bin/python -c 'import hypothesis' 2>/dev/null || /venv/bin/pip install --no-index --find-links /opt/veriftools/wheels hypothesis || exit 1
/venv/bin/python -c 'import hypothesis, ply; print("hypothesis", hypothesis.__version__)' || exit 1
gcc --version >/dev/null || exit 1
# atheris (coverage-guided fuzzing for C09) goes beside the framework, not into /venv
[ -d .deps/atheris ] || /venv/bin/pip install -q --no-index --find-links /opt/veriftools/wheels --target .deps atheris || exit 1
PYTHONPATH=.deps /venv/bin/python -c 'import atheris' || exit 1
mkdir -p evidence replays
exit 0
