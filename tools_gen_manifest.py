#!/venv/bin/python
"""Regenerates MANIFEST.json from the check modules present (kept valid at all times)."""
import importlib, json, os, sys
sys.path.insert(0, os.path.dirname(os.path.abspath(__file__)))
props = [json.loads(l) for l in open('properties.jsonl')]
READY = set(open('READY_CHECKS').read().split())
checks, na = [], []
for p in props:
    pid = p['id']
    path = f'bpverif/checks/{pid.lower()}.py'
    if not os.path.exists(path) or pid not in READY:
        na.append({"property_id": pid, "reason": "check not built yet (work in progress; see DESIGN.md section 7 for the planned generated-input check)"})
        continue
    mod = importlib.import_module(f'bpverif.checks.{pid.lower()}')
    if getattr(mod, 'NOT_APPLICABLE', None):
        na.append({"property_id": pid, "reason": mod.NOT_APPLICABLE}); continue
    checks.append({
        "property_id": pid,
        "quick_cmd": f"./run {pid} --tier quick",
        "thorough_cmd": f"./run {pid} --tier thorough",
        "evidence_file": f"evidence/{pid}.json",
        "replay_cmd_template": f"./run {pid} --replay {{path}}",
        "engine": "bpverif",
        "level_claimed": {"category": getattr(mod, 'LEVEL', 'exploration'), "text": getattr(mod, 'LEVEL_TEXT', mod.RULE)[:1500], "design_ref": f"DESIGN.md section 7, {pid}"},
        "level_note": "; ".join(getattr(mod, 'ASSUMPTIONS', []))[:1500],
        "technique": getattr(mod, 'TECHNIQUE', "property-based testing (Hypothesis generators) against an independent reference model"),
    })
man = {
    "version": 1,
    "setup_cmd": "./setup.sh",
    "hooks": {"guard": "HIT9_BITPROTO_VERIF", "enable": "no hooks are needed: checks observe the repo tree from outside (sys.path pinned to /repo/compiler and /repo/lib/py, C runtime compiled from /repo/lib/c)", "baseline_off_cmd": "cd /repo && /venv/bin/python -m pytest -ra -q -p no:cacheprovider --timeout=900 --continue-on-collection-errors", "source_commits": [], "add_only": True},
    "engines": [{"name": "bpverif", "path": "bpverif/", "serves_properties": [c['property_id'] for c in checks], "kind_free_text": "Python package: own schema model + bit-list reference encoder (oracle), Hypothesis strategies composing schema features, executors for generated Python/C/Go, sharded runner"}],
    "checks": checks,
    "not_applicable": na,
    "notes": "Every check: exit 0 held / 1 VIOLATION / 2 harness error. VERIF_SEED selects the Hypothesis seed (seed*1000+shard).",
}
json.dump(man, open('MANIFEST.json','w'), indent=1); open('MANIFEST.json','a').write("\n")
print(len(checks), "checks;", len(na), "not applicable")
