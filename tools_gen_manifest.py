#!/venv/bin/python
"""Regenerates MANIFEST.json from the check modules present (kept valid at all times)."""
import importlib, json, os, sys
sys.path.insert(0, os.path.dirname(os.path.abspath(__file__)))
LEVEL_TEXT = {
 "C01": "Sampled search (thousands of generated schemas x basis/one-hot/random values per run) against an independent bit-list reference encoder: finds layout errors common to all languages or confined to feature combinations nobody wrote down; no claim of absence. The property quantifies over all schemas x values, which only generated search with a reference model can sample broadly.",
 "C02": "Sampled round trips (encode, decode of own and of reference bytes into a fresh object, leaf-wise compare, re-encode) over generated schemas incl. every enum member at its offset and signed extremes; recorded finding D4b attributed by exact predicate, everything else strict.",
 "C03": "Sampled schemas x values x {gcc -O0..-O3, clang -O2} x {separate, single TU}: generated C executed in a fenced driver process and compared with the reference encoder and the Python encoder, both directions.",
 "C04": "Sampled traditional schemas; for each, every bit of every leaf (one-hot basis) plus extremes through five C builds (standard, -O both, -O both+BP_BIG_ENDIAN, -O little, -O big) and the interpreted Go -O code, all against the reference.",
 "C05": "Model-based generation of schema-version histories (rules append_field / grow_array at any depth) with a projection oracle; Python always, C and interpreted Go on a sample.",
 "C06": "Part (b) is a COMPLETE enumeration (width x offset x basis values x noise, base types, standard ints, arrays incl. batch widths) of the runtime built for big-endian with harness-laid big-endian storage; part (a) samples schemas for the -O big-endian branch. Limits of x86 simulation stated in level_note.",
 "C07": "Sampled schemas x arbitrary storage patterns in guard-page and ASan/UBSan builds, both buffer placements, standard and -O; containment as a metamorphic relation against the reference; size constants in all three languages.",
 "C08": "Complete enumeration of both sides of every numeric limit at four positions plus sampled single-violation mutants (12 rule families, ~130 variants) and valid-by-construction schemas, judged by an independent rule checker that is itself cross-checked each case.",
 "C09": "Sampled token mutations and token soups plus coverage-guided fuzzing (atheris, 8-16 processes) with exception bucketing; cannot show termination for all inputs, only times them.",
 "C10": "Sampled feature compositions pushed through gcc, g++ (layout comparison), CPython (static name resolution + import + instantiate) and a Go static checker; ten recorded findings attributed by exact shape predicates with one probe each, hazard-free units strict.",
 "C11": "Sampled shadowing patterns judged by an independent resolver; observed in the parsed schema, the generated size and the encoded bytes.",
 "C12": "Metamorphic: generated sequences of wire-preserving rewrites; bytes before == after == reference (Python always, C on a sample).",
 "C13": "Sampled expression trees (own evaluator, cross-checked by Python's parser) and strings over the lexer's alphabet; emission read back by importing Python, compiling C, lexing/type-checking Go.",
 "C14": "COMPLETE enumeration of {bool, byte, uint1..64, int1..64} x offset 0..7 x {scalar, array, alias, array of alias} x basis values through Python, C standard / -O (both branches), Go standard / -O (interpreted) and direct C runtime calls (LE and BE builds).",
 "C15": "Sampled style-guide-named schemas: expected names computed from the documented scheme and observed in object symbols, a names program, Python attributes, parsed Go declarations, file names; prefix option as a metamorphic relation.",
 "C16": "Sampled schemas x in-range values: Python to_json/to_dict and C Json output parsed and compared with the value tree from the model and with each other.",
 "C17": "Relations between invocations on sampled schemas with planted extensible markers, all -F subset kinds, languages, --endian; function texts compared between filtered and unfiltered output.",
 "C18": "Fresh-process invocations under varied hash seed / cwd / path form / outdir / -q, and generated in-process histories over name-sharing twin schemas against a fresh-process oracle (sha256 of every output file).",
 "C19": "Generated Go executed by a Go-subset interpreter: struct shape, size constants, processor tree (vs Python's and the model's), accessors by encode/decode against the reference; runtime helpers on their COMPLETE argument domains.",
 "C20": "Sampled conforming / perturbed schemas and single-violation mutants at shifted lines; warnings, citations, every definition's and reference's line/column against the renderer's source map; -q advisory relation; check-only exit status.",
}
props = [json.loads(l) for l in open('properties.jsonl')]
READY = set(open('READY_CHECKS').read().split())
checks, na = [], []
for p in props:
    pid = p['id']
    path = f'bpverif/checks/{pid.lower()}.py'
    if not os.path.exists(path) or pid not in READY:
        na.append({"property_id": pid, "reason": "check not built yet (work in progress; see DESIGN.md section 7 for the planned generated-input check)"})
        continue
    mod = importlib.import_module(f'bpverif.checks.{pid.lower()}')
    if getattr(mod, 'NOT_APPLICABLE', None):
        na.append({"property_id": pid, "reason": mod.NOT_APPLICABLE}); continue
    checks.append({
        "property_id": pid,
        "quick_cmd": f"./run {pid} --tier quick",
        "thorough_cmd": f"./run {pid} --tier thorough",
        "evidence_file": f"evidence/{pid}.json",
        "replay_cmd_template": f"./run {pid} --replay {{path}}",
        "engine": "bpverif",
        "level_claimed": {"category": getattr(mod, 'LEVEL', 'exploration'), "text": (LEVEL_TEXT.get(pid, "") + " How cases are generated and counted: " + mod.RULE)[:2500], "design_ref": f"DESIGN.md section 7, {pid}"},
        "level_note": "; ".join(getattr(mod, 'ASSUMPTIONS', []))[:1500],
        "technique": getattr(mod, 'TECHNIQUE', "property-based testing (Hypothesis generators) against an independent reference model"),
    })
man = {
    "version": 1,
    "setup_cmd": "./setup.sh",
    "hooks": {"guard": "HIT9_BITPROTO_VERIF", "enable": "no hooks are needed: checks observe the repo tree from outside (sys.path pinned to /repo/compiler and /repo/lib/py, C runtime compiled from /repo/lib/c)", "baseline_off_cmd": "cd /repo && /venv/bin/python -m pytest -ra -q -p no:cacheprovider --timeout=900 --continue-on-collection-errors", "source_commits": [], "add_only": True},
    "engines": [{"name": "bpverif", "path": "bpverif/", "serves_properties": [c['property_id'] for c in checks], "kind_free_text": "Python package: own schema model + bit-list reference encoder (oracle), Hypothesis strategies composing schema features, executors for generated Python/C/Go, sharded runner"}],
    "checks": checks,
    "not_applicable": na,
    "notes": "Every check: exit 0 held / 1 VIOLATION / 2 harness error. VERIF_SEED selects the Hypothesis seed (seed*1000+shard). DESIGN.md section 0 is the status as built: defects found and their disposition (fix: commits in /repo, known_findings.json + known_findings.d/), false alarms met, sensitivity (mutants/RESULTS.md) and five rounds of independently written breaking changes (seeded/, 100 changes) with what each taught the generators.",
}
json.dump(man, open('MANIFEST.json','w'), indent=1); open('MANIFEST.json','a').write("\n")
print(len(checks), "checks;", len(na), "not applicable")
