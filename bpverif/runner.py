"""Tiers, seeds, sharding, evidence, VIOLATION lines, replay."""

from __future__ import annotations

import hashlib
import importlib
import json
import multiprocessing
import os
import signal
import sys
import time
import traceback
from typing import Any, Callable, Dict, List, Optional, Tuple

from . import env, findings
from . import model as model_mod

EXIT_OK = 0
EXIT_VIOLATION = 1
EXIT_HARNESS = 2


class Violation(Exception):
    """The property does not hold on this case."""

    def __init__(self, message: str, details: Optional[dict] = None, signature: str = ""):
        super().__init__(message)
        self.message = message
        self.details = details or {}
        self.signature = signature


class HarnessError(Exception):
    pass


class CaseTimeout(BaseException):
    """Raised by SIGALRM inside a generated case (BaseException so that no `except Exception` of a check swallows it)."""


def _case_alarm(signum: Any, frame: Any) -> None:
    raise CaseTimeout()


class Stats:
    """Per-shard counters; merged by the parent."""

    MAX_SAMPLES = 3

    def __init__(self) -> None:
        self.evaluations = 0
        self.examples = 0
        self.labels: Dict[str, int] = {}
        self.nontrivial: set = set()
        self.samples: List[Any] = []
        self.known: Dict[str, int] = {}
        self.known_examples: Dict[str, str] = {}
        self.excluded: Dict[str, int] = {}
        self.inconclusive: Dict[str, int] = {}
        self.targets: Dict[str, int] = {}
        self.extra: Dict[str, Any] = {}
        self.distinct_counted = 0  # distinct non-trivial points of complete enumerations (distinct by construction)

    def add_distinct(self, n: int) -> None:
        self.distinct_counted += n

    def count(self, *labels: str) -> None:
        for l in labels:
            self.labels[l] = self.labels.get(l, 0) + 1

    def target(self, name: str, n: int = 1) -> None:
        self.targets[name] = self.targets.get(name, 0) + n

    def mark_nontrivial(self, *parts: Any) -> None:
        h = hashlib.sha256()
        for p in parts:
            h.update(repr(p).encode("utf-8", "replace"))
            h.update(b"\0")
        self.nontrivial.add(h.hexdigest()[:16])

    def sample(self, obj: Any) -> None:
        if len(self.samples) < self.MAX_SAMPLES:
            self.samples.append(obj)

    def known_finding(self, fid: str, what: str = "") -> None:
        self.known[fid] = self.known.get(fid, 0) + 1
        if fid not in self.known_examples and what:
            self.known_examples[fid] = what[:300]

    def exclude(self, why: str, n: int = 1) -> None:
        self.excluded[why] = self.excluded.get(why, 0) + n

    def inconclusive_(self, why: str, n: int = 1) -> None:
        self.inconclusive[why] = self.inconclusive.get(why, 0) + n

    def to_dict(self) -> dict:
        return {
            "evaluations": self.evaluations if self.evaluations else self.examples,
            "examples": self.examples,
            "labels": self.labels,
            "nontrivial": sorted(self.nontrivial),
            "samples": self.samples,
            "known": self.known,
            "known_examples": self.known_examples,
            "excluded": self.excluded,
            "inconclusive": self.inconclusive,
            "targets": self.targets,
            "extra": self.extra,
            "distinct_counted": self.distinct_counted,
        }


def _merge(dst: dict, src: dict) -> None:
    dst["evaluations"] += src["evaluations"]
    dst["examples"] = dst.get("examples", 0) + src.get("examples", 0)
    for key in ("labels", "known", "excluded", "inconclusive", "targets"):
        for k, v in src[key].items():
            dst[key][k] = dst[key].get(k, 0) + v
    dst["nontrivial"].update(src["nontrivial"])
    dst["distinct_counted"] = dst.get("distinct_counted", 0) + src.get("distinct_counted", 0)
    for s in src["samples"]:
        if len(dst["samples"]) < 5:
            dst["samples"].append(s)
    for k, v in src["known_examples"].items():
        dst["known_examples"].setdefault(k, v)
    for k, v in src["extra"].items():
        if isinstance(v, (int, float)) and isinstance(dst["extra"].get(k, 0), (int, float)):
            dst["extra"][k] = dst["extra"].get(k, 0) + v
        elif isinstance(v, bool):
            dst["extra"][k] = dst["extra"].get(k, True) and v
        else:
            dst["extra"].setdefault(k, v)


# ---------------------------------------------------------------------------
# Replay files
# ---------------------------------------------------------------------------


def replay_dir() -> str:
    d = os.path.join(env.VERIF_ROOT, "replays")
    os.makedirs(d, exist_ok=True)
    return d


def save_replay(check_id: str, part: str, case: Any, v: Violation, describe: Optional[Callable[[Any], Any]], seed: int, shard: int) -> str:
    try:
        desc = describe(case) if describe else None
    except Exception as e:  # description must never hide the failure
        desc = {"describe_error": repr(e)}
    blob = {
        "property": check_id,
        "part": part,
        "message": v.message,
        "signature": v.signature,
        "details": _jsonable(v.details),
        "seed": seed,
        "shard": shard,
        "case": desc,
        "case_pickle": model_mod.dumps(case),
    }
    h = hashlib.sha256(blob["case_pickle"].encode()).hexdigest()[:10]
    path = os.path.join(replay_dir(), f"{check_id}-{part}-{h}.json")
    with open(path, "w") as f:
        json.dump(blob, f, indent=1, default=repr)
    return path


def _jsonable(x: Any) -> Any:
    try:
        json.dumps(x)
        return x
    except Exception:
        if isinstance(x, dict):
            return {str(k): _jsonable(v) for k, v in x.items()}
        if isinstance(x, (list, tuple)):
            return [_jsonable(v) for v in x]
        if isinstance(x, (bytes, bytearray)):
            return bytes(x).hex()
        return repr(x)


# ---------------------------------------------------------------------------
# Parts: a check is a list of parts, each either a Hypothesis part or a plain
# function part (enumerations, probes, regressions).
# ---------------------------------------------------------------------------


class HypPart:
    """Generated search: strategy + run_case, sharded."""

    def __init__(
        self,
        name: str,
        strategy: Callable[[str], Any],
        run_case: Callable[[Any, Stats], None],
        examples: Dict[str, int],
        describe: Optional[Callable[[Any], Any]] = None,
        shards: Optional[Dict[str, int]] = None,
        stateful: bool = False,
    ):
        self.name = name
        self.strategy = strategy
        self.run_case = run_case
        self.examples = examples
        self.describe = describe
        self.shards = shards or {"quick": 16, "thorough": 16}


class FuncPart:
    """Deterministic work split into `jobs(tier)` independent jobs; each job is
    `run(job, stats)` and may raise Violation(case=job)."""

    def __init__(
        self,
        name: str,
        jobs: Callable[[str, int], List[Any]],
        run: Callable[[Any, Stats], None],
        describe: Optional[Callable[[Any], Any]] = None,
    ):
        self.name = name
        self.jobs = jobs
        self.run = run
        self.describe = describe


def _shard_worker(args: Tuple[str, str, str, int, int, int]) -> dict:
    check_id, part_name, tier, seed, shard, nshards = args
    t0 = time.time()
    try:
        r = _shard_worker_inner(check_id, part_name, tier, seed, shard, nshards)
        r["seconds"] = time.time() - t0
        return r
    except BaseException as e:  # harness error
        try:
            # (Hypothesis attaches the falsifying example as a note: a repr of up to a megabyte that would push the
            # exception itself out of the report)
            e.__notes__ = [str(n)[:400] for n in getattr(e, "__notes__", [])]
        except Exception:
            pass
        text = f"{type(e).__name__}: {str(e)[:1500]}\n" + "".join(traceback.format_exception(type(e), e, e.__traceback__))[-6000:]
        return {"harness_error": text, "stats": Stats().to_dict()}
    finally:
        env.cleanup_now()


def load_check(check_id: str) -> Any:
    return importlib.import_module(f"bpverif.checks.{check_id.lower()}")


def _find_part(mod: Any, name: str) -> Any:
    for p in mod.PARTS:
        if p.name == name:
            return p
    raise KeyError(name)


def _shard_worker_inner(check_id: str, part_name: str, tier: str, seed: int, shard: int, nshards: int) -> dict:
    mod = load_check(check_id)
    part = _find_part(mod, part_name)
    stats = Stats()
    result: dict = {}
    if isinstance(part, HypPart):
        import hypothesis
        from hypothesis import HealthCheck, Phase, given, settings

        n = part.examples[tier]
        n_here = n // nshards + (1 if shard < n % nshards else 0)
        if n_here <= 0:
            return {"stats": stats.to_dict()}
        phases = [Phase.explicit, Phase.generate]
        if tier == "thorough" or os.environ.get("BPVERIF_SHRINK") == "1":
            phases.append(Phase.shrink)
        holder: Dict[str, Any] = {}

        strat = part.strategy(tier)
        budget = int(os.environ.get("BPVERIF_CASE_BUDGET_S", "240" if tier == "quick" else "1200"))

        @hypothesis.seed(seed * 1000 + shard)
        @settings(
            max_examples=n_here,
            database=None,
            deadline=None,
            report_multiple_bugs=False,
            suppress_health_check=list(HealthCheck),
            phases=phases,
            print_blob=False,
        )
        @given(strat)
        def test(case: Any) -> None:
            stats.examples += 1
            old_handler = signal.signal(signal.SIGALRM, _case_alarm)
            signal.alarm(budget)
            tc = time.time()
            try:
                part.run_case(case, stats)
            except CaseTimeout:
                # a time budget is never a correctness signal: the case is inconclusive
                stats.inconclusive_(f"case exceeded the {budget} s per-case time budget (generated case too expensive)")
            except Violation as v:
                holder["case"] = case
                holder["violation"] = v
                raise
            finally:
                signal.alarm(0)
                signal.signal(signal.SIGALRM, old_handler)
                if os.environ.get("BPVERIF_SLOWLOG") and time.time() - tc > float(os.environ["BPVERIF_SLOWLOG"]):
                    try:
                        sys.stderr.write(f"SLOW {check_id}/{part.name} shard {shard}: {time.time() - tc:.0f}s {(lambda t: t[:900] + ' ... ' + t[-500:])(str(part.describe(case) if part.describe else case))}\n")
                    except Exception:
                        pass

        try:
            test()
        except Violation as v:
            case = holder.get("case")
            vv = holder.get("violation", v)
            path = save_replay(check_id, part.name, case, vv, part.describe, seed, shard)
            result["violation"] = {"message": vv.message, "replay": path, "signature": vv.signature}
        except hypothesis.errors.Flaky as e:  # a failing case that does not reproduce
            if "violation" in holder:
                vv = holder["violation"]
                path = save_replay(check_id, part.name, holder.get("case"), vv, part.describe, seed, shard)
                result["violation"] = {"message": "(flaky) " + vv.message, "replay": path, "signature": vv.signature}
            else:
                raise
    else:
        jobs = part.jobs(tier, seed)
        for k, job in enumerate(jobs):
            if k % nshards != shard:
                continue
            stats.examples += 1
            try:
                part.run(job, stats)
            except Violation as v:
                path = save_replay(check_id, part.name, job, v, part.describe, seed, shard)
                result["violation"] = {"message": v.message, "replay": path, "signature": v.signature}
                break
    result["stats"] = stats.to_dict()
    return result


# ---------------------------------------------------------------------------
# Main entry
# ---------------------------------------------------------------------------


def evidence_path(check_id: str) -> str:
    d = os.path.join(env.VERIF_ROOT, "evidence")
    os.makedirs(d, exist_ok=True)
    return os.path.join(d, f"{check_id}.json")


def run_check(check_id: str, tier: str, seed: int, jobs: int = 16) -> int:
    t0 = time.time()
    mod = load_check(check_id)
    merged = Stats().to_dict()
    merged["nontrivial"] = set()
    violations: List[dict] = []
    harness_errors: List[str] = []
    per_part: Dict[str, Any] = {}

    # self tests (harness must be sane before anything it says is believed)
    if hasattr(mod, "selftest"):
        try:
            mod.selftest()
        except Exception as e:
            print(f"HARNESS-ERROR property={check_id} selftest failed: {e!r}")
            traceback.print_exc()
            return EXIT_HARNESS

    tasks = []
    for part in mod.PARTS:
        if isinstance(part, HypPart):
            ns = min(jobs, part.shards.get(tier, jobs), max(1, part.examples[tier]))
        else:
            njobs = len(part.jobs(tier, seed))
            ns = max(1, min(jobs, njobs))
        for s in range(ns):
            tasks.append((check_id, part.name, tier, seed, s, ns))

    ctx = multiprocessing.get_context("fork")
    with ctx.Pool(processes=min(jobs, max(1, len(tasks))), maxtasksperchild=1) as pool:
        for task, res in zip(tasks, pool.imap(_shard_worker, tasks, chunksize=1)):
            pname = task[1]
            pp = per_part.setdefault(pname, {"evaluations": 0, "shards": 0})
            pp["shards"] += 1
            pp["evaluations"] += res["stats"]["evaluations"]
            pp["slowest_shard_s"] = round(max(pp.get("slowest_shard_s", 0.0), res.get("seconds", 0.0)), 1)
            _merge(merged, res["stats"])
            if "harness_error" in res:
                harness_errors.append(f"[{pname} shard {task[4]}]\n" + res["harness_error"])
            if "violation" in res:
                v = dict(res["violation"])
                v["part"] = pname
                violations.append(v)

    wall = time.time() - t0
    kf = findings.load()
    known_lines: List[str] = []
    unknown_known: List[str] = []
    for fid, n in sorted(merged["known"].items()):
        entry = kf.get(fid)
        if entry and entry.get("status") == "known" and check_id in entry.get("properties", []):
            known_lines.append(f"KNOWN-FINDING: property={check_id} {fid} {entry['what']} (seen {n}x this run)")
        else:
            unknown_known.append(fid)

    rule = getattr(mod, "RULE", "")
    nt = len(merged["nontrivial"]) + merged.get("distinct_counted", 0)
    ev = {
        "property_id": check_id,
        "tier": tier,
        "seed": seed,
        "level": getattr(mod, "LEVEL", "exploration"),
        "coverage": {
            "evaluations": merged["evaluations"],
            "distinct_nontrivial": nt,
            "rule": rule,
            "samples": merged["samples"],
            "labels": dict(sorted(merged["labels"].items())),
            "targets": merged["targets"],
            "excluded_by_rule": merged["excluded"],
            "inconclusive": merged["inconclusive"],
            "known_findings_seen": merged["known"],
            "known_finding_examples": merged["known_examples"],
            "parts": per_part,
            "exhaustive": bool(merged["extra"].get("exhaustive", False)),
            "extra": {k: v for k, v in merged["extra"].items() if k != "exhaustive"},
        },
        "assumptions": list(getattr(mod, "ASSUMPTIONS", [])),
        "wall_s": round(wall, 2),
        "violations": len(violations) + len(unknown_known),
    }
    with open(evidence_path(check_id), "w") as f:
        json.dump(ev, f, indent=1, default=repr)
        f.write("\n")

    for line in known_lines:
        print(line)
    print(
        f"{check_id} tier={tier} seed={seed} evaluations={merged['evaluations']} distinct_nontrivial={nt} "
        f"known={merged['known']} excluded={merged['excluded']} inconclusive={merged['inconclusive']} wall={wall:.1f}s"
    )
    if harness_errors:
        for h in harness_errors[:3]:
            print("HARNESS-ERROR", h)
        return EXIT_HARNESS
    code = EXIT_OK
    for fid in unknown_known:
        print(f"VIOLATION property={check_id} replay=known_findings.json#{fid} (finding {fid} observed but not listed as known for this property)")
        code = EXIT_VIOLATION
    for v in violations:
        print(f"VIOLATION property={check_id} replay={v['replay']}")
        print(f"  part={v['part']} {v['message'][:2000]}")
        code = EXIT_VIOLATION
    # self check of generation quality
    if code == EXIT_OK and hasattr(mod, "REQUIRED_LABELS") and tier in ("quick", "thorough"):
        missing = [l for l in mod.REQUIRED_LABELS if merged["labels"].get(l, 0) == 0]
        if missing:
            print(f"HARNESS-ERROR property={check_id} generator produced no case with labels {missing}")
            return EXIT_HARNESS
    if code == EXIT_OK and nt < 2:
        print(f"HARNESS-ERROR property={check_id} fewer than 2 distinct non-trivial cases")
        return EXIT_HARNESS
    return code


def run_replay(check_id: str, path: str) -> int:
    mod = load_check(check_id)
    with open(path) as f:
        blob = json.load(f)
    case = model_mod.loads(blob["case_pickle"])
    part = _find_part(mod, blob["part"])
    stats = Stats()
    try:
        if isinstance(part, HypPart):
            part.run_case(case, stats)
        else:
            part.run(case, stats)
    except Violation as v:
        print(f"VIOLATION property={check_id} replay={path}")
        print("  " + v.message[:4000])
        return EXIT_VIOLATION
    finally:
        env.cleanup_now()
    if stats.known:
        print(f"replay passes as known finding(s): {stats.known}")
    else:
        print("replay passes")
    return EXIT_OK


def main(argv: Optional[List[str]] = None) -> int:
    import argparse

    ap = argparse.ArgumentParser()
    ap.add_argument("check")
    ap.add_argument("--tier", default=os.environ.get("VERIF_TIER", "quick"), choices=["quick", "thorough"])
    ap.add_argument("--seed", type=int, default=None)
    ap.add_argument("--replay", default=None)
    ap.add_argument("--jobs", type=int, default=int(os.environ.get("BPVERIF_JOBS", "16")))
    a = ap.parse_args(argv)
    seed = a.seed if a.seed is not None else int(os.environ.get("VERIF_SEED", "1") or "1")
    check_id = a.check.upper()
    try:
        if a.replay:
            return run_replay(check_id, a.replay)
        return run_check(check_id, a.tier, seed, a.jobs)
    except Exception:
        traceback.print_exc()
        print(f"HARNESS-ERROR property={check_id}")
        return EXIT_HARNESS
