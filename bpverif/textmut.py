"""C09: token-level and byte-level mutators over schema text, input pre-scan,
and classification of escaping exceptions."""

from __future__ import annotations

import os
import re
import traceback
from typing import Any, Dict, List, Optional, Tuple

from hypothesis import strategies as st

VOCAB = [
    "proto", "import", "option", "type", "const", "enum", "message", "typedef",
    "bool", "byte", "uint1", "uint8", "uint16", "uint64", "uint65", "uint0", "int1", "int7", "int32", "int64", "int65",
    "true", "false", "yes", "no",
    "{", "}", "[", "]", "(", ")", ":", ";", "=", "'", ".", "+", "-", "*", "/", "\\",
    "\n", "\n", " ", "    ", "\t", "\r",
    "0", "1", "2", "7", "8", "255", "256", "65535", "65536", "0x0", "0xff", "0xFFFFFFFFFFFFFFFF", "18446744073709551616",
    '"a.bitproto"', '"b.bitproto"', '"nosuch.bitproto"', '""', '"x\\ty"', '"\\q"', '"unterminated', '"an unterminated string literal that goes on and on for a while', '"trailing backslash \\\\',
    "// comment", "//", "/",
    "Foo", "Bar", "foo", "bar", "K", "X_Y", "a", "b", "Foo.Bar", "a.Foo", "K.x", "a.K.z", "Color.RED.x", "Foo.x.y", "T.size", "max_bytes.n", "Foo.Bar.y.z", "a.Foo.Bar", "b.a.K", "max_bytes", "c.name_prefix", "c.struct_packing_alignment", "py.module_name", "go.package_path",
    "é", "\x00", "\x7f", "@", "#", "$", "`", " ",
]

TOKEN_RE = re.compile(r"//[^\n]*|\"(?:[^\\\n\"]|\\.)*\"|0x[0-9a-fA-F]+|[0-9]+|[A-Za-z_][A-Za-z0-9_]*|\n|[ \t\r]+|.", re.S)


def tokenize(text: str) -> List[str]:
    return TOKEN_RE.findall(text)


@st.composite
def mutated(draw: Any, seeds: List[str]) -> Tuple[str, str]:
    """(text, kind). A seed schema with 1..4 token-level mutations."""
    base = draw(st.sampled_from(seeds))
    toks = tokenize(base)
    kinds = []
    for _ in range(draw(st.integers(1, 4))):
        if not toks:
            toks = ["proto", " ", "x"]
        k = draw(st.sampled_from(["delete", "duplicate", "swap", "replace", "insert", "truncate", "splice", "bignum", "longident", "nest", "oddchar", "delete_run", "dotted", "dotted", "keyword_as_name"]))
        i = draw(st.integers(0, len(toks) - 1))
        if k == "delete":
            del toks[i]
        elif k == "delete_run":
            j = min(len(toks), i + draw(st.integers(1, 6)))
            del toks[i:j]
        elif k == "duplicate":
            toks.insert(i, toks[i])
        elif k == "swap":
            j = draw(st.integers(0, len(toks) - 1))
            toks[i], toks[j] = toks[j], toks[i]
        elif k == "replace":
            toks[i] = draw(st.sampled_from(VOCAB))
        elif k == "insert":
            toks.insert(i, draw(st.sampled_from(VOCAB)))
        elif k == "truncate":
            toks = toks[:i]
        elif k == "splice":
            other = tokenize(draw(st.sampled_from(seeds)))
            j = draw(st.integers(0, len(other)))
            toks = toks[:i] + other[j:]
        elif k == "bignum":
            n = draw(st.sampled_from([20, 100, 1000, 2900]))
            toks[i] = draw(st.sampled_from(["9", "1", "0x"])) + "9" * n
        elif k == "longident":
            toks[i] = "A" * draw(st.sampled_from([64, 1000, 20000]))
        elif k == "nest":
            d = draw(st.integers(2, 40))
            toks.insert(i, "".join(f"message N{q} {{\n" for q in range(d)) + "bool b = 1\n" + "}\n" * d)
        elif k == "dotted":
            # extend / prefix an identifier with another identifier of the same text: dotted paths through
            # definitions of every kind (constants, fields, enum members, aliases, options, imports)
            idents = [q for q, t in enumerate(toks) if re.fullmatch(r"[A-Za-z_][A-Za-z0-9_]*", t) and t not in ("proto", "import", "option", "type", "const", "enum", "message", "typedef")]
            if len(idents) >= 2:
                a = idents[draw(st.integers(0, len(idents) - 1))]
                b = idents[draw(st.integers(0, len(idents) - 1))]
                if draw(st.booleans()):
                    toks[a] = toks[a] + "." + toks[b]
                else:
                    toks[a] = toks[b] + "." + toks[a]
        elif k == "keyword_as_name":
            idents = [q for q, t in enumerate(toks) if re.fullmatch(r"[A-Za-z_][A-Za-z0-9_]*", t)]
            if idents:
                toks[idents[draw(st.integers(0, len(idents) - 1))]] = draw(st.sampled_from(["type", "message", "enum", "const", "option", "import", "proto", "bool", "byte", "uint8", "true", "no"]))
        elif k == "oddchar":
            toks.insert(i, draw(st.text(min_size=1, max_size=3)))
        kinds.append(k)
    return "".join(toks), "+".join(kinds)


@st.composite
def token_soup(draw: Any) -> Tuple[str, str]:
    n = draw(st.integers(0, 60))
    toks = [draw(st.sampled_from(VOCAB)) for _ in range(n)]
    sep = draw(st.sampled_from([" ", "", "\n"]))
    return "proto s\n" * draw(st.integers(0, 1)) + sep.join(toks), "soup"


@st.composite
def arith_texts(draw: Any) -> Tuple[str, str]:
    """Constant arithmetic far outside the machine ranges: literals of 1..1000 digits (decimal and hexadecimal, i.e.
    beyond 2**64, 2**1024 = the float range, 10**308), all four operators, parentheses, references to earlier
    constants, negative intermediate and final results (`0 - X`), quotients of every sign combination, division by
    an expression that is zero.  Products are kept below the 4300-digit limit of recorded finding N1."""

    def literal(big: bool) -> str:
        n = draw(st.sampled_from([1, 2, 5, 19, 20, 39, 78, 155, 308, 309, 310, 617, 1000] if big else [1, 1, 2, 3, 5]))
        if draw(st.booleans()):
            first = draw(st.sampled_from("123456789"))
            rest = "".join(draw(st.lists(st.sampled_from("0123456789"), min_size=0, max_size=min(n - 1, 6)))) if n > 1 else ""
            return first + rest + draw(st.sampled_from("0919")) * max(0, n - 1 - len(rest))
        hexn = max(1, n * 5 // 6)
        return "0x" + draw(st.sampled_from("123456789abcdefABCDEF")) + draw(st.sampled_from("0fF7a")) * (hexn - 1)

    names: List[str] = []

    def atom(allow_ref: bool) -> str:
        r = draw(st.integers(0, 5))
        if r == 0 and names and allow_ref:
            return draw(st.sampled_from(names))
        if r == 1:
            return "(0 - " + literal(draw(st.booleans())) + ")"
        return literal(draw(st.integers(0, 2)) > 0)

    def product() -> str:
        k = draw(st.sampled_from([1, 1, 2, 3]))
        # (at most three literal factors of <= 1000 digits: below N1's limit; references are never multiplied)
        parts = [literal(True) if k > 1 else atom(True)] + [atom(False) for _ in range(k - 1)]
        if k > 1:
            parts = [p if len(p) <= 1010 else literal(False) for p in parts]
        return " * ".join(parts)

    def expr(depth: int) -> str:
        if depth <= 0:
            return product()
        op = draw(st.sampled_from(["+", "-", "-", "/", "/", "/"]))
        a, b = expr(depth - 1), expr(depth - draw(st.integers(1, 2)))
        if draw(st.booleans()):
            a = "(" + a + ")"
        if draw(st.booleans()) or op == "/":
            b = "(" + b + ")"
        return f"{a} {op} {b}"

    lines = ["proto ar", ""]
    for i in range(draw(st.integers(1, 5))):
        e = expr(draw(st.integers(0, 3)))
        name = "K" + "ABCDE"[i]
        lines.append(f"const {name} = {e}")
        names.append(name)
    # the computed values are then USED where the compiler validates them: a negative, zero or astronomically large
    # capacity, option value, size limit must be refused as a parser error like any other bad value
    use = draw(st.integers(0, 4))
    if use == 1:
        lines += ["", f"option c.struct_packing_alignment = {draw(st.sampled_from(names))}"]
    if use == 2:
        lines += ["", "message L {", f"    option max_bytes = {draw(st.sampled_from(names))}", "    uint3 x = 1", "}"]
    if use == 3:
        lines += ["", f"type T = uint7[{draw(st.sampled_from(names))}]"]
    if use == 4 or draw(st.booleans()):
        lines += ["", "message M {", f"    byte[{draw(st.sampled_from(names))}] data = 1", "}"]
    return "\n".join(lines) + "\n", "arith"


# ---------------------------------------------------------------------------
# input domain: text inputs, sandboxed import paths, recorded-finding shapes
# ---------------------------------------------------------------------------

IMPORT_RE = re.compile(r"\bimport\b[ \t\r]*(?:[A-Za-z_][A-Za-z0-9_]*[ \t\r]*)?\"((?:[^\\\n\"]|\\.)*)\"")
DIGITS_RE = re.compile(r"[0-9a-fA-Fx]{3000,}")
EMPTY_ENUM_RE = re.compile(r"\benum\b[ \t\r]*[A-Za-z_][A-Za-z0-9_]*[ \t\r]*:[ \t\r]*uint[0-9]+[ \t\r\n]*\{(?:[ \t\r\n;]|//[^\n]*\n)*\}")
MAX_DEPTH = 60

SANDBOX_FILES = {
    "a.bitproto": "proto a\n\nconst K = 2\n\nenum Color : uint3 {\n    RED = 0\n    BLUE = 1\n}\n\nmessage Foo {\n    uint3 x = 1\n    message Bar {\n        bool y = 1\n    }\n}\n",
    "b.bitproto": "proto b\n\nimport \"a.bitproto\"\n\ntype T = uint7[K]\n\nmessage Baz' {\n    a.Foo f = 1\n    a.Color c = 2\n}\n",
}


def skip_reason(text: str) -> Optional[str]:
    """Inputs outside the stated domain (counted, never judged)."""
    for m in IMPORT_RE.finditer(text):
        p = m.group(1)
        if p.startswith("/") or ".." in p or "\\" in p or p.startswith("~") or "\x00" in p:
            return "import path leaves the sandbox"
        if p not in SANDBOX_FILES and p not in ("nosuch.bitproto", "in.bitproto", ""):
            # relative paths that do not exist are fine (OSError), but keep devices etc. out
            if not re.fullmatch(r"[A-Za-z0-9_.\-]{1,40}", p):
                return "import path leaves the sandbox"
    if "\x00" in text:
        return None
    depth = 0
    mx = 0
    for ch in text:
        if ch == "{":
            depth += 1
            mx = max(mx, depth)
        elif ch == "}":
            depth = max(0, depth - 1)
    if mx > MAX_DEPTH:
        return "N5 excluded by construction: nesting deeper than %d" % MAX_DEPTH
    if DIGITS_RE.search(text):
        return "N1 excluded by construction: numeric literal longer than 3000 digits"
    return None


def _max_depth(text: str) -> int:
    depth = mx = 0
    for ch in text:
        if ch == "{":
            depth += 1
            mx = max(mx, depth)
        elif ch == "}":
            depth = max(0, depth - 1)
    return mx


def innermost_bitproto_frame(exc: BaseException, root: str) -> str:
    tb = traceback.extract_tb(exc.__traceback__)
    last = None
    for fr in tb:
        if fr.filename.startswith(root):
            last = fr
    if last is None:
        return "?"
    return f"{os.path.relpath(last.filename, root)}:{last.name}"


def classify(exc: BaseException, text: str, stage: str, root: str) -> Tuple[str, Optional[str]]:
    """(bucket, recorded finding id or None) for an exception that must not escape."""
    frame = innermost_bitproto_frame(exc, root)
    bucket = f"{stage}:{type(exc).__name__}@{frame}"
    if isinstance(exc, ZeroDivisionError) and "p_calculation_expression_divide" in frame and "/" in text:
        return bucket, "D1"
    if isinstance(exc, ValueError) and "Exceeds the limit" in str(exc) and DIGITS_RE.search(text):
        return bucket, "N1"
    if isinstance(exc, RecursionError) and _max_depth(text) > 200:
        return bucket, "N5"
    if isinstance(exc, ValueError) and "embedded null byte" in str(exc) and "\0" in text and "import" in text:
        return bucket, "N12"
    if stage == "render:py" and isinstance(exc, IndexError) and "impls/py/formatter.py" in frame and EMPTY_ENUM_RE.search(text):
        return bucket, "D3"
    return bucket, None


@st.composite
def tower_texts(draw: Any) -> Tuple[str, str]:
    """Sharing towers: level k names level k-1 TWO OR THREE times (fields, array elements, alias elements), 2..48 levels.  The
    schema text is linear in the number of levels while the expanded structure is exponential; sizes stay 0 when the bottom
    level occupies no bits (valid schema) and explode past every limit otherwise (a parser error is the expected outcome).
    Whatever is computed per definition must not be re-computed per path."""
    levels = draw(st.integers(2, 48))
    fan = draw(st.sampled_from([2, 2, 3]))
    leaf = draw(st.sampled_from(["empty", "empty", "empty_ext", "bool", "enum1", "empty_nested"]))
    shape = draw(st.sampled_from(["fields", "fields", "arrays", "alias_rows", "mixed"]))
    out = ["proto tower", ""]
    if leaf == "empty":
        out += ["message Level0 {", "}"]
    elif leaf == "empty_ext":
        out += ["message Level0' {", "}"]
    elif leaf == "bool":
        out += ["message Level0 {", "    bool on = 1", "}"]
    elif leaf == "enum1":
        out += ["enum Bit : uint1 {", "    BIT_OFF = 0", "    BIT_ON = 1", "}", "message Level0 {", "    Bit bit = 1", "}"]
    else:
        out += ["message Level0 {", "    message Hollow {", "    }", "    Hollow hollow = 1", "}"]
    for k in range(1, levels + 1):
        prev = f"Level{k - 1}"
        how = shape if shape != "mixed" else ["fields", "arrays", "alias_rows"][(k + levels) % 3]
        if how == "alias_rows":
            out += [f"type Row{k} = {prev}[{fan}]", f"message Level{k} {{", f"    Row{k} rows = 1", "}"]
        elif how == "arrays":
            out += [f"message Level{k} {{", f"    {prev}[{fan}] items = 1", "}"]
        else:
            out += [f"message Level{k} {{"] + [f"    {prev} part_{chr(97 + j)} = {j + 1}" for j in range(fan)] + ["}"]
    return "\n".join(out) + "\n", f"tower:{leaf}+{shape}+levels{'_ge20' if levels >= 20 else '_lt20'}"
