"""C11 helper: schemas WITH shadowing, and an independent name resolver.

The common strategy (`strategies.units`) makes every name globally unique on
purpose.  Here a handful of "hot" names (types: Tiger, Panda, Koala; constants:
SIZE, COUNT) are declared again and again: at file scope, inside messages at
every depth, in imported files, as enums / one-field messages / aliases of
DIFFERENT widths (constants: different values), and sometimes as a *field*
name.  Every reference is then written as some dotted text, and the resolver
below says what that text denotes at that position according to the
documented rule (docs/language.rst "Nested Types", "Import"; property C11):

  * search the enclosing scopes from the innermost outward to the file scope
    for one that declares the FIRST component of the path;
  * only definitions completed textually before the use are visible (a message
    is entered into its parent when its closing brace is reached, so it is not
    visible inside its own body; a field after its statement);
  * the remaining components select members of messages / enums / imported
    files (an import is declared under the file's proto name or its `as` name).

A scope "declares" a name whatever the member's kind; finding a member of the
wrong kind (a field, a constant where a type is needed, ...) is a rejection.
Where the innermost declaring scope lacks the REST of a dotted path the
statement does not say whether the search continues outward: the resolver
computes both readings and reports `excluded` when they differ.

Nothing here looks at bitproto.
"""

from __future__ import annotations

from dataclasses import dataclass, field
from typing import Any, Dict, List, Optional, Sequence, Tuple

from hypothesis import strategies as st

from .model import Alias, Const, Enum, Field, File, Import, Message, TArray, TBase, TRef, Unit, enclosing_messages, file_of, set_parents

HOT_TYPES = ["Tiger", "Panda", "Koala"]
HOT_CONSTS = ["SIZE", "COUNT"]
CONTAINERS = ["Abbey", "Acorn", "Agate", "Amber", "Anvil", "Aspen", "Atlas", "Badge", "Basil", "Birch", "Brick", "Cabin", "Cedar", "Chalk", "Charm", "Cliff", "Cloud", "Coral", "Crane", "Crown"]
FIELD_WORDS = ["alt", "lat", "lon", "yaw", "roll", "pitch", "speed", "power", "level", "count", "flags", "temp"]
PROTOS = ["basis", "common", "shared", "navi", "telem", "ctrl"]
AS_NAMES = ["ba", "cm", "sh", "nv", "tm", "ct"]

# ---------------------------------------------------------------------------
# Resolver
# ---------------------------------------------------------------------------


@dataclass
class EnumMember:
    enum: Enum
    name: str
    value: int


@dataclass
class OptionMember:
    owner: Any
    name: str


def _name_of(it: Any) -> Optional[str]:
    if isinstance(it, Import):
        return it.as_name or it.file.proto
    if isinstance(it, (Const, Alias, Enum, Message, Field)):
        return it.name
    return None


def members(scope: Any, limit: Optional[int] = None) -> Dict[str, Any]:
    """Members a scope has declared by name; limit = only its first `limit` items (the ones
    completed before the position of interest); None = the completed scope."""
    out: Dict[str, Any] = {}
    if isinstance(scope, Import):
        scope = scope.file
    if isinstance(scope, (File, Message)):
        if isinstance(scope, Message) and scope.max_bytes is not None:
            out["max_bytes"] = OptionMember(scope, "max_bytes")  # `option max_bytes` is the first statement of the body
        items = scope.items if limit is None else scope.items[:limit]
        for it in items:
            n = _name_of(it)
            if n is not None and n not in out:
                out[n] = it
    elif isinstance(scope, Enum):
        for n, v in scope.members:
            out.setdefault(n, EnumMember(scope, n, v))
    return out


def is_scope(x: Any) -> bool:
    return isinstance(x, (Import, File, Message, Enum))


@dataclass
class Site:
    """Position of a use: the chain of open scopes [file, m1, .., mk] and, per scope, how
    many of its items are complete at that point."""

    chain: List[Any]
    limits: List[int]


def site_of(owner: Any) -> Site:
    """Site of the type written in `owner` (a Field, or an Alias at file scope)."""
    chain: List[Any] = []
    limits: List[int] = []
    cur = owner
    while not isinstance(cur, File):
        parent = cur.parent
        idx = [k for k, it in enumerate(parent.items) if it is cur]
        assert len(idx) == 1
        chain.insert(0, parent)
        limits.insert(0, idx[0])
        cur = parent
    return Site(chain, limits)


def _follow(node: Any, rest: Sequence[str]) -> Tuple[bool, Any]:
    cur = node
    for comp in rest:
        if not is_scope(cur):
            return False, None
        sub = members(cur)
        if comp not in sub:
            return False, None
        cur = sub[comp]
    return True, cur


def _lookup(site: Site, path: Sequence[str], continue_outward: bool) -> Tuple[str, Any]:
    for j in range(len(site.chain) - 1, -1, -1):
        mem = members(site.chain[j], site.limits[j])
        if path[0] in mem:
            ok, node = _follow(mem[path[0]], path[1:])
            if ok:
                return "found", node
            if not continue_outward:
                return "undefined", None
    return "undefined", None


TYPE_KINDS = (Enum, Message, Alias)


def resolve(site: Site, text: str, want: str) -> Tuple[str, Any]:
    """want: 'type' | 'const'.  Returns (outcome, target): outcome in
    ok | undefined | wrongkind | excluded."""
    path = text.split(".")
    a = _lookup(site, path, continue_outward=False)
    b = _lookup(site, path, continue_outward=True)

    def judge(r: Tuple[str, Any]) -> Tuple[str, Any]:
        if r[0] == "undefined":
            return "undefined", None
        node = r[1]
        if want == "type":
            return ("ok", node) if isinstance(node, TYPE_KINDS) else ("wrongkind", node)
        if isinstance(node, Const) and isinstance(node.value, int) and not isinstance(node.value, bool):
            return "ok", node
        return "wrongkind", node

    ja, jb = judge(a), judge(b)
    if ja[0] == jb[0] and ja[1] is jb[1]:
        return ja
    if {ja[0], jb[0]} <= {"undefined", "wrongkind"}:
        return "undefined", None  # rejected under both readings
    return "excluded", (ja, jb)


# ---------------------------------------------------------------------------
# Case model
# ---------------------------------------------------------------------------


@dataclass
class Use:
    kind: str  # type | cap
    owner: Any  # Field | Alias
    holder: Any  # TRef (type use) | TArray (cap use)
    text: str = ""
    outcome: str = ""  # ok | undefined | wrongkind
    target: Any = None
    ncand: int = 0
    labels: List[str] = field(default_factory=list)
    allowed: List[Tuple[str, Any]] = field(default_factory=list)  # the two readings of a use of the excluded-by-rule class


@dataclass
class Case:
    unit: Unit
    uses: List[Use]
    bad: Optional[Use] = None
    excluded: int = 0  # drawn reference texts that fell under the excluded-by-rule class (replaced)
    excluded_seen: int = 0  # (slot, candidate text) pairs classified as excluded-by-rule (never written)
    ambig: Optional[Use] = None  # ONE use of the excluded-by-rule class that IS written: judged against both readings
    width_of: Dict[int, int] = field(default_factory=dict)


def definition_path(d: Any) -> Tuple[str, Tuple[str, ...]]:
    """(file name, (enclosing message names..., own name))"""
    return file_of(d).filename, tuple([m.name for m in enclosing_messages(d)] + [d.name])


# ---------------------------------------------------------------------------
# Phase 1: structure with slots
# ---------------------------------------------------------------------------


class _Gen:
    def __init__(self, draw: Any):
        self.draw = draw
        self.files: List[File] = []
        self.slots: List[Use] = []
        self.k = 0
        self.wa = draw(st.integers(0, 63))
        self.ws = draw(st.sampled_from([1, 3, 5, 7, 9, 11, 13, 17, 19, 23, 29, 31]))
        self.cont_i = draw(st.integers(0, len(CONTAINERS) - 1))
        self.cont_n = 0
        self.const_n = 0
        self.alias_n = 0
        # unit-level switches: shapes that keep a unit away from generated Python are confined to a share of the units
        self.wrong_kind_names = draw(st.integers(0, 99)) < 35  # fields / nested enums carrying a hot name
        self.foreign_nested = draw(st.integers(0, 99)) < 35  # D7 / N3 shapes may be chosen
        self.same_proto_names = draw(st.integers(0, 99)) < 30  # two files of the unit may declare the same proto name
        self.odd_import_names = draw(st.integers(0, 99)) < 35  # `import Tiger "x.bitproto"`: an import name that nested messages can shadow

    def width(self) -> int:
        self.k += 1
        return 1 + (self.wa + self.k * self.ws) % 64

    def container_name(self) -> str:
        n = self.cont_n
        self.cont_n += 1
        return CONTAINERS[(self.cont_i + n) % len(CONTAINERS)] + ("" if n < len(CONTAINERS) else str(n // len(CONTAINERS)))

    def declared(self, scope: Any) -> set:
        return set(members(scope).keys())

    # -- hot definitions -----------------------------------------------------------

    def hot_enum(self, name: str) -> Enum:
        w = self.width()
        return Enum(name, w, [(f"EV_{self.k}_LO", 0), (f"EV_{self.k}_HI", (1 << w) - 1)])

    def hot_message(self, name: str, parent: Any) -> Message:
        m = Message(name)
        m.parent = parent
        parent.items.append(m)
        if self.draw(st.integers(0, 9)) == 0:
            self.field_slot(m, "v", array=False)  # may name an OUTER definition of its own name: not visible in its own body
        else:
            kind = self.draw(st.sampled_from(["uint", "uint", "int"]))
            f = Field("v", TBase(kind, self.width()), 1)
            f.parent = m
            m.items.append(f)
        # a hot message may itself hold a nested hot enum, so that the same DOTTED path (`Tiger.Panda`)
        # can exist complete at several scopes (docs/language.rst: "local B.Color wins")
        if self.draw(st.integers(0, 1)) == 0:
            free = [n for n in HOT_TYPES if n != name and n not in self.declared(m)]
            if free:
                e = self.hot_enum(free[self.draw(st.integers(0, len(free) - 1))])
                e.parent = m
                m.items.insert(0, e)
        return m

    def hot_def(self, parent: Any, allow_alias: bool) -> bool:
        d = self.draw
        free = [n for n in HOT_TYPES if n not in self.declared(parent)]
        if not free:
            return False
        name = free[d(st.integers(0, len(free) - 1))]
        kind = d(st.sampled_from(["enum", "enum", "message", "alias"] if allow_alias else ["enum", "enum", "message"]))
        if kind == "enum":
            e = self.hot_enum(name)
            e.parent = parent
            parent.items.append(e)
        elif kind == "message":
            self.hot_message(name, parent)
        else:
            a = Alias(name, TBase(d(st.sampled_from(["uint", "int"])), self.width()))
            a.parent = parent
            parent.items.append(a)
        return True

    def hot_const(self, f: File) -> bool:
        free = [n for n in HOT_CONSTS if n not in self.declared(f)]
        if not free:
            return False
        self.const_n += 1
        c = Const(free[self.draw(st.integers(0, len(free) - 1))], self.const_n)  # distinct values: the choice is visible in the capacity
        c.parent = f
        f.items.append(c)
        return True

    # -- slots ---------------------------------------------------------------------

    def make_type(self, owner: Any, array: Optional[bool]) -> Any:
        d = self.draw
        tref = TRef("?", None)
        self.slots.append(Use("type", owner, tref))
        if array is None:
            array = d(st.integers(0, 3)) == 0
        if not array:
            return tref
        arr = TArray(tref, d(st.integers(1, 2)))
        if d(st.integers(0, 2)) == 0:
            self.slots.append(Use("cap", owner, arr))
        return arr

    def field_slot(self, m: Message, name: str, array: Optional[bool] = None, base: bool = False) -> None:
        d = self.draw
        f = Field(name, TBase("bool"), len(m.fields()) + 1)
        f.parent = m
        m.items.append(f)
        if base:
            t: Any = TBase("uint", d(st.integers(1, 16)))
            if d(st.integers(0, 2)) == 0:
                t = TArray(TBase("byte"), 1)
                self.slots.append(Use("cap", f, t))
            f.type = t
        else:
            f.type = self.make_type(f, array)

    def container(self, parent: Any, depth: int) -> Message:
        d = self.draw
        m = Message(self.container_name())
        m.parent = parent
        parent.items.append(m)
        n = d(st.integers(1, 5))
        fw = d(st.integers(0, len(FIELD_WORDS) - 1))
        nf = 0
        for _ in range(n):
            k = d(st.integers(0, 99))
            if k < 28:
                self.hot_def(m, allow_alias=False)
            elif k < 42 and depth < 3:
                self.container(m, depth + 1)
            elif k < 84:
                nf += 1
                self.field_slot(m, FIELD_WORDS[(fw + nf) % len(FIELD_WORDS)])
            elif k < 89 and self.files and [i for i in self.files[-1].items if isinstance(i, Import)]:
                # a FIELD named like an import name of this file: a leaf, not a scope, so `name.T` written after it in this
                # message (or in messages nested in it) still means the imported file's T
                imps = [i.name for i in self.files[-1].items if isinstance(i, Import)]
                free = [x for x in imps if x not in self.declared(m)]
                if free:
                    self.field_slot(m, free[d(st.integers(0, len(free) - 1))], base=True)
            elif k < 91:
                nf += 1
                self.field_slot(m, FIELD_WORDS[(fw + nf) % len(FIELD_WORDS)], base=True)
            elif not self.wrong_kind_names:
                nf += 1
                self.field_slot(m, FIELD_WORDS[(fw + nf) % len(FIELD_WORDS)])
            elif k < 96:
                # a FIELD named like a hot type / constant: hides the outer definitions for what follows in this message
                free = [x for x in HOT_TYPES + HOT_CONSTS if x not in self.declared(m)]
                if free:
                    self.field_slot(m, free[d(st.integers(0, len(free) - 1))], base=True)
            else:
                # a nested enum / message named like a hot CONSTANT (wrong kind for capacities)
                free = [x for x in HOT_CONSTS if x not in self.declared(m)]
                if free:
                    e = self.hot_enum(free[d(st.integers(0, len(free) - 1))])
                    e.parent = m
                    m.items.append(e)
        if not m.fields():
            self.field_slot(m, FIELD_WORDS[fw])
        return m

    def alias_slot(self, f: File) -> None:
        self.alias_n += 1
        a = Alias(f"Arr{self.alias_n}", TBase("bool"))
        a.parent = f
        f.items.append(a)
        a.type = self.make_type(a, True)  # a named type can only be aliased as an array element

    def file(self, fi: int, nfiles: int, protos: List[str], asn: List[str]) -> File:
        d = self.draw
        proto = protos[fi]
        if fi > 0 and self.same_proto_names and d(st.integers(0, 1)) == 0:
            # another FILE declaring the proto name of an earlier one (`shapes.bitproto` / `shapes_v1.bitproto`, both `proto
            # shapes`): an importer can hold both only with an `as` name for one of them
            proto = self.files[d(st.integers(0, fi - 1))].proto
        f = File(proto, protos[fi])
        self.files.append(f)
        pending: List[Import] = []
        if fi > 0:
            for j in range(fi):
                if j == fi - 1 or d(st.booleans()):
                    an: Optional[str] = None
                    r = d(st.integers(0, 9))
                    if r < 4:
                        an = asn[j]
                    elif r in (4, 5, 6) and self.odd_import_names:
                        an = HOT_TYPES[d(st.integers(0, len(HOT_TYPES) - 1))]  # an import named like a hot type
                    imp = Import(self.files[j], an)
                    imp.parent = f
                    pending.append(imp)
        late = d(st.integers(0, 9)) < 3  # imports after the first definitions (legal anywhere at file scope)
        if not late:
            for imp in pending:
                if imp.name not in self.declared(f):
                    f.items.append(imp)
            pending = []
        n = d(st.integers(2, 6))
        for k in range(n):
            if pending and k >= 1:
                for imp in pending:
                    if imp.name not in self.declared(f):
                        f.items.append(imp)
                pending = []
            r = d(st.integers(0, 99))
            if r < 38:
                self.hot_def(f, allow_alias=True)
            elif r < 50:
                self.hot_const(f)
            elif r < 88:
                self.container(f, 1)
            else:
                self.alias_slot(f)
        for imp in pending:
            if imp.name not in self.declared(f):
                f.items.append(imp)
        if not any(isinstance(x, Message) and x.name not in HOT_TYPES for x in f.items):
            self.container(f, 1)
        return f


# ---------------------------------------------------------------------------
# Phase 2: candidate texts and slot filling
# ---------------------------------------------------------------------------


def _defs_with_paths(f: File) -> List[Tuple[Any, List[str]]]:
    out: List[Tuple[Any, List[str]]] = []

    def walk(scope: Any, prefix: List[str]) -> None:
        for it in scope.items:
            if isinstance(it, (Const, Alias, Enum)):
                out.append((it, prefix + [it.name]))
            elif isinstance(it, Field):
                out.append((it, prefix + [it.name]))
            elif isinstance(it, Message):
                out.append((it, prefix + [it.name]))
                walk(it, prefix + [it.name])

    walk(f, [])
    return out


def candidate_texts(f: File) -> List[str]:
    """Every dotted text that names SOME definition reachable from f under some reading: all suffixes of the
    absolute path of every definition of f, the same under every import name (one and two hops), and junk."""
    texts: List[str] = []
    seen: set = set()

    def add(p: Sequence[str]) -> None:
        t = ".".join(p)
        if t not in seen:
            seen.add(t)
            texts.append(t)

    for d, p in _defs_with_paths(f):
        for k in range(len(p)):
            add(p[k:])
    for imp in f.imports():
        for d, p in _defs_with_paths(imp.file):
            add([imp.name] + p)
            if len(p) >= 2:
                add([imp.name] + p[1:])  # skips a component: undefined unless shadowing provides one
        for imp2 in imp.file.imports():
            for d, p in _defs_with_paths(imp2.file):
                add([imp.name, imp2.name] + p)
    for e in [x for x in _defs_with_paths(f) if isinstance(x[0], Enum)][:2]:
        add(e[1] + [e[0].members[0][0]])  # an enum member (wrong kind)
    add(["Nope"])
    add([HOT_TYPES[0], "Nope"])
    for imp in f.imports():
        add([imp.name, "Nope"])
        add([imp.name])  # the import itself (wrong kind)
    return texts


def name_counts(f: File) -> Dict[str, int]:
    """simple name -> number of type / constant definitions of that name reachable from f (own file at any depth,
    imported files at any depth, one and two hops)."""
    cnt: Dict[str, int] = {}
    files = [f] + [i.file for i in f.imports()] + [i2.file for i in f.imports() for i2 in i.file.imports()]
    done: List[File] = []
    for g in files:
        if any(g is x for x in done):
            continue
        done.append(g)
        for d, p in _defs_with_paths(g):
            if isinstance(d, (Enum, Message, Alias, Const)):
                cnt[d.name] = cnt.get(d.name, 0) + 1
    return cnt


def use_labels(u: Use, site: Site) -> List[str]:
    labs = []
    parts = u.text.split(".")
    f = site.chain[0]
    labs.append("path:simple" if len(parts) == 1 else f"path:dotted{len(parts)}")
    imps = {i.name: i for i in f.imports()}
    depth = len(site.chain) - 1
    labs.append(f"site:depth{depth}" if isinstance(u.owner, Field) else "site:alias")
    if isinstance(u.holder, TRef) and isinstance(u.owner, (Field, Alias)) and isinstance(u.owner.type, TArray) and u.owner.type.elem is u.holder:
        labs.append("site:array_element")
    if u.kind == "cap":
        labs.append("use:capacity")
    if u.outcome == "ok":
        tf = file_of(u.target)
        if tf is not f:
            labs.append("target:imported")
            # which import reading was used
            first = None
            for j in range(len(site.chain) - 1, -1, -1):
                mem = members(site.chain[j], site.limits[j])
                if parts[0] in mem:
                    first = mem[parts[0]]
                    break
            if isinstance(first, Import):
                labs.append("import:as" if first.as_name else "import:proto_name")
                if any(i is not first and i.file.proto == first.file.proto for i in f.imports()):
                    labs.append("import:same_proto_name_twice")  # two imported files declare one proto name (one is held under `as`)
                if len(parts) >= 3 and isinstance(members(first).get(parts[1]), Import):
                    labs.append("import:two_hop")
            if enclosing_messages(u.target):
                labs.append("target:nested_in_imported_message")
        else:
            td = len(enclosing_messages(u.target))
            labs.append(f"target:depth{td}")
            # shadowing actually decided: an OUTER scope also declares the first component at this point
            declaring = [j for j in range(len(site.chain)) if parts[0] in members(site.chain[j], site.limits[j])]
            if len(declaring) >= 2:
                labs.append("shadow:inner_wins")
            # a same-named definition appears LATER in an inner scope of the chain (or later in the declaring scope's children)
            for j in range(len(site.chain)):
                later = [it for it in site.chain[j].items[site.limits[j]:] if _name_of(it) == parts[0]]
                if later and (not declaring or j > declaring[-1]):
                    labs.append("shadow:later_inner_definition_ignored")
                    break
        labs.append("kind:" + type(u.target).__name__.lower())
    return labs


def _foreign_shape(f: File, text: str, target: Any) -> bool:
    """D7 / N3: the target lives in another file and is nested in a message there, or is reached through two imports."""
    if not isinstance(target, TYPE_KINDS):
        return False
    tf = file_of(target)
    if tf is f:
        return False
    if enclosing_messages(target):
        return True
    if not any(i.file is tf for i in f.imports()):
        return True
    return text.count(".") >= 2


def _first_component_is_leaf(site: Site, text: str) -> bool:
    """The innermost scope declaring the first component of `text` declares it as a non-scope member (field, constant, alias)."""
    first = text.split(".")[0]
    for j in range(len(site.chain) - 1, -1, -1):
        mem = members(site.chain[j], site.limits[j])
        if first in mem:
            return not is_scope(mem[first])
    return False


def fill_slots(draw: Any, unit: Unit, slots: List[Use], want_bad: bool, foreign_nested: bool = True) -> Case:
    d = draw
    case = Case(unit, [])
    cands: Dict[int, List[str]] = {}
    counts: Dict[int, Dict[str, int]] = {}
    for f in unit.files:
        cands[id(f)] = candidate_texts(f)
        counts[id(f)] = name_counts(f)
    bad_slot = d(st.integers(0, len(slots) - 1)) if (want_bad and slots) else -1
    want_ambig = (not want_bad) and d(st.integers(0, 9)) < 5
    for si, u in enumerate(slots):
        site = site_of(u.owner)
        f = site.chain[0]
        want = "type" if u.kind == "type" else "const"
        classified: Dict[str, List[Tuple[str, Any]]] = {"ok": [], "undefined": [], "wrongkind": [], "excluded": []}
        for t in cands[id(f)]:
            o, tgt = resolve(site, t, want)
            classified[o].append((t, tgt))
        cnt = counts[id(f)]
        case.excluded_seen += len(classified["excluded"])
        ok = classified["ok"]
        if not foreign_nested:
            ok = [x for x in ok if not _foreign_shape(f, x[0], x[1])]
        ok_nt = [x for x in ok if cnt.get(x[0].split(".")[-1], 0) >= 2]
        choice: Optional[Tuple[str, Any]] = None
        outcome = "ok"
        if si == bad_slot:
            pool = classified["undefined"] + classified["wrongkind"]
            if classified["undefined"] and classified["wrongkind"]:
                pool = classified["wrongkind"] if d(st.integers(0, 9)) < 4 else classified["undefined"]
            # prefer texts that would resolve somewhere else / later (the interesting rejections)
            hot = [x for x in pool if x[0].split(".")[0] in cnt or x[0].split(".")[-1] in cnt]
            pool2 = hot if hot and d(st.integers(0, 9)) < 8 else pool
            if pool2:
                choice = pool2[d(st.integers(0, len(pool2) - 1))]
                outcome = resolve(site, choice[0], want)[0]
        if choice is None and want_ambig and case.ambig is None and classified["excluded"] and d(st.integers(0, 9)) < 6:
            # ONE use of the excluded-by-rule class is written after all: whichever reading the compiler takes, the outcome must
            # be the outcome of ONE of the two readings (never a third definition)
            exc = classified["excluded"]
            # prefer texts whose first component is a LEAF (field / constant ...) of an enclosing message
            leafy = [x for x in exc if _first_component_is_leaf(site, x[0])]
            pool_a = leafy if leafy and d(st.integers(0, 9)) < 7 else exc
            t, both = pool_a[d(st.integers(0, len(pool_a) - 1))]
            u.text, u.outcome, u.target = t, "ambiguous", None
            u.allowed = list(both)
            u.ncand = cnt.get(t.split(".")[-1], 0)
            okr = [r for r in both if r[0] == "ok"]
            if u.kind == "type":
                u.holder.text_ = t
                u.holder.target = okr[-1][1] if okr else TBase("uint", 8)
            else:
                u.holder.cap_text = t
                u.holder.cap = okr[-1][1].value if okr else 1
                u.holder.cap_const = okr[-1][1] if okr else None
            u.labels = ["ambig:leaf_first_component" if _first_component_is_leaf(site, t) else "ambig:scope_lacks_rest"]
            case.ambig = u
            continue
        if choice is None and d(st.integers(0, 9)) < 3:
            # free draw over ALL texts: what falls under the excluded class is counted and replaced
            allc = [(t, "ok") for (t, _) in ok] + [(t, "excluded") for (t, _) in classified["excluded"]]
            if allc:
                t, o = allc[d(st.integers(0, len(allc) - 1))]
                if o == "excluded":
                    case.excluded += 1
                else:
                    choice = (t, resolve(site, t, want)[1])
        if choice is None:
            pool3 = ok_nt if ok_nt and d(st.integers(0, 9)) < 8 else ok
            if pool3:
                # prefer dotted / shadow-sensitive texts a little: draw two, keep the longer path half of the time
                c1 = pool3[d(st.integers(0, len(pool3) - 1))]
                c2 = pool3[d(st.integers(0, len(pool3) - 1))]
                choice = c2 if (c2[0].count(".") > c1[0].count(".") and d(st.booleans())) else c1
        if choice is None:
            # nothing nameable here: plain type / literal capacity
            if u.kind == "type":
                u.holder.text_ = f"uint{1 + (si * 7) % 32}"
                u.holder.target = TBase("uint", 1 + (si * 7) % 32)
            continue
        u.text, u.outcome, u.target = choice[0], outcome, choice[1] if outcome == "ok" else None
        u.ncand = cnt.get(u.text.split(".")[-1], 0)
        if u.kind == "type":
            u.holder.text_ = u.text
            u.holder.target = u.target if outcome == "ok" else TBase("uint", 8)
        else:
            u.holder.cap_text = u.text
            u.holder.cap = u.target.value if outcome == "ok" else 1
            u.holder.cap_const = u.target
        u.labels = use_labels(u, site)
        if outcome == "ok":
            case.uses.append(u)
        else:
            case.bad = u
    return case


@st.composite
def cases(draw: Any) -> Case:
    g = _Gen(draw)
    nfiles = draw(st.sampled_from([1, 2, 2, 3, 3]))
    k = draw(st.integers(0, len(PROTOS) - 1))
    protos = [PROTOS[(k + i) % len(PROTOS)] for i in range(nfiles)]
    asn = [AS_NAMES[(k + i) % len(AS_NAMES)] for i in range(nfiles)]
    for fi in range(nfiles):
        g.file(fi, nfiles, protos, asn)
    unit = Unit(g.files)
    set_parents(unit)
    want_bad = draw(st.integers(0, 9)) < 3
    return fill_slots(draw, unit, g.slots, want_bad, g.foreign_nested)


# ---------------------------------------------------------------------------
# Repair of the one bad use (the twin must be a valid schema)
# ---------------------------------------------------------------------------


class Repaired:
    """Context manager: temporarily replaces the bad use by a base type / literal capacity."""

    def __init__(self, u: Use):
        self.u = u
        self.saved: Any = None

    def __enter__(self) -> "Repaired":
        h = self.u.holder
        if self.u.kind == "type":
            self.saved = (h.text_, h.target)
            h.text_, h.target = "uint8", TBase("uint", 8)
        else:
            self.saved = (h.cap_text, h.cap, h.cap_const)
            h.cap_text, h.cap, h.cap_const = None, 1, None
        return self

    def __exit__(self, *a: Any) -> None:
        h = self.u.holder
        if self.u.kind == "type":
            h.text_, h.target = self.saved
        else:
            h.cap_text, h.cap, h.cap_const = self.saved


# ---------------------------------------------------------------------------
# Shapes that must not go through generated Python (recorded C10 findings / name collisions)
# ---------------------------------------------------------------------------


def python_unsafe(case: Case) -> Optional[str]:
    unit = case.unit
    for u in case.uses:
        if u.kind != "type":
            continue
        f = file_of(u.owner)
        tf = file_of(u.target)
        if tf is not f:
            if enclosing_messages(u.target):
                return "D7: type nested in a message of an imported file"
            if not any(i.file is tf for i in f.imports()):
                return "N3: type reached through two imports"
            if u.text.count(".") >= 2:
                return "N3: two-hop import path"
    # aliases of arrays whose element is foreign are expanded in the using module: keep to direct shapes only
    type_names: set = set()
    for f in unit.files:
        for d, p in _defs_with_paths(f):
            if isinstance(d, (Enum, Message, Alias)):
                type_names.add(d.name)
    for f in unit.files:
        import_names = {i.name for i in f.imports()}
        for d, p in _defs_with_paths(f):
            if isinstance(d, Field) and d.name in import_names:
                return "N13: field named like an import name (recorded finding of C10: the Python class body binds the name)"
            if isinstance(d, Field) and (d.name in type_names or d.name in HOT_CONSTS):
                return "field named like a type or constant (generated-name collisions are C10's subject)"
            if isinstance(d, (Enum, Message)) and d.name in HOT_CONSTS:
                return "type named like a constant"
        for i in f.imports():
            if i.name in type_names:
                return "import named like a type"
    return None
