"""Import generated Python in isolation; move value trees in and out through
the documented attribute API only."""

from __future__ import annotations

import importlib
import os
import sys
from typing import Any, Dict, List, Optional

from . import env
from .model import Alias, Enum, Message, TArray, TBase, TRef, resolve
from . import ref

env.pin()


class PyModules:
    """Loads generated modules from one directory under their real names."""

    def __init__(self, directory: str):
        self.directory = os.path.abspath(directory)
        self.loaded: Dict[str, Any] = {}

    def __enter__(self) -> "PyModules":
        sys.path.insert(0, self.directory)
        importlib.invalidate_caches()
        return self

    def load(self, modname: str) -> Any:
        if modname in self.loaded:
            return self.loaded[modname]
        if not modname.isidentifier():
            # `sensor.v2_bp.py`, `my-proto_bp.py`: a file a user can only load by path (never imported by generated code,
            # because a schema that is imported gets an importable name)
            import importlib.util as _ilu

            path = os.path.join(self.directory, modname + ".py")
            safe = "bpverif_bypath_" + "".join(ch if ch.isalnum() else "_" for ch in modname)
            sys.modules.pop(safe, None)
            spec = _ilu.spec_from_file_location(safe, path)
            assert spec is not None and spec.loader is not None, path
            mod = _ilu.module_from_spec(spec)
            sys.modules[safe] = mod
            spec.loader.exec_module(mod)
            self.loaded[modname] = mod
            return mod
        if modname in sys.modules:
            # a stale module of the same name from an earlier case must never be used
            f = getattr(sys.modules[modname], "__file__", "") or ""
            if not f.startswith(self.directory + os.sep):
                del sys.modules[modname]
        mod = importlib.import_module(modname)
        f = getattr(mod, "__file__", "") or ""
        assert f.startswith(self.directory + os.sep), (modname, f)
        self.loaded[modname] = mod
        return mod

    def __exit__(self, *a: Any) -> None:
        self.close()

    def close(self) -> None:
        for name in list(sys.modules):
            f = getattr(sys.modules[name], "__file__", None) or ""
            if f.startswith(self.directory + os.sep):
                del sys.modules[name]
        while self.directory in sys.path:
            sys.path.remove(self.directory)
        self.loaded.clear()
        importlib.invalidate_caches()


def _enum_class(mod: Any, e: Enum) -> Any:
    return getattr(mod_for(mod, e), ref.py_class_name(e), None)


def mod_for(mod: Any, d: Any) -> Any:
    """Module object holding definition d: `mod` may be a dict file-base -> module."""
    if isinstance(mod, dict):
        from .model import file_of

        return mod[file_of(d).base]
    return mod


def set_value(mod: Any, obj: Any, m: Message, v: Dict[str, Any], raw_enums: bool = False) -> None:
    """Assign value tree v to generated message instance obj (documented attribute API)."""
    for f in m.sorted_fields():
        try:
            setattr_typed(mod, obj, f.name, f.type, v[f.name], raw_enums)
        except (AttributeError, IndexError) as e:
            # the value tree follows the schema: an object that cannot take it does not have the declared shape
            from .runner import Violation

            raise Violation(
                f"generated Python object of {m.name} does not have the shape the schema declares at field {f.name}: {type(e).__name__}: {e}",
                {"value": v},
                signature=f"py-shape:{type(e).__name__}",
            )


def _conv_leaf(mod: Any, t: Any, x: Any, raw_enums: bool) -> Any:
    if isinstance(t, Enum):
        if not raw_enums:
            cls = _enum_class(mod, t)
            if cls is not None:
                try:
                    return cls(x)
                except ValueError:
                    return x
        return x
    return x


def setattr_typed(mod: Any, obj: Any, name: str, t: Any, x: Any, raw_enums: bool) -> None:
    rt = resolve(t)
    if isinstance(rt, (TBase, Enum)):
        setattr(obj, name, _conv_leaf(mod, rt, x, raw_enums))
    elif isinstance(rt, Message):
        set_value(mod, getattr(obj, name), rt, x, raw_enums)
    elif isinstance(rt, TArray):
        cur = getattr(obj, name)
        newv = _build_array(mod, cur, rt, x, raw_enums)
        if newv is not cur:
            setattr(obj, name, newv)
    else:
        raise TypeError(rt)


def _build_array(mod: Any, cur: Any, t: TArray, x: List[Any], raw_enums: bool) -> Any:
    et = resolve(t.elem)
    if isinstance(et, TBase) and et.kind == "byte":
        return bytearray(x)
    if isinstance(et, (TBase, Enum)):
        return [_conv_leaf(mod, et, e, raw_enums) for e in x]
    if isinstance(et, Message):
        for k in range(t.cap):
            set_value(mod, cur[k], et, x[k], raw_enums)
        return cur
    if isinstance(et, TArray):
        out = []
        for k in range(t.cap):
            out.append(_build_array(mod, cur[k], et, x[k], raw_enums))
        return out
    raise TypeError(et)


def get_value(obj: Any, m: Message) -> Dict[str, Any]:
    return {f.name: _get(getattr(obj, f.name), f.type) for f in m.sorted_fields()}


def _get(x: Any, t: Any) -> Any:
    rt = resolve(t)
    if isinstance(rt, TBase):
        if rt.kind == "bool":
            return x if isinstance(x, bool) else x
        return int(x)
    if isinstance(rt, Enum):
        return int(x)
    if isinstance(rt, Message):
        return get_value(x, rt)
    if isinstance(rt, TArray):
        return [_get(e, rt.elem) for e in x]
    raise TypeError(rt)


def new_message(mod: Any, m: Message) -> Any:
    """Instantiate the generated class of message m with defaults (documented API).
    A failure here is a failure of the code under test, not of the harness."""
    from .runner import Violation

    name = ref.py_class_name(m)
    try:
        cls = getattr(mod_for(mod, m), name)
    except AttributeError:
        raise Violation(f"generated Python module has no class {name} (documented name of message {m.name})", signature="py-class-missing")
    try:
        return cls()
    except Exception as e:
        raise Violation(f"generated Python class {name}() cannot be instantiated with defaults: {type(e).__name__}: {e}", signature=f"py-instantiate:{type(e).__name__}")
