"""C05: the two permitted extension steps, as rules over the model."""

from __future__ import annotations

import copy
from typing import Any, Dict, List, Optional, Tuple

from hypothesis import strategies as st

from . import ref, scoping, strategies as S
from .model import Alias, Enum, Field, File, Message, TArray, TBase, TRef, Unit, iter_messages, set_parents, unit_messages


def ext_messages(unit: Unit) -> List[Message]:
    return [m for m in unit_messages(unit) if m.ext]


def ext_arrays(unit: Unit) -> List[Tuple[Any, TArray]]:
    out: List[Tuple[Any, TArray]] = []

    def walk(owner: Any, t: Any) -> None:
        if isinstance(t, TArray):
            if t.ext:
                out.append((owner, t))
            walk(owner, t.elem)

    for f in unit.files:
        for it in f.items:
            if isinstance(it, Alias):
                walk(it, it.type)
        for m in iter_messages(f):
            for fl in m.fields():
                walk(fl, fl.type)
    return out


def _fresh_name(unit: Unit, words: List[str], prefix: str = "") -> str:
    used = set()
    for f in unit.files:
        for it in f.items:
            used.add(it.name)
        for m in iter_messages(f):
            for it in m.items:
                used.add(it.name)
            for e in m.nested():
                if isinstance(e, Enum):
                    used.update(n for n, _ in e.members)
        for it in f.items:
            if isinstance(it, Enum):
                used.update(n for n, _ in it.members)
    for k in range(10000):
        w = prefix + words[k % len(words)] + ("" if k < len(words) else str(k // len(words)))
        if w not in used:
            return w
    raise RuntimeError("names exhausted")


def rule_append_field(draw: Any, unit: Unit) -> Optional[str]:
    """Append a field with a larger number to an extensible message anywhere."""
    cands = [m for m in ext_messages(unit) if (max([f.number for f in m.fields()] or [0]) < 255)]
    if not cands:
        return None
    m = draw(st.sampled_from(cands))
    top = max([f.number for f in m.fields()] or [0])
    number = draw(st.one_of(st.just(top + 1), st.integers(top + 1, 255)))
    used = {it.name for it in m.items}
    fname = next(w + sfx for sfx in ("", "_n", "_nn", "_nnn") for w in reversed(S.FIELD_WORDS) if w + sfx not in used)
    kind = draw(st.sampled_from(["base", "base", "array", "ext_array", "new_nested_msg", "new_nested_enum", "ref"]))
    if kind == "base":
        t: Any = _base(draw)
    elif kind in ("array", "ext_array"):
        t = TArray(_base(draw), draw(st.integers(1, 4)), kind == "ext_array")
    elif kind == "new_nested_msg":
        sub = Message(_fresh_name(unit, S.TYPE_WORDS), draw(st.booleans()))
        for k in range(draw(st.integers(1, 3))):
            sub.items.append(Field(S.FIELD_WORDS[k], _base(draw), k + 1))
        m.items.append(sub)
        t = TRef(sub.name, sub)
        if draw(st.booleans()):
            t = TArray(t, draw(st.integers(1, 3)), draw(st.booleans()))
    elif kind == "new_nested_enum":
        bits = draw(st.sampled_from([1, 3, 8, 9, 16]))
        e = Enum(_fresh_name(unit, S.TYPE_WORDS), bits, [(_fresh_name(unit, S.MEMBER_WORDS, "EV_"), 0)])
        if bits > 1:
            e.members.append((_fresh_name(unit, list(reversed(S.MEMBER_WORDS)), "EV_X"), (1 << bits) - 1))
        m.items.append(e)
        t = TRef(e.name, e)
    else:
        # a type that already exists and is visible: decided by retext afterwards
        from .model import file_of

        pool = [x for x in _named_types(unit) if x is not m and not _contains(x, m) and file_of(x) is file_of(m)]
        if not pool:
            t = _base(draw)
        else:
            d = draw(st.sampled_from(pool))
            t = TRef(d.name, d)
            if isinstance(d, Alias) is False and draw(st.integers(0, 3)) == 0:
                t = TArray(t, 2, draw(st.booleans()))
    m.items.append(Field(fname, t, number))
    return f"append_field:{kind}"


def _contains(x: Any, m: Message) -> bool:
    """Does definition x (transitively) contain message m, or is nested inside it?"""
    from .model import walk_types

    if isinstance(x, Message):
        for fl in x.fields():
            for t in walk_types(fl.type):
                if t is m:
                    return True
        for sub in iter_messages(x):
            if sub is m:
                return True
    if isinstance(x, Alias):
        for t in walk_types(x.type):
            if t is m:
                return True
    # m encloses x?
    p = getattr(x, "parent", None)
    while p is not None and not isinstance(p, File):
        if p is m:
            return False
        p = p.parent
    return False


def _named_types(unit: Unit) -> List[Any]:
    out: List[Any] = []
    for f in unit.files:
        for it in f.items:
            if isinstance(it, (Alias, Enum)):
                out.append(it)
        for mm in iter_messages(f):
            out.append(mm)
            for it in mm.nested():
                if isinstance(it, Enum):
                    out.append(it)
    return out


def _base(draw: Any) -> TBase:
    kind = draw(st.sampled_from(["bool", "byte", "uint", "uint", "int"]))
    if kind in ("bool", "byte"):
        return TBase(kind)
    return TBase(kind, draw(st.sampled_from([1, 3, 7, 8, 9, 13, 16, 24, 31, 32, 33, 64])))


def rule_grow_array(draw: Any, unit: Unit) -> Optional[str]:
    cands = [(o, t) for o, t in ext_arrays(unit) if t.cap < 65535 and t.cap_const is None]
    if not cands:
        return None
    owner, t = draw(st.sampled_from(cands))
    grow = draw(st.sampled_from([1, 1, 2, 3, 5, t.cap, 17]))
    t.cap = min(65535, t.cap + grow)
    return "grow_array"


RULES = [rule_append_field, rule_append_field, rule_grow_array]


def evolve(draw: Any, unit: Unit, msgs: List[Message], max_steps: int = 3) -> Tuple[Unit, List[Message], List[str]]:
    """One new version: 1..max_steps permitted steps on a deep copy."""
    unit2, msgs2 = copy.deepcopy((unit, msgs))
    set_parents(unit2)
    applied: List[str] = []
    for _ in range(draw(st.integers(1, max_steps))):
        trial, tm = copy.deepcopy((unit2, msgs2))
        set_parents(trial)
        rule = draw(st.sampled_from(RULES))
        k = rule(draw, trial)
        if k is None:
            continue
        if not scoping.retext(trial) or not scoping.names_unique(trial):
            continue
        if any(ref.nbits(m) > 65535 for m in unit_messages(trial)):
            continue
        unit2, msgs2 = trial, tm
        applied.append(k)
    return unit2, msgs2, applied
