"""Recompute the reference texts of a unit from its structure (documented
scoping: innermost enclosing scope outward, dotted paths into messages and
imports, earlier definitions only).  Returns False if some reference cannot be
written at its position (the unit is then not a valid program)."""

from __future__ import annotations

from typing import Any, Dict, List, Optional, Tuple

from .model import Alias, Const, Enum, Field, File, Import, Message, TArray, TBase, TRef, Unit, set_parents


class _Ctx:
    def __init__(self, f: File, exports: Dict[int, Any]):
        self.file = f
        self.open_chain: List[Message] = []
        self.done: List[Tuple[Any, Tuple[Message, ...]]] = []
        self.consts: List[Const] = []
        self.imports: List[Import] = []
        self.exports = exports  # id(file) -> (types list, consts list)

    def type_text(self, target: Any) -> Optional[str]:
        for d, encl in self.done:
            if d is target:
                common = 0
                while common < len(encl) and common < len(self.open_chain) and encl[common] is self.open_chain[common]:
                    common += 1
                return ".".join([m.name for m in encl[common:]] + [d.name])
        for imp in self.imports:
            types, _ = self.exports[id(imp.file)]
            for d, encl in types:
                if d is target:
                    return ".".join([imp.name] + [m.name for m in encl] + [d.name])
        for imp in self.imports:
            for imp2 in imp.file.imports():
                types, _ = self.exports[id(imp2.file)]
                for d, encl in types:
                    if d is target:
                        return ".".join([imp.name, imp2.name] + [m.name for m in encl] + [d.name])
        return None

    def const_text(self, target: Const) -> Optional[str]:
        for c in self.consts:
            if c is target:
                return c.name
        for imp in self.imports:
            _, consts = self.exports[id(imp.file)]
            for c in consts:
                if c is target:
                    return imp.name + "." + c.name
        return None


def _retext_type(ctx: _Ctx, t: Any) -> bool:
    if isinstance(t, TBase):
        return True
    if isinstance(t, TRef):
        txt = ctx.type_text(t.target)
        if txt is None:
            return False
        t.text_ = txt
        return True
    if isinstance(t, TArray):
        if t.cap_const is not None:
            ct = ctx.const_text(t.cap_const)
            if ct is None:
                return False
            t.cap_text = ct
        return _retext_type(ctx, t.elem)
    raise TypeError(t)


def _retext_message(ctx: _Ctx, m: Message) -> bool:
    ctx.open_chain.append(m)
    try:
        for it in m.items:
            if isinstance(it, Field):
                if not _retext_type(ctx, it.type):
                    return False
            elif isinstance(it, Enum):
                ctx.done.append((it, tuple(ctx.open_chain)))
            elif isinstance(it, Message):
                if not _retext_message(ctx, it):
                    return False
                ctx.done.append((it, tuple(ctx.open_chain)))
    finally:
        ctx.open_chain.pop()
    return True


def retext(unit: Unit) -> bool:
    set_parents(unit)
    exports: Dict[int, Any] = {}
    for f in unit.files:
        ctx = _Ctx(f, exports)
        for it in f.items:
            if isinstance(it, Import):
                if id(it.file) not in exports:
                    return False  # import of a later file
                ctx.imports.append(it)
            elif isinstance(it, Const):
                ctx.consts.append(it)
            elif isinstance(it, Alias):
                if not _retext_type(ctx, it.type):
                    return False
                ctx.done.append((it, ()))
            elif isinstance(it, Enum):
                ctx.done.append((it, ()))
            elif isinstance(it, Message):
                if not _retext_message(ctx, it):
                    return False
                ctx.done.append((it, ()))
        exports[id(f)] = (list(ctx.done), list(ctx.consts))
    return True


def unit_type_names_shadow_free(unit: Unit) -> bool:
    """No scope chain sees two definitions of the same name (then the identity-derived texts
    of retext() are also what the innermost-scope-outward rule resolves)."""
    from .model import iter_messages

    for f in unit.files:
        def chain_ok(m: Message, seen: set) -> bool:
            mine = {it.name for it in m.items}
            if mine & seen:
                return False
            for sub in m.nested():
                if isinstance(sub, Message) and not chain_ok(sub, seen | mine):
                    return False
            return True

        top = {it.name for it in f.items}
        for it in f.items:
            if isinstance(it, Message) and not chain_ok(it, top):
                return False
    return True


def names_unique(unit: Unit) -> bool:
    """Names unique per scope (and type/const names unique per file incl. import names)."""
    for f in unit.files:
        top = [it.name for it in f.items]
        if len(top) != len(set(top)):
            return False
        from .model import iter_messages

        for m in iter_messages(f):
            ns = [it.name for it in m.items]
            if len(ns) != len(set(ns)):
                return False
    return True
