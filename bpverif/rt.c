/* Schema-independent harness: calls the bitproto C runtime entry points
 * directly over enumerated arguments and compares with a bit-by-bit loop
 * written here (C14, C06-b, C07).  Built twice: plain (little-endian paths)
 * and with -DBP_BIG_ENDIAN=1 -DRT_BE=1 (big-endian paths, storage laid out
 * big-endian BY THIS HARNESS).
 *
 * Output: "COUNT <group> <n> <nontrivial>" lines, "BAD <group> ..." lines
 * (at most MAXBAD), and per wire result digests "SUM <group> <fnv>" so the
 * two builds can be compared with each other.
 */
#include <stdio.h>
#include <stdlib.h>
#include <string.h>
#include <stdint.h>
#include "bitproto.h"

typedef unsigned long long u64;
#define MAXBAD 40
static int nbad = 0;
static u64 fnv[16];
static long counts[16], nontriv[16];
static const char *names[16] = {"copybits", "base-enc", "base-dec", "int-dec", "int-enc", "array-enc", "array-dec", "array-int-dec", "bool", "array-batch-enc", "array-batch-dec"};

static void mix(int g, const unsigned char *p, size_t n) {
    u64 h = fnv[g] ? fnv[g] : 1469598103934665603ULL;
    for (size_t i = 0; i < n; i++) { h ^= p[i]; h *= 1099511628211ULL; }
    fnv[g] = h;
}

static int storage_size(int nbits) { return nbits <= 8 ? 1 : nbits <= 16 ? 2 : nbits <= 32 ? 4 : 8; }

/* lay a value out in storage of `size` bytes in the byte order of the build */
static void put_storage(unsigned char *p, int size, u64 v) {
    for (int k = 0; k < size; k++) {
#ifdef RT_BE
        p[size - 1 - k] = (unsigned char)(v >> (8 * k));
#else
        p[k] = (unsigned char)(v >> (8 * k));
#endif
    }
}
static u64 get_storage(const unsigned char *p, int size) {
    u64 v = 0;
    for (int k = 0; k < size; k++) {
#ifdef RT_BE
        v |= (u64)p[size - 1 - k] << (8 * k);
#else
        v |= (u64)p[k] << (8 * k);
#endif
    }
    return v;
}

static void setbit(unsigned char *buf, long pos, int b) { if (b) buf[pos >> 3] |= (unsigned char)(1u << (pos & 7)); else buf[pos >> 3] &= (unsigned char)~(1u << (pos & 7)); }
static int getbit(const unsigned char *buf, long pos) { return (buf[pos >> 3] >> (pos & 7)) & 1; }

static u64 maskn(int n) { return n >= 64 ? ~0ULL : ((1ULL << n) - 1); }

/* basis values of an n-bit field: 0, all ones, every single bit, alternating patterns, all-but-one */
static int basis(int n, u64 *out) {
    int k = 0;
    out[k++] = 0; out[k++] = maskn(n);
    for (int b = 0; b < n; b++) out[k++] = 1ULL << b;
    out[k++] = 0xAAAAAAAAAAAAAAAAULL & maskn(n);
    out[k++] = 0x5555555555555555ULL & maskn(n);
    if (n > 1) { out[k++] = maskn(n) >> 1; out[k++] = maskn(n) & ~1ULL; out[k++] = 1ULL << (n - 1) | 1; }
    return k;
}

static void bad(const char *g, const char *fmt, ...) {
    if (nbad++ >= MAXBAD) return;
    va_list va; va_start(va, fmt);
    printf("BAD %s ", g); vprintf(fmt, va); printf("\n");
    va_end(va);
}

/* ---- BpCopyBufferBits over n x di x si ---- */
static void test_copybits(void) {
    enum { G = 0 };
    unsigned char src[32], dst[32], exp[32], pre[32];
    u64 seedv = 0x9E3779B97F4A7C15ULL;
    for (int n = 1; n <= 96; n++) for (int di = 0; di < 8; di++) for (int si = 0; si < 8; si++) for (int pat = 0; pat < 4; pat++) {
        /* deterministic patterns (a fixed LCG sequence is part of the enumeration, not a random choice) */
        for (int i = 0; i < 32; i++) { seedv = seedv * 6364136223846793005ULL + 1442695040888963407ULL; src[i] = pat == 0 ? 0xff : pat == 1 ? 0x00 : (unsigned char)(seedv >> 56); }
        size_t dlen = (size_t)((di + n + 7) / 8), slen = (size_t)((si + n + 7) / 8);
        /* exactly sized heap copies so an over-read/over-write is visible to ASan and the canary */
        unsigned char *d = (unsigned char *)malloc(dlen + 1), *s = (unsigned char *)malloc(slen);
        memcpy(s, src, slen);
        memset(d, 0, dlen); d[dlen] = 0xA5;
        /* bits below di hold earlier data and must be preserved */
        for (int b = 0; b < di; b++) setbit(d, b, (src[31] >> b) & 1);
        memcpy(pre, d, dlen);
        memset(exp, 0, sizeof exp); memcpy(exp, pre, dlen);
        for (int b = 0; b < n; b++) setbit(exp, di + b, getbit(s, si + b));
        BpCopyBufferBits(n, d, s, di, si);
        counts[G]++; if (n > 8 || di || si) nontriv[G]++;
        if (memcmp(d, exp, dlen) != 0 || d[dlen] != 0xA5) bad(names[G], "n=%d di=%d si=%d pat=%d", n, di, si, pat);
        mix(G, d, dlen);
        free(d); free(s);
    }
}

/* ---- BpEndecodeBaseType: every width x offset x basis value ---- */
static void test_base(void) {
    u64 vals[80];
    for (int nbits = 1; nbits <= 64; nbits++) for (int off = 0; off < 8; off++) {
        int size = storage_size(nbits);
        int nv = basis(nbits, vals);
        for (int vi = 0; vi < nv; vi++) for (int noise = 0; noise < 2; noise++) {
            u64 v = vals[vi];
            size_t blen = (size_t)((off + nbits + 7) / 8);
            unsigned char *buf = (unsigned char *)malloc(blen + 1); buf[blen] = 0xA5;
            unsigned char exp[16];
            /* encode: bits below `off` hold earlier fields (noise), the rest is zero */
            memset(buf, 0, blen);
            for (int b = 0; b < off; b++) setbit(buf, b, noise);
            memset(exp, 0, sizeof exp); memcpy(exp, buf, blen);
            for (int b = 0; b < nbits; b++) setbit(exp, off + b, (int)((v >> b) & 1));
            unsigned char *store = (unsigned char *)malloc((size_t)size);
            put_storage(store, size, v);
            struct BpProcessorContext ctx = BpProcessorContext(true, buf); ctx.i = off;
            BpEndecodeBaseType(nbits, &ctx, store);
            counts[1]++; if (nbits > 8 || off) nontriv[1]++;
            if (memcmp(buf, exp, blen) != 0 || buf[blen] != 0xA5 || ctx.i != off + nbits) bad(names[1], "nbits=%d off=%d v=%llx noise=%d i=%d", nbits, off, v, noise, ctx.i);
            mix(1, buf, blen);
            /* decode: wire holds the field, surrounded by noise bits that belong to neighbours */
            memset(buf, noise ? 0xff : 0, blen);
            for (int b = 0; b < nbits; b++) setbit(buf, off + b, (int)((v >> b) & 1));
            unsigned char keep[16]; memcpy(keep, buf, blen);
            memset(store, 0, (size_t)size);
            struct BpProcessorContext dctx = BpProcessorContext(false, buf); dctx.i = off;
            BpEndecodeBaseType(nbits, &dctx, store);
            counts[2]++; if (nbits > 8 || off) nontriv[2]++;
            u64 got = get_storage(store, size);
            if (got != v || dctx.i != off + nbits || memcmp(keep, buf, blen) != 0 || buf[blen] != 0xA5) bad(names[2], "nbits=%d off=%d v=%llx got=%llx noise=%d", nbits, off, v, got, noise);
            free(store); free(buf);
        }
    }
}

/* ---- BpEndecodeInt: sign extension; on the big-endian build only the standard widths can be simulated ---- */
static void test_int(void) {
    u64 vals[80];
    for (int nbits = 1; nbits <= 64; nbits++) for (int off = 0; off < 8; off++) {
#ifdef RT_BE
        if (!(nbits == 8 || nbits == 16 || nbits == 32 || nbits == 64)) continue;
#endif
        int size = storage_size(nbits);
        int nv = basis(nbits, vals);
        for (int vi = 0; vi < nv; vi++) {
            u64 v = vals[vi]; /* the n-bit two's complement pattern */
            u64 want = v;     /* sign extended to the storage width */
            if ((v >> (nbits - 1)) & 1) want = v | ~maskn(nbits);
            want &= maskn(size * 8);
            size_t blen = (size_t)((off + nbits + 7) / 8);
            unsigned char *buf = (unsigned char *)malloc(blen + 1); buf[blen] = 0xA5;
            memset(buf, 0xff, blen);
            for (int b = 0; b < nbits; b++) setbit(buf, off + b, (int)((v >> b) & 1));
            unsigned char *store = (unsigned char *)calloc(1, (size_t)size);
            struct BpProcessorContext dctx = BpProcessorContext(false, buf); dctx.i = off;
            BpEndecodeInt(size, nbits, &dctx, store);
            counts[3]++; if ((v >> (nbits - 1)) & 1) nontriv[3]++;
            u64 got = get_storage(store, size);
            if (got != want || dctx.i != off + nbits) bad(names[3], "int%d off=%d pattern=%llx got=%llx want=%llx", nbits, off, v, got, want);
            /* encode of the sign-extended storage gives back exactly the n-bit pattern */
            unsigned char exp[16]; memset(buf, 0, blen); memset(exp, 0, sizeof exp);
            for (int b = 0; b < nbits; b++) setbit(exp, off + b, (int)((v >> b) & 1));
            put_storage(store, size, want);
            struct BpProcessorContext ectx = BpProcessorContext(true, buf); ectx.i = off;
            BpEndecodeInt(size, nbits, &ectx, store);
            counts[4]++; if ((v >> (nbits - 1)) & 1) nontriv[4]++;
            if (memcmp(buf, exp, blen) != 0 || buf[blen] != 0xA5) bad(names[4], "int%d off=%d pattern=%llx", nbits, off, v);
            mix(4, buf, blen);
            free(store); free(buf);
        }
    }
}

static void noop_processor(void *data, struct BpProcessorContext *ctx) { (void)data; (void)ctx; }

/* ---- BpEndecodeArray: element width x capacity x offset, unsigned + signed, incl. the batch-copy widths ---- */
static void test_array(void) {
    u64 vals[80];
    static const int caps[] = {1, 2, 3, 4, 5, 6, 7, 8, 9, 12, 16, 17, 33};
    for (int nbits = 1; nbits <= 64; nbits++) for (int ci = 0; ci < (int)(sizeof caps / sizeof caps[0]); ci++) for (int off = 0; off < 8; off++) for (int sg = 0; sg < 2; sg++) {
        int cap = caps[ci];
#ifdef RT_BE
        if (sg && !(nbits == 8 || nbits == 16 || nbits == 32 || nbits == 64)) continue;
#endif
        int size = storage_size(nbits);
        int nv = basis(nbits, vals);
        int batch = (nbits == 8 || nbits == 16 || nbits == 32 || nbits == 64);
        for (int vi = 0; vi < nv; vi++) {
            size_t blen = (size_t)((off + nbits * cap + 7) / 8);
            unsigned char *buf = (unsigned char *)malloc(blen + 1); buf[blen] = 0xA5; memset(buf, 0, blen);
            unsigned char *exp = (unsigned char *)calloc(1, blen + 1);
            unsigned char *store = (unsigned char *)calloc((size_t)cap, (size_t)size);
            u64 elems[40];
            for (int e = 0; e < cap; e++) {
                /* element e holds basis value (vi+e) so neighbours differ */
                u64 v = vals[(vi + e) % nv];
                elems[e] = v;
                u64 sv = v;
                if (sg && ((v >> (nbits - 1)) & 1)) sv = (v | ~maskn(nbits)) & maskn(size * 8);
                put_storage(store + e * size, size, sv);
                for (int b = 0; b < nbits; b++) setbit(exp, off + e * nbits + b, (int)((v >> b) & 1));
            }
            struct BpArrayDescriptor d = BpArrayDescriptor(false, cap, sg ? BpInt(nbits, size) : BpUint(nbits, size));
            struct BpProcessorContext ctx = BpProcessorContext(true, buf); ctx.i = off;
            BpEndecodeArray(&d, &ctx, store);
            int g = batch ? 9 : 5;
            counts[g]++; if (cap > 1) nontriv[g]++;
            if (memcmp(buf, exp, blen) != 0 || buf[blen] != 0xA5 || ctx.i != off + nbits * cap) bad(names[g], "nbits=%d cap=%d off=%d signed=%d vi=%d", nbits, cap, off, sg, vi);
            mix(g, buf, blen);
            /* decode */
            memset(store, 0, (size_t)cap * (size_t)size);
            memset(buf, 0xff, blen);
            for (long b = 0; b < (long)nbits * cap; b++) setbit(buf, off + b, getbit(exp, off + b));
            struct BpProcessorContext dctx = BpProcessorContext(false, buf); dctx.i = off;
            BpEndecodeArray(&d, &dctx, store);
            g = sg ? 7 : (batch ? 10 : 6);
            counts[g]++; if (cap > 1) nontriv[g]++;
            for (int e = 0; e < cap; e++) {
                u64 want = elems[e];
                if (sg && ((want >> (nbits - 1)) & 1)) want = (want | ~maskn(nbits)) & maskn(size * 8);
                u64 got = get_storage(store + e * size, size);
                if (got != want) { bad(names[g], "nbits=%d cap=%d off=%d signed=%d elem=%d got=%llx want=%llx", nbits, cap, off, sg, e, got, want); break; }
            }
            if (dctx.i != off + nbits * cap || buf[blen] != 0xA5) bad(names[g], "nbits=%d cap=%d off=%d cursor/canary", nbits, cap, off);
            free(store); free(exp); free(buf);
        }
    }
    (void)noop_processor;
}

/* ---- bool: storage is sizeof(bool) ---- */
static void test_bool(void) {
    for (int off = 0; off < 8; off++) for (int v = 0; v < 2; v++) {
        unsigned char buf[2] = {0, 0}; bool b = v ? true : false;
        struct BpProcessorContext ctx = BpProcessorContext(true, buf); ctx.i = off;
        BpEndecodeBaseType(1, &ctx, &b);
        counts[8]++; nontriv[8] += off != 0;
        if (buf[0] != (unsigned char)(v << off) || buf[1] != 0) bad(names[8], "enc off=%d v=%d", off, v);
        bool r = false; unsigned char w[2] = {(unsigned char)(v ? 0xff : (unsigned char)~(1u << off)), 0xff};
        struct BpProcessorContext dctx = BpProcessorContext(false, w); dctx.i = off;
        BpEndecodeBaseType(1, &dctx, &r);
        counts[8]++;
        if ((r ? 1 : 0) != v) bad(names[8], "dec off=%d v=%d", off, v);
    }
}

int main(void) {
    test_copybits(); test_base(); test_int(); test_array(); test_bool();
    for (int g = 0; g < 11; g++) printf("COUNT %s %ld %ld\n", names[g], counts[g], nontriv[g]);
    for (int g = 0; g < 11; g++) if (fnv[g]) printf("SUM %s %llx\n", names[g], fnv[g]);
    printf("DONE %d\n", nbad);
    return 0;
}
