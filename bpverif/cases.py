"""Schema × values cases shared by the encoding checks."""

from __future__ import annotations

import hashlib
from dataclasses import dataclass, field
from typing import Any, Dict, List, Optional, Tuple

from hypothesis import strategies as st

from . import ref, render_bp, strategies as S
from .model import Message, Unit, unit_messages


@dataclass
class SVCase:
    unit: Unit
    rand: Dict[int, List[Any]]  # message index (unit_messages order) -> random value trees
    style: Optional[render_bp.Style] = None
    config: Dict[str, Any] = field(default_factory=dict)


@st.composite
def sv_cases(draw: Any, feat: Optional[S.Features] = None, nrand: int = 2, max_leaves_for_values: int = 4000, config: Optional[st.SearchStrategy] = None) -> SVCase:
    from dataclasses import replace

    feat = feat or S.Features()
    if feat.big:
        feat = replace(feat, extremes=True, keyword_field_names=True)
    unit = draw(S.units(feat))
    # a satisfied `option max_bytes` must change nothing (C08/C13 own its acceptance boundary)
    for m in unit_messages(unit):
        if m.max_bytes is None and ref.nbits(m) > 0 and draw(st.integers(0, 9)) == 0:
            m.max_bytes = ref.nbytes(m) + draw(st.sampled_from([0, 0, 1, 7]))
    # so must the deprecated `typedef T Name` spelling of an alias (it only prints a deprecation note)
    from .model import Alias

    for f in unit.files:
        for it in f.items:
            if isinstance(it, Alias) and draw(st.integers(0, 5)) == 0:
                it.typedef_syntax = True
    rand: Dict[int, List[Any]] = {}
    for i, m in enumerate(unit_messages(unit)):
        if ref.has_empty_enum(m):
            continue
        if len(ref.leaves(m)) > max_leaves_for_values:
            k = 1
        else:
            k = nrand
        rand[i] = [draw(S.values(m)) for _ in range(k)]
    cfg = draw(config) if config is not None else {}
    style = None
    if draw(st.integers(0, 3)) == 0:
        # the way a schema is written must not matter: vary it (the source map / lint checks own the conforming style)
        style = render_bp.Style(
            indent=draw(st.sampled_from([4, 2, 8, 0])),
            semicolons=draw(st.sampled_from(["none", "all", "mixed"])),
            comments=draw(st.booleans()),
            blank_lines=draw(st.integers(0, 2)),
            hex_numbers=draw(st.booleans()),
            seed=draw(st.integers(0, 999)),
            trailing_newline=draw(st.booleans()),
        )
    return SVCase(unit, rand, style, cfg)


def vectors(case: SVCase, index: int, m: Message, basis_limit_bits: int = 512) -> List[Tuple[str, Any]]:
    out = list(S.basis_values(m, basis_limit_bits))
    for k, v in enumerate(case.rand.get(index, [])):
        out.append((f"rand{k}", v))
    return out


def unit_digest(texts: Dict[str, str]) -> str:
    h = hashlib.sha256()
    for k in sorted(texts):
        h.update(k.encode())
        h.update(b"\0")
        h.update(texts[k].encode("utf-8", "replace"))
        h.update(b"\0")
    return h.hexdigest()[:16]


def describe(case: SVCase) -> Dict[str, Any]:
    texts = render_bp.render_unit(case.unit, case.style)
    msgs = unit_messages(case.unit)
    return {
        "files": texts,
        "random_values": {msgs[i].name: vs for i, vs in case.rand.items()},
        "config": case.config,
    }
