"""Schema × values cases shared by the encoding checks."""

from __future__ import annotations

import hashlib
from dataclasses import dataclass, field
from typing import Any, Dict, List, Optional, Tuple

from hypothesis import strategies as st

from . import ref, render_bp, strategies as S
from .model import Message, Unit, unit_messages


@dataclass
class SVCase:
    unit: Unit
    rand: Dict[int, List[Any]]  # message index (unit_messages order) -> random value trees
    style: Optional[render_bp.Style] = None
    config: Dict[str, Any] = field(default_factory=dict)


def _clash_const_and_enum_member(draw: Any, unit: Any) -> None:
    """Only for checks that execute generated PYTHON alone: a member of a top-level enum gets the name of an integer constant of
    the same file (different scopes of the schema, so both are legal and a capacity written `SLOTS` still means the constant; in
    generated Python both become module-level names, the later one rebinding the earlier - harmless as long as nothing generated
    looks a value up by such a name at run time)."""
    from .model import Const, Enum

    for f in unit.files:
        consts = [it for it in f.items if isinstance(it, Const) and isinstance(it.value, int) and not isinstance(it.value, bool)]
        enums = [it for it in f.items if isinstance(it, Enum) and it.members]
        if not consts or not enums:
            continue
        c = consts[draw(st.integers(0, len(consts) - 1))]
        e = enums[draw(st.integers(0, len(enums) - 1))]
        k = draw(st.integers(0, len(e.members) - 1))
        if any(n == c.name for n, _ in e.members):
            continue
        e.members[k] = (c.name, e.members[k][1])


@st.composite
def sv_cases(draw: Any, feat: Optional[S.Features] = None, nrand: int = 2, max_leaves_for_values: int = 4000, config: Optional[st.SearchStrategy] = None, python_only: bool = False) -> SVCase:
    from dataclasses import replace

    feat = feat or S.Features()
    if feat.big:
        feat = replace(feat, extremes=True, keyword_field_names=True, subdirs=True, odd_file_names=True, long_names=True)
    unit = draw(S.units(feat))
    if feat.style_names and draw(st.integers(0, 4)) == 3:
        S.generated_like_names(draw, unit)  # fields called bp_..., encode_..., size_..., json_...
    if python_only and draw(st.integers(0, 3)) == 0:
        _clash_const_and_enum_member(draw, unit)
    # a satisfied `option max_bytes` must change nothing (C08/C13 own its acceptance boundary)
    for m in unit_messages(unit):
        if m.max_bytes is None and ref.nbits(m) > 0 and draw(st.integers(0, 9)) == 0:
            m.max_bytes = ref.nbytes(m) + draw(st.sampled_from([0, 0, 1, 7]))
    # so must the deprecated `typedef T Name` spelling of an alias (it only prints a deprecation note)
    from .model import Alias

    for f in unit.files:
        for it in f.items:
            if isinstance(it, Alias) and draw(st.integers(0, 5)) == 0:
                it.typedef_syntax = True
    rand: Dict[int, List[Any]] = {}
    for i, m in enumerate(unit_messages(unit)):
        if ref.has_empty_enum(m):
            continue
        if len(ref.leaves(m)) > max_leaves_for_values:
            k = 1
        else:
            k = nrand
        rand[i] = [draw(S.values(m)) for _ in range(k)]
    cfg = draw(config) if config is not None else {}
    style = None
    if draw(st.integers(0, 3)) == 0:
        # the way a schema is written must not matter: vary it (the source map / lint checks own the conforming style)
        style = render_bp.Style(
            indent=draw(st.sampled_from([4, 2, 8, 0])),
            semicolons=draw(st.sampled_from(["none", "all", "mixed"])),
            comments=draw(st.booleans()),
            blank_lines=draw(st.integers(0, 2)),
            hex_numbers=draw(st.booleans()),
            seed=draw(st.integers(0, 999)),
            trailing_newline=draw(st.booleans()),
            spicy_comments=draw(st.booleans()),
            trailing_comments=draw(st.booleans()),
            join_statements=draw(st.booleans()),
            proto_late=draw(st.integers(0, 3)) == 2,
            crlf=draw(st.integers(0, 3)) == 1,
            op_spacing=draw(st.booleans()),
        )
    return SVCase(unit, rand, style, cfg)


def vectors(case: SVCase, index: int, m: Message, basis_limit_bits: int = 512) -> List[Tuple[str, Any]]:
    out = list(S.basis_values(m, basis_limit_bits))
    for k, v in enumerate(case.rand.get(index, [])):
        out.append((f"rand{k}", v))
    return out


def unit_digest(texts: Dict[str, str]) -> str:
    h = hashlib.sha256()
    for k in sorted(texts):
        h.update(k.encode())
        h.update(b"\0")
        h.update(texts[k].encode("utf-8", "replace"))
        h.update(b"\0")
    return h.hexdigest()[:16]


def describe(case: SVCase) -> Dict[str, Any]:
    texts = render_bp.render_unit(case.unit, case.style)
    msgs = unit_messages(case.unit)
    return {
        "files": texts,
        "random_values": {msgs[i].name: vs for i, vs in case.rand.items()},
        "config": case.config,
    }


@st.composite
def stride_cases(draw: Any, config: Optional[st.SearchStrategy] = None) -> SVCase:
    """In-memory sizes at the 64 KiB line.  The wire limits (65535 bits per message, capacity 65535) keep
    ordinary C structs below 65536 bytes, but the documented `c.struct_packing_alignment` option pads every
    struct to 4 or 8 bytes, so an array of tiny messages can occupy >= 65536 bytes while staying small on the
    wire; that struct is then used as a plain field, as an array element (directly or through an alias), and
    is followed by a tail field whose position depends on every stride before it."""
    from .model import Alias, Field, File, Message, TArray, TBase, TRef, Unit, set_parents

    align = draw(st.sampled_from([8, 8, 8, 4, 4, 4, 4, 0]))
    outer = draw(st.integers(2, 3))
    px = Message("Pixel", False)
    if align:
        # the element count that reaches 64 KiB decides how many wire bits one element may have
        want = 65536 // align + draw(st.sampled_from([0, 1, -1, 0, 37]))
        maxbits = max(1, (65535 - 16 - 13 - 7) // outer // want)
    else:
        want = 0
        maxbits = draw(st.integers(1, 6))
    left = maxbits
    for k in range(3):
        if left <= 0 or (k > 0 and draw(st.booleans())):
            break
        bits = draw(st.integers(1, min(left, 3)))
        kind = draw(st.sampled_from(["bool", "uint", "int"])) if bits == 1 else draw(st.sampled_from(["uint", "int"]))
        px.items.append(Field(["on", "hue", "lum"][k], TBase("bool") if kind == "bool" else TBase(kind, bits), k + 1))
        left -= bits
    nf = len(px.fields())
    px_bits = ref.nbits(px)
    px_size = nf if not align else (nf + align - 1) // align * align
    room = (65535 - 16 - 13 - 7) // outer // px_bits
    n = max(2, min(want or room, room))
    fr = Message("Frame", False)
    if draw(st.booleans()):
        fr.items.append(Field("seq", TBase("uint", draw(st.integers(1, 7))), 1))
    fr.items.append(Field("px", TArray(TRef("Pixel", px), n), 2))
    top = Message("Scene", False)
    f = File("scene", "scene")
    f.items += [px, fr]
    via_alias = draw(st.booleans())
    if via_alias:
        al = Alias("Strip", TArray(TRef("Frame", fr), outer))
        f.items.append(al)
        top.items.append(Field("frames", TRef("Strip", al), 1))
    else:
        top.items.append(Field("frames", TArray(TRef("Frame", fr), outer), 1))
    top.items.append(Field("tail", TBase("uint", draw(st.integers(1, 13))), 2))
    f.items.append(top)
    unit = Unit([f])
    set_parents(unit)
    cfg = draw(config) if config is not None else {}
    stride = n * px_size + (1 if len(fr.fields()) > 1 else 0)
    if align:
        stride = (stride + align - 1) // align * align
    cfg = dict(cfg, align=align, stride_bytes=stride)
    msgs = unit_messages(unit)
    rand = {i: [draw(S.values(m))] for i, m in enumerate(msgs)}
    return SVCase(unit, rand, None, cfg)
