#!/venv/bin/python
"""atheris (libFuzzer) target: raw bytes -> UTF-8 text -> bitproto parse/lint/render.

The fast loop reuses one Parser (a fresh Parser() rebuilds ply's tables, ~27 ms);
every artifact is later confirmed through the real entry point by the check.
Known-finding buckets and by-construction exclusions are counted and skipped so
the campaign continues behind them."""
import atexit
import os
import sys

import atheris

WORK = os.environ.get("BPVERIF_FUZZ_WORK", "/tmp")
SANDBOX = os.path.join(WORK, "sandbox")
OUT = os.path.join(WORK, "out")
os.makedirs(SANDBOX, exist_ok=True)
os.makedirs(OUT, exist_ok=True)

with atheris.instrument_imports(include=["bitproto"]):
    import bitproto.parser as bp_parser
    import bitproto.linter as bp_linter
    import bitproto.renderer as bp_renderer
    import bitproto.errors as bp_errors

from ply import lex  # noqa: E402

from bpverif import env, textmut  # noqa: E402

assert bp_parser.__file__.startswith(env.COMPILER_DIR + os.sep), bp_parser.__file__
ROOT = os.path.join(env.COMPILER_DIR, "bitproto") + os.sep

for name, text in textmut.SANDBOX_FILES.items():
    with open(os.path.join(SANDBOX, name), "w") as f:
        f.write(text)
INPUT = os.path.join(SANDBOX, "in.bitproto")

counters = {}


def bump(k):
    counters[k] = counters.get(k, 0) + 1


def dump():
    with open(os.path.join(WORK, "counters.txt"), "w") as f:
        for k, v in sorted(counters.items()):
            f.write(f"{k} {v}\n")


class _Null:
    def write(self, s):
        return len(s)

    def flush(self):
        pass


_parsers = {}


def fast_parse(text, traditional):
    p = _parsers.get(traditional)
    if p is None:
        p = _parsers[traditional] = bp_parser.Parser(traditional_mode=traditional)
    # reset every piece of per-parse state a fresh Parser would start with
    p.scope_stack[:] = []
    p.filepath_stack[:] = []
    p.lexer.filepath_stack[:] = []
    p.comment_block = []
    p.scope_stack_init_length = 0
    p.last_newline_pos = 0
    p.lexer.lexer.lineno = 1
    lex.lexer = p.lexer.lexer
    with open(INPUT, "w", encoding="utf-8", newline="") as f:
        f.write(text)
    return p.parse_string(text, filepath=INPUT)


n = [0]


def TestOneInput(data):
    n[0] += 1
    if n[0] % 2000 == 0:
        dump()
    try:
        text = data.decode("utf-8")
    except UnicodeDecodeError:
        bump("excluded:not UTF-8 text")
        return
    why = textmut.skip_reason(text)
    if why:
        bump("excluded:" + why)
        return
    old_err = sys.stderr
    sys.stderr = _Null()
    try:
        try:
            proto = fast_parse(text, False)
        except bp_errors.ParserError as e:
            bump("rejected:lexer" if isinstance(e, bp_errors.LexerError) else "rejected:grammar")
            return
        except OSError:
            bump("rejected:oserror")
            return
        except Exception as e:
            bucket, fid = textmut.classify(e, text, "parse", ROOT)
            if fid:
                bump("known:" + fid)
                return
            raise
        bump("accepted")
        try:
            bp_linter.lint(proto)
        except Exception as e:
            bucket, fid = textmut.classify(e, text, "lint", ROOT)
            if fid:
                bump("known:" + fid)
            else:
                raise
        for lang in ("c", "go", "py"):
            try:
                bp_renderer.render(proto, lang, outdir=OUT)
                bump("rendered")
            except bp_errors.RendererError:
                bump("render-refused")
            except Exception as e:
                bucket, fid = textmut.classify(e, text, "render:" + lang, ROOT)
                if fid:
                    bump("known:" + fid)
                else:
                    raise
    finally:
        sys.stderr = old_err


def main():
    atexit.register(dump)
    atheris.Setup(sys.argv, TestOneInput)
    try:
        atheris.Fuzz()
    finally:
        dump()


if __name__ == "__main__":
    main()
