"""Generate a C driver per unit (from the model, not from bitproto's output),
build it against the generated C and <repo>/lib/c, and run batches of
operations in a separate process behind guard pages."""

from __future__ import annotations

import hashlib
import os
import subprocess
from typing import Any, Dict, List, Optional, Sequence, Tuple

from . import env, ref
from .model import Enum, File, Message, TArray, TBase, Unit, file_of, resolve, unit_messages


class CBuildError(Exception):
    def __init__(self, what: str, output: str):
        super().__init__(what + "\n" + output[-4000:])
        self.what = what
        self.output = output


class CToolchainError(Exception):
    """The toolchain itself is unusable (harness error, never a violation)."""


# ---------------------------------------------------------------------------
# Names (documented scheme, C15)
# ---------------------------------------------------------------------------


def c_prefix(f: File) -> str:
    return f.option("c.name_prefix", "") or ""


def struct_name(m: Message) -> str:
    return ref.c_type_name(m, c_prefix(file_of(m)))


def size_macro(m: Message) -> str:
    return "BYTES_LENGTH_" + ref.upper_snake(struct_name(m))


# ---------------------------------------------------------------------------
# Driver generation
# ---------------------------------------------------------------------------

DRIVER_PRELUDE = r"""
#include <stdio.h>
#include <stdlib.h>
#include <string.h>
#include <stdint.h>
#include <stddef.h>
#include <sys/mman.h>
#include <unistd.h>

#define CANARY 0xA5
typedef unsigned long long u64;

static long pagesz;
static unsigned char *arena;      /* [guard][data ...][guard] */
static size_t arena_data;

static void arena_init(size_t need) {
    pagesz = sysconf(_SC_PAGESIZE);
    arena_data = ((need + pagesz - 1) / pagesz + 1) * pagesz;
    arena = (unsigned char *)mmap(NULL, arena_data + 2 * pagesz, PROT_READ | PROT_WRITE, MAP_PRIVATE | MAP_ANONYMOUS, -1, 0);
    if (arena == MAP_FAILED) { perror("mmap"); exit(3); }
    if (mprotect(arena, pagesz, PROT_NONE) || mprotect(arena + pagesz + arena_data, pagesz, PROT_NONE)) { perror("mprotect"); exit(3); }
}

/* A fenced object of n bytes: placement 0 = flush against the following guard
 * page (overrun / over-read traps), 1 = directly after the preceding guard page
 * (underrun traps).  The slack of the region is filled with a canary. */
struct fence { unsigned char *base; size_t len; unsigned char *obj; size_t n; };

static struct fence fence_make(unsigned char *region, size_t region_len, size_t n, int placement, size_t align) {
    struct fence f; f.base = region; f.len = region_len; f.n = n;
    memset(region, CANARY, region_len);
    if (placement == 0) {
        f.obj = region + region_len - n;
        if (align > 1) f.obj -= ((uintptr_t)f.obj) % align;   /* keep natural alignment for structs */
    } else f.obj = region;
    memset(f.obj, 0, n);
    return f;
}
static long fence_check(struct fence *f) {
    for (unsigned char *p = f->base; p < f->base + f->len; p++) {
        if (p >= f->obj && p < f->obj + f->n) continue;
        if (*p != CANARY) return (long)(p - f->obj);
    }
    return 0x7fffffff;
}

static u64 *vals; static size_t nvals, capvals;
static unsigned char *bytesbuf; static size_t nbytes_, capbytes;

static int hexv(int c) { if (c >= '0' && c <= '9') return c - '0'; if (c >= 'a' && c <= 'f') return c - 'a' + 10; if (c >= 'A' && c <= 'F') return c - 'A' + 10; return -1; }

static void parse_vals(const char *s) {
    nvals = 0;
    while (*s) {
        while (*s == ' ') s++;
        if (!*s || *s == '\n') break;
        u64 v = 0;
        while (hexv(*s) >= 0) { v = (v << 4) | (u64)hexv(*s); s++; }
        if (nvals == capvals) { capvals = capvals ? capvals * 2 : 1024; vals = (u64 *)realloc(vals, capvals * sizeof(u64)); }
        vals[nvals++] = v;
    }
}
static void parse_bytes(const char *s) {
    nbytes_ = 0;
    while (*s == ' ') s++;
    while (hexv(s[0]) >= 0 && hexv(s[1]) >= 0) {
        if (nbytes_ == capbytes) { capbytes = capbytes ? capbytes * 2 : 1024; bytesbuf = (unsigned char *)realloc(bytesbuf, capbytes); }
        bytesbuf[nbytes_++] = (unsigned char)(hexv(s[0]) * 16 + hexv(s[1]));
        s += 2;
    }
}
static void store_rev(void *dst, const void *src, size_t n) { for (size_t i = 0; i < n; i++) ((unsigned char *)dst)[i] = ((const unsigned char *)src)[n - 1 - i]; }
static void put_hex(const unsigned char *p, size_t n) { for (size_t i = 0; i < n; i++) printf("%02x", p[i]); }
"""


class _DriverGen:
    def __init__(self, unit: Unit, messages: List[Message], with_json: bool, cxx: bool, size_from_model: bool = False, be_storage: bool = False):
        self.size_from_model = size_from_model
        self.be_storage = be_storage
        self.unit = unit
        self.messages = messages
        self.with_json = with_json
        self.cxx = cxx
        self.lines: List[str] = []
        self.var = 0

    def emit(self, s: str) -> None:
        self.lines.append(s)

    # setters / getters walk the struct in canonical leaf order
    def gen_set(self, t: Any, expr: str, depth: int) -> None:
        t = resolve(t)
        ind = "    " * (depth + 1)
        if isinstance(t, (TBase, Enum)):
            if self.be_storage:
                # storage laid out big-endian BY THE HARNESS (simulating a big-endian host's memory image)
                self.emit(f"{ind}{{ __typeof__({expr}) tmp_ = (__typeof__({expr}))v[n++]; store_rev(&({expr}), &tmp_, sizeof(tmp_)); }}")
            else:
                self.emit(f"{ind}{expr} = (__typeof__({expr}))v[n++];")
        elif isinstance(t, TArray):
            i = f"i{depth}"
            self.emit(f"{ind}for (int {i} = 0; {i} < {t.cap}; {i}++) {{")
            self.gen_set(t.elem, f"{expr}[{i}]", depth + 1)
            self.emit(f"{ind}}}")
        elif isinstance(t, Message):
            for f in t.sorted_fields():
                self.gen_set(f.type, f"{expr}.{f.name}", depth)
        else:
            raise TypeError(t)

    def gen_get(self, t: Any, expr: str, depth: int) -> None:
        t = resolve(t)
        ind = "    " * (depth + 1)
        if self.be_storage and isinstance(t, (TBase, Enum)):
            cast = "(u64)(long long)" if isinstance(t, TBase) and t.kind == "int" else "(u64)"
            self.emit(f'{ind}{{ __typeof__({expr}) tmp_; store_rev(&tmp_, &({expr}), sizeof(tmp_)); printf(" %llx", {cast}(tmp_)); }}')
        elif isinstance(t, TBase) and t.kind == "int":
            self.emit(f'{ind}printf(" %llx", (u64)(long long)({expr}));')
        elif isinstance(t, (TBase, Enum)):
            self.emit(f'{ind}printf(" %llx", (u64)({expr}));')
        elif isinstance(t, TArray):
            i = f"i{depth}"
            self.emit(f"{ind}for (int {i} = 0; {i} < {t.cap}; {i}++) {{")
            self.gen_get(t.elem, f"{expr}[{i}]", depth + 1)
            self.emit(f"{ind}}}")
        elif isinstance(t, Message):
            for f in t.sorted_fields():
                self.gen_get(f.type, f"{expr}.{f.name}", depth)
        else:
            raise TypeError(t)

    def generate(self) -> str:
        out: List[str] = []
        out.append("/* generated by bpverif.cexec from the schema model */")
        if self.cxx:
            out.append("#include <cstdio>")
        out.append(DRIVER_PRELUDE)
        for f in self.unit.files:
            out.append(f'#include "{f.base}_bp.h"')
        maxstruct = 64
        maxbytes = 64
        jsonmax = 256
        for k, m in enumerate(self.messages):
            sn = struct_name(m)
            self.lines = []
            self.emit(f"static void set_{k}(struct {sn} *m, const u64 *v) {{ size_t n = 0; (void)v; (void)n; (void)m;")
            for f in m.sorted_fields():
                self.gen_set(f.type, f"m->{f.name}", 0)
            self.emit("}")
            self.emit(f"static void get_{k}(struct {sn} *m) {{ (void)m;")
            for f in m.sorted_fields():
                self.gen_get(f.type, f"m->{f.name}", 0)
            self.emit("}")
            out.extend(self.lines)
            maxbytes = max(maxbytes, ref.nbytes(m))
            nleaves = _count_leaves(m)
            jsonmax = max(jsonmax, 64 + nleaves * 24 + _json_name_bytes(m))
        out.append("struct msginfo { size_t size; size_t align; size_t nbytes; };")
        out.append("static struct msginfo infos[] = {")
        for k, m in enumerate(self.messages):
            sn = struct_name(m)
            al = f"alignof(struct {sn})" if self.cxx else f"_Alignof(struct {sn})"
            out.append(f"    {{ sizeof(struct {sn}), {al}, {ref.nbytes(m) if self.size_from_model else size_macro(m)} }},")
        out.append("    {0, 0, 0} };")
        out.append(f"#define JSON_MAX {jsonmax}")
        # dispatchers
        out.append("static void do_set(int k, void *m) { switch (k) {")
        for k, m in enumerate(self.messages):
            out.append(f"    case {k}: set_{k}((struct {struct_name(m)} *)m, vals); break;")
        out.append("    default: break; } }")
        out.append("static void do_get(int k, void *m) { switch (k) {")
        for k, m in enumerate(self.messages):
            out.append(f"    case {k}: get_{k}((struct {struct_name(m)} *)m); break;")
        out.append("    default: break; } }")
        out.append("static int do_encode(int k, void *m, unsigned char *s) { switch (k) {")
        for k, m in enumerate(self.messages):
            out.append(f"    case {k}: return Encode{struct_name(m)}((struct {struct_name(m)} *)m, s);")
        out.append("    default: return -99; } }")
        out.append("static int do_decode(int k, void *m, unsigned char *s) { switch (k) {")
        for k, m in enumerate(self.messages):
            out.append(f"    case {k}: return Decode{struct_name(m)}((struct {struct_name(m)} *)m, s);")
        out.append("    default: return -99; } }")
        out.append("static int do_json(int k, void *m, char *s) { switch (k) {")
        if self.with_json:
            for k, m in enumerate(self.messages):
                out.append(f"    case {k}: return Json{struct_name(m)}((struct {struct_name(m)} *)m, s);")
        out.append("    default: return -99; } }")
        out.append("static void do_layout(void) {")
        for k, m in enumerate(self.messages):
            sn = struct_name(m)
            out.append(f'    printf("L {k} %zu", sizeof(struct {sn}));')
            for f in m.sorted_fields():
                out.append(f'    printf(" %zu", offsetof(struct {sn}, {f.name}));')
            out.append('    printf("\\n");')
        out.append("}")
        out.append(DRIVER_MAIN)
        return "\n".join(out) + "\n"


def _count_leaves(m: Message) -> int:
    def cnt(t: Any) -> int:
        t = resolve(t)
        if isinstance(t, (TBase, Enum)):
            return 1
        if isinstance(t, TArray):
            return t.cap * cnt(t.elem) + 1
        if isinstance(t, Message):
            return sum(cnt(f.type) for f in t.fields()) + 1
        raise TypeError(t)

    return cnt(m)


def _json_name_bytes(m: Message) -> int:
    def cnt(t: Any) -> int:
        t = resolve(t)
        if isinstance(t, (TBase, Enum)):
            return 0
        if isinstance(t, TArray):
            return t.cap * cnt(t.elem) + 2
        if isinstance(t, Message):
            return sum(cnt(f.type) + len(f.name) + 4 for f in t.fields()) + 2
        raise TypeError(t)

    return cnt(m)


DRIVER_MAIN = r"""
int main(void) {
    size_t maxsize = 64, maxbytes = 64;
    for (int k = 0; infos[k].align; k++) { if (infos[k].size > maxsize) maxsize = infos[k].size; if (infos[k].nbytes > maxbytes) maxbytes = infos[k].nbytes; }
    size_t slack = 256;
    size_t r1 = maxsize + 2 * slack, r2 = maxbytes + 2 * slack, r3 = JSON_MAX + 2 * slack;
    /* three independent guarded arenas: struct, wire buffer, json text */
    arena_init(r1); unsigned char *a1 = arena + pagesz; size_t l1 = arena_data;
    arena_init(r2); unsigned char *a2 = arena + pagesz; size_t l2 = arena_data;
    arena_init(r3); unsigned char *a3 = arena + pagesz; size_t l3 = arena_data;
    static char *line = NULL; size_t cap = 0; ssize_t got;
    setvbuf(stdout, NULL, _IOFBF, 1 << 16);
    while ((got = getline(&line, &cap, stdin)) > 0) {
        char op = line[0];
        if (op == 'Z') { do_layout(); printf("OK\n"); fflush(stdout); continue; }
        if (op == 'Q') break;
        int k = 0, placement = 0, pos = 0;
        if (sscanf(line + 1, "%d %d%n", &k, &placement, &pos) < 2) { printf("ERR parse\n"); fflush(stdout); continue; }
        const char *rest = line + 1 + pos;
        size_t ssz = infos[k].size ? infos[k].size : 1;
        /* region for the struct: placement&1 -> after the lower guard, else flush before the upper guard */
        if (op == 'E' || op == 'J') {
            parse_vals(rest);
            struct fence fs = (placement & 1) ? fence_make(a1, ssz + slack, ssz, 1, infos[k].align) : fence_make(a1 + l1 - ssz - slack, ssz + slack, ssz, 0, infos[k].align);
            do_set(k, fs.obj);
            if (op == 'E') {
                size_t nb = infos[k].nbytes;
                struct fence fb = (placement & 2) ? fence_make(a2, nb + slack, nb, 1, 1) : fence_make(a2 + l2 - nb - slack, nb + slack, nb, 0, 1);
                printf("E-BEGIN\n"); fflush(stdout);
                int rc = do_encode(k, fs.obj, fb.obj);
                long c1 = fence_check(&fs), c2 = fence_check(&fb);
                printf("OK %d %ld %ld ", rc, c1, c2); put_hex(fb.obj, nb); printf("\n");
            } else {
                struct fence fj = fence_make(a3 + l3 - JSON_MAX - slack, JSON_MAX + slack, JSON_MAX, 0, 1);
                printf("J-BEGIN\n"); fflush(stdout);
                int rc = do_json(k, fs.obj, (char *)fj.obj);
                long c1 = fence_check(&fs), c3 = fence_check(&fj);
                size_t n = rc >= 0 && rc < JSON_MAX ? (size_t)rc : 0;
                printf("OK %d %ld %ld ", rc, c1, c3); put_hex(fj.obj, n); printf("\n");
            }
        } else if (op == 'D') {
            parse_bytes(rest);
            size_t nb = nbytes_;
            struct fence fb = (placement & 2) ? fence_make(a2, nb + slack, nb, 1, 1) : fence_make(a2 + l2 - nb - slack, nb + slack, nb, 0, 1);
            if (nb) memcpy(fb.obj, bytesbuf, nb);
            struct fence fs = (placement & 1) ? fence_make(a1, ssz + slack, ssz, 1, infos[k].align) : fence_make(a1 + l1 - ssz - slack, ssz + slack, ssz, 0, infos[k].align);
            printf("D-BEGIN\n"); fflush(stdout);
            int rc = do_decode(k, fs.obj, fb.obj);
            long c1 = fence_check(&fs), c2 = fence_check(&fb);
            int same = nb ? memcmp(fb.obj, bytesbuf, nb) == 0 : 1;
            printf("OK %d %ld %ld %d", rc, c1, c2, same); do_get(k, fs.obj); printf("\n");
        } else { printf("ERR op\n"); }
        fflush(stdout);
    }
    return 0;
}
"""

# ---------------------------------------------------------------------------
# Build
# ---------------------------------------------------------------------------

_rt_cache: Dict[Tuple[Any, ...], str] = {}

SAN_FLAGS = ["-fsanitize=address,undefined", "-fno-sanitize=alignment", "-fno-sanitize-recover=all", "-fno-omit-frame-pointer", "-g"]


def _run(cmd: List[str], cwd: Optional[str] = None, what: str = "") -> None:
    envv = None
    if cwd is None and "-o" in cmd:
        cwd_out = os.path.dirname(cmd[cmd.index("-o") + 1])
    else:
        cwd_out = cwd or ""
    if cwd_out and os.path.isdir(cwd_out):
        # compiler temporaries live and die with the case directory (a compilation cut off by the case budget leaves nothing in /tmp)
        envv = dict(os.environ, TMPDIR=cwd_out)
    r = subprocess.run(cmd, cwd=cwd, stdout=subprocess.PIPE, stderr=subprocess.STDOUT, text=True, env=envv)
    if r.returncode != 0:
        raise CBuildError(what or " ".join(cmd[:4]), " ".join(cmd) + "\n" + r.stdout)


def runtime_object(cc: str, flags: Sequence[str]) -> str:
    """<repo>/lib/c/bitproto.c compiled once per flag set per process."""
    key = (cc, tuple(flags))
    if key in _rt_cache and os.path.exists(_rt_cache[key]):
        return _rt_cache[key]
    d = os.path.join(env.scratch_root(), "rt")
    os.makedirs(d, exist_ok=True)
    h = hashlib.sha256(repr(key).encode()).hexdigest()[:12]
    obj = os.path.join(d, f"bitproto-{h}.o")
    try:
        _run([cc, "-c", "-std=gnu11", "-w", *flags, "-I", env.CLIB_DIR, os.path.join(env.CLIB_DIR, "bitproto.c"), "-o", obj], what="compile runtime bitproto.c")
    except CBuildError as e:
        raise
    _rt_cache[key] = obj
    return obj


class CConfig:
    def __init__(
        self,
        cc: str = "gcc",
        opt: str = "-O0",
        sanitize: bool = False,
        big_endian: bool = False,
        single_tu: bool = False,
        cxx_driver: bool = False,
        extra: Sequence[str] = (),
        pre_includes: Sequence[str] = (),
        lib_std: str = "",
        be_announce: str = "BP_BIG_ENDIAN",
    ):
        self.be_announce = be_announce  # how a big-endian host is announced (key of BE_ANNOUNCE)
        # extra: flags given to EVERY translation unit (ABI-neutral or ABI-consistent: -funsigned-char, -fshort-enums, ...)
        # pre_includes: libc headers a user's file may include before the runtime (first lines of a single TU; -include otherwise)
        # lib_std: language standard for the runtime and the generated files only (the driver needs GNU extensions)
        self.pre_includes = list(pre_includes)
        self.lib_std = lib_std
        self.cc = cc
        self.opt = opt
        self.sanitize = sanitize
        self.big_endian = big_endian
        self.single_tu = single_tu
        self.cxx_driver = cxx_driver
        self.extra = list(extra)

    def flags(self) -> List[str]:
        f = [self.opt]
        if self.sanitize:
            f += SAN_FLAGS
        if self.big_endian:
            f += BE_ANNOUNCE[self.be_announce]
        f += self.extra
        return f

    def lib_flags(self) -> List[str]:
        """Additional flags for the runtime and the generated files when they are translation units of their own."""
        f: List[str] = []
        for h in self.pre_includes:
            f += ["-include", h]
        if self.lib_std:
            f.append(self.lib_std)
        return f

    def tag(self) -> str:
        more = "".join("," + x for x in self.extra) + "".join(",<" + h + ">" for h in self.pre_includes) + ("," + self.lib_std if self.lib_std else "")
        return f"{self.cc}{self.opt}{'-san' if self.sanitize else ''}{('-be' if self.be_announce == 'BP_BIG_ENDIAN' else '-be:' + self.be_announce) if self.big_endian else ''}{'-1tu' if self.single_tu else ''}{'-cxx' if self.cxx_driver else ''}{more}"

    def __repr__(self) -> str:
        return self.tag()


# what a user's build may add without changing what the code means
PRE_INCLUDES = ["stdlib.h", "time.h", "pthread.h", "sys/types.h", "signal.h", "endian.h", "sys/param.h", "sys/socket.h", "arpa/inet.h", "math.h", "limits.h", "stdio.h", "string.h"]
ABI_NEUTRAL_FLAGS = ["-funsigned-char", "-fsigned-char", "-fshort-enums", "-fno-strict-aliasing", "-fwrapv", "-D_GNU_SOURCE", "-fstack-protector-all", "-fPIC", "-fno-common", "-D_FORTIFY_SOURCE=2", "-DNDEBUG"]
# the documented ways a big-endian host is recognised (lib/c/bitproto.c, the generated -O file, docs/endianness.rst): the user's
# BP_BIG_ENDIAN or what the toolchain predefines (GCC/Clang, ACLE Arm, legacy TI armcl, others, IAR)
BE_ANNOUNCE = {
    "BP_BIG_ENDIAN": ["-DBP_BIG_ENDIAN=1"],
    "__BYTE_ORDER__": ["-U__BYTE_ORDER__", "-D__BYTE_ORDER__=__ORDER_BIG_ENDIAN__"],
    "__ARM_BIG_ENDIAN": ["-D__ARM_BIG_ENDIAN=1"],
    "__big_endian__": ["-D__big_endian__=1"],
    "__BIG_ENDIAN__": ["-D__BIG_ENDIAN__=1"],
    "__LITTLE_ENDIAN__==0": ["-D__LITTLE_ENDIAN__=0"],
}
LIB_STDS = ["", "", "", "-std=c99", "-std=c11", "-std=c17", "-std=gnu99", "-std=gnu17", "-std=c2x"]


def build_variation() -> Any:
    """Strategy: {'pre': libc headers before the runtime, 'flags': ABI-neutral flags, 'lib_std': language standard}."""
    from hypothesis import strategies as st

    return st.fixed_dictionaries(
        {
            "pre": st.one_of(st.just([]), st.lists(st.sampled_from(PRE_INCLUDES), min_size=1, max_size=3, unique=True)),
            "flags": st.one_of(st.just([]), st.lists(st.sampled_from(ABI_NEUTRAL_FLAGS), min_size=1, max_size=2, unique=True)),
            "lib_std": st.sampled_from(LIB_STDS),
        }
    )


def apply_variation(cfg: "CConfig", var: Dict[str, Any]) -> "CConfig":
    cfg.extra = [x for x in var.get("flags", []) if not (x == "-D_FORTIFY_SOURCE=2" and (cfg.opt == "-O0" or cfg.sanitize))]
    cfg.pre_includes = list(var.get("pre", []))
    cfg.lib_std = "" if cfg.single_tu else var.get("lib_std", "")
    return cfg


class Crash(Exception):
    def __init__(self, op_index: int, phase: str, returncode: int, stderr: str):
        super().__init__(f"driver died in op {op_index} ({phase}), returncode={returncode}: {stderr[-1500:]}")
        self.op_index = op_index
        self.phase = phase
        self.returncode = returncode
        self.stderr = stderr


class CDriver:
    """Built driver executable for one unit + generated C directory."""

    def __init__(self, unit: Unit, gendir: str, messages: Optional[List[Message]] = None, cfg: Optional[CConfig] = None, with_json: bool = True, workdir: Optional[str] = None, size_from_model: bool = False, be_storage: bool = False):
        self.size_from_model = size_from_model
        self.be_storage = be_storage
        self.unit = unit
        self.gendir = gendir
        self.cfg = cfg or CConfig()
        self.messages = messages if messages is not None else unit_messages(unit)
        self.with_json = with_json
        self.dir = workdir or env.scratch_dir("cdrv")
        self.exe = os.path.join(self.dir, "drv")
        self._build()

    def _build(self) -> None:
        cfg = self.cfg
        src = _DriverGen(self.unit, self.messages, self.with_json, cfg.cxx_driver, self.size_from_model, self.be_storage).generate()
        ext = ".cpp" if cfg.cxx_driver else ".c"
        drv = os.path.join(self.dir, "drv" + ext)
        with open(drv, "w") as f:
            f.write(src)
        flags = cfg.flags()
        inc = ["-I", env.CLIB_DIR, "-I", self.gendir]
        cfiles = [os.path.join(self.gendir, f.base + "_bp.c") for f in self.unit.files]
        link_san = SAN_FLAGS[:1] if cfg.sanitize else []
        if cfg.single_tu:
            one = os.path.join(self.dir, "all.c")
            with open(one, "w") as f:
                for h in cfg.pre_includes:
                    f.write(f"#include <{h}>\n")  # a user's own includes come first in a unity build
                f.write(f'#include "{os.path.join(env.CLIB_DIR, "bitproto.c")}"\n')
                for c in cfiles:
                    f.write(f'#include "{c}"\n')
                if not cfg.cxx_driver:
                    f.write(f'#include "{drv}"\n')
            if cfg.cxx_driver:
                obj = os.path.join(self.dir, "all.o")
                _run([cfg.cc, "-c", "-std=gnu11", "-w", *flags, *inc, one, "-o", obj], what="compile generated C (single TU)")
                dobj = os.path.join(self.dir, "drv.o")
                _run(["g++", "-c", "-w", *flags, *inc, drv, "-o", dobj], what="compile C++ driver")
                _run(["g++", *link_san, obj, dobj, "-o", self.exe], what="link")
            else:
                _run([cfg.cc, "-std=gnu11", "-w", *flags, *inc, one, "-o", self.exe], what="compile generated C (single TU)")
            return
        lib = cfg.lib_flags()
        objs = [runtime_object(cfg.cc, [*flags, *lib])]
        for c in cfiles:
            o = os.path.join(self.dir, os.path.basename(c)[:-2] + ".o")
            _run([cfg.cc, "-c", "-std=gnu11", "-w", *flags, *lib, *inc, c, "-o", o], what=f"compile generated {os.path.basename(c)}")
            objs.append(o)
        dobj = os.path.join(self.dir, "drv.o")
        if cfg.cxx_driver:
            _run(["g++", "-c", "-w", *flags, *inc, drv, "-o", dobj], what="compile C++ driver")
            _run(["g++", *link_san, *objs, dobj, "-o", self.exe], what="link")
        else:
            _run([cfg.cc, "-c", "-std=gnu11", "-w", *flags, *inc, drv, "-o", dobj], what="compile driver")
            _run([cfg.cc, *link_san, *objs, dobj, "-o", self.exe], what="link")

    # -- running -----------------------------------------------------------

    def run(self, ops: List[str], timeout: float = 120) -> List[str]:
        """ops: protocol lines. Returns response lines (without BEGIN markers).
        Raises Crash if the driver dies."""
        inp = "\n".join(ops) + "\nQ\n"
        envv = dict(os.environ)
        envv["ASAN_OPTIONS"] = "detect_leaks=0:abort_on_error=0:allocator_may_return_null=1"
        envv["UBSAN_OPTIONS"] = "print_stacktrace=1:halt_on_error=1"
        r = subprocess.run([self.exe], input=inp, stdout=subprocess.PIPE, stderr=subprocess.PIPE, text=True, timeout=timeout, env=envv)
        lines = r.stdout.splitlines()
        out: List[str] = []
        phase = ""
        for l in lines:
            if l.endswith("-BEGIN"):
                phase = l
                continue
            phase = ""
            out.append(l)
        nresp = sum(1 for o in ops if not o.startswith("Z")) + sum(1 for o in ops if o.startswith("Z"))
        complete = [l for l in out if l.startswith(("OK", "ERR"))]
        if r.returncode != 0 or len(complete) < len(ops):
            raise Crash(len(complete), phase, r.returncode, r.stderr)
        return out


def fmt_vals(vals: Sequence[int]) -> str:
    return " ".join(format(int(v) & 0xFFFFFFFFFFFFFFFF, "x") for v in vals)


def leaf_values(m: Message, v: Any) -> List[int]:
    return [int(ref.get_path(v, lf.path)) for lf in ref.leaves(m)]


def op_encode(k: int, m: Message, v: Any, placement: int = 0) -> str:
    return f"E {k} {placement} " + fmt_vals(leaf_values(m, v))


def op_encode_raw(k: int, raw: Sequence[int], placement: int = 0) -> str:
    return f"E {k} {placement} " + fmt_vals(raw)


def op_decode(k: int, data: bytes, placement: int = 0) -> str:
    return f"D {k} {placement} " + bytes(data).hex()


def op_json(k: int, m: Message, v: Any) -> str:
    return f"J {k} 0 " + fmt_vals(leaf_values(m, v))


class EncResp:
    def __init__(self, line: str):
        p = line.split(" ")
        assert p[0] == "OK", line
        self.rc = int(p[1])
        self.struct_canary = int(p[2])
        self.buf_canary = int(p[3])
        self.data = bytes.fromhex(p[4]) if len(p) > 4 else b""

    def fences_ok(self) -> bool:
        return self.struct_canary == 0x7FFFFFFF and self.buf_canary == 0x7FFFFFFF


class DecResp:
    def __init__(self, line: str, m: Message):
        p = line.split(" ")
        assert p[0] == "OK", line
        self.rc = int(p[1])
        self.struct_canary = int(p[2])
        self.buf_canary = int(p[3])
        self.buf_unchanged = p[4] == "1"
        raw = [int(x, 16) for x in p[5:]]
        self.raw = raw
        lvs = ref.leaves(m)
        self.leaf_ok = len(raw) == len(lvs)
        vals = []
        for lf, x in zip(lvs, raw):
            if lf.kind == "int" and x >= 1 << 63:
                x -= 1 << 64
            vals.append(x)
        self.values = vals

    def fences_ok(self) -> bool:
        return self.struct_canary == 0x7FFFFFFF and self.buf_canary == 0x7FFFFFFF and self.buf_unchanged


class JsonResp:
    def __init__(self, line: str):
        p = line.split(" ")
        assert p[0] == "OK", line
        self.rc = int(p[1])
        self.struct_canary = int(p[2])
        self.buf_canary = int(p[3])
        self.text = bytes.fromhex(p[4]).decode("utf-8", "replace") if len(p) > 4 else ""

    def fences_ok(self) -> bool:
        return self.struct_canary == 0x7FFFFFFF and self.buf_canary == 0x7FFFFFFF


def parse_layout(lines: List[str]) -> Dict[int, List[int]]:
    out: Dict[int, List[int]] = {}
    for l in lines:
        if l.startswith("L "):
            p = l.split()
            out[int(p[1])] = [int(x) for x in p[2:]]
    return out
