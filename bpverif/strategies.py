"""Hypothesis strategies: schemas (valid by construction), values, configs.

All random choice happens through `draw`; no private RNG.
"""

from __future__ import annotations

from dataclasses import dataclass, field, replace
from typing import Any, Dict, List, Optional, Sequence, Tuple

from hypothesis import strategies as st

from . import ref
from .model import (
    Alias,
    Const,
    Enum,
    Field,
    File,
    Import,
    Message,
    TArray,
    TBase,
    TRef,
    Unit,
    enclosing_messages,
    file_of,
    resolve,
    set_parents,
)

# ---------------------------------------------------------------------------
# Vocabulary: cannot collide with C/C++/Go/Python keywords, with identifiers
# used by generated code or its headers, or with each other after case
# conversion and flattening (all type words have 5 letters, so no word is a
# concatenation of others; enum members all start with EV_, constants with K_).
# ---------------------------------------------------------------------------

TYPE_WORDS = [
    "Abbey", "Acorn", "Adobe", "Agate", "Aisle", "Amber", "Angle", "Anvil", "Apple", "Arrow",
    "Aspen", "Atlas", "Bacon", "Badge", "Bagel", "Basil", "Beach", "Berry", "Birch", "Blaze",
    "Bloom", "Board", "Brick", "Brook", "Cabin", "Cable", "Camel", "Candy", "Cedar", "Chalk",
    "Charm", "Chess", "Cliff", "Cloud", "Clove", "Coral", "Crane", "Crown", "Daisy", "Delta",
    "Denim", "Diner", "Dough", "Drake", "Eagle", "Earth", "Ember", "Fable", "Fairy", "Fence",
    "Ferry", "Field", "Flame", "Flint", "Flora", "Forge", "Frost", "Gecko", "Ghost", "Glade",
    "Globe", "Grape", "Grove", "Guild", "Haven", "Hazel", "Heron", "Honey", "Hotel", "Ivory",
    "Jelly", "Jewel", "Koala", "Lance", "Larch", "Lemon", "Lilac", "Llama", "Lotus", "Lunar",
    "Maple", "Marsh", "Melon", "Mocha", "Moose", "Mural", "Nacho", "Niche", "Noble", "Oasis",
    "Ocean", "Olive", "Onion", "Opera", "Orbit", "Otter", "Panda", "Pasta", "Peach", "Pearl",
    "Pecan", "Piano", "Pilot", "Pixel", "Plaza", "Plume", "Prism", "Quail", "Quilt", "Raven",
    "Ridge", "River", "Robin", "Rover", "Sable", "Salsa", "Satin", "Scout", "Shell", "Shore",
    "Slate", "Smoke", "Spice", "Spire", "Spoke", "Stone", "Storm", "Sugar", "Swift", "Table",
    "Tango", "Tiger", "Topaz", "Torch", "Tulip", "Umbra", "Vapor", "Vault", "Viola", "Wafer",
    "Whale", "Wheat", "Willo", "Yacht", "Zebra", "Zesty",
]
TYPE_WORDS.remove("Field")  # python: dataclasses.field is lower-case, keep clear anyway

FIELD_WORDS = [
    "alt", "lat", "lon", "yaw", "roll", "pitch", "speed", "power", "level", "count",
    "flags", "temp", "volt", "amps", "gain", "bias", "rate", "tick", "seq", "crc_lo",
    "crc_hi", "phase", "depth", "hue", "sat", "lum", "raw", "head", "tail", "left_x",
    "right_x", "north", "south", "east", "west", "near", "far", "mass", "drag", "lift",
    "torque", "thrust", "ratio", "scale", "shift_x", "mark", "slot", "lane", "zone", "cell",
    "node_a", "node_b", "hop", "ttl", "cost", "load", "peak", "mean", "dev", "skew",
    "fuel_level", "air_speed", "ground_track", "wind_dir", "baro", "mag_x", "mag_y", "mag_z",
]

CONST_WORDS = [
    "K_ALPHA", "K_BRAVO", "K_CHARLIE", "K_DELTA", "K_ECHO", "K_FOXTROT", "K_GOLF", "K_HOTEL",
    "K_INDIA", "K_JULIET", "K_KILO", "K_LIMA", "K_MIKE", "K_NOVEMBER", "K_OSCAR", "K_PAPA",
    "K_QUEBEC", "K_ROMEO", "K_SIERRA", "K_TANGO", "K_UNIFORM", "K_VICTOR", "K_WHISKEY", "K_XRAY",
]

MEMBER_WORDS = [
    "ALFA", "BETA", "GAMMA", "DELTA", "EPSILON", "ZETA", "ETA", "THETA", "IOTA", "KAPPA",
    "LAMBDA", "MU", "NU", "XI", "OMICRON", "PI", "RHO", "SIGMA", "TAU", "UPSILON", "PHI", "CHI",
    "PSI", "OMEGA",
]

PROTO_WORDS = ["drone", "rover", "basis", "common", "shared", "link", "navi", "telem", "ctrl", "pack"]
AS_WORDS = ["ba", "cm", "sh", "lk", "nv", "tm", "ct", "pk", "qa", "qb"]

ALL_WIDTHS = list(range(1, 65))
INTERESTING_WIDTHS = [1, 2, 3, 7, 8, 9, 15, 16, 17, 23, 24, 25, 31, 32, 33, 40, 48, 56, 63, 64]


@dataclass
class Features:
    extensible: bool = True  # extensible messages
    ext_arrays: bool = True  # extensible arrays
    imports: bool = True
    nested: bool = True
    aliases: bool = True
    enums: bool = True
    consts: bool = True
    empty_enum: bool = False  # D3/N2
    empty_message: bool = True
    xfile_nested: bool = False  # reference types nested in messages of imported files (D7)
    transitive_ref: bool = False  # a.b.X through two imports (N3)
    alias_foreign_enum: bool = True  # imported alias expanding to an enum nested in a message / of a third file
    max_files: int = 3
    max_defs: int = 6
    max_fields: int = 8
    max_depth: int = 3
    bits_budget: int = 600  # soft budget per message
    big: bool = True  # occasionally a large message
    enum_bits_max: int = 64
    base_ne_proto: bool = False  # file base name differs from proto name (D11)
    as_names: bool = True
    cap_consts: bool = True  # array capacity by constant reference
    options: bool = False  # proto options (c.name_prefix ...)
    max_bytes: bool = False
    style_names: bool = True
    enum_first_zero_bias: bool = True
    enum_first_zero: bool = False  # first member is always 0 (keeps recorded finding D4b out of a check)
    flavour_pairs: bool = True  # sometimes two aliases of one width but different kinds, used the same way (add_flavour_pair)
    message_grids: bool = True  # sometimes a message reached through two or three array levels (add_message_grid)
    long_names: bool = False  # a few identifiers of 29..256 characters
    odd_file_names: bool = False  # `sensor.v2.bitproto`, `my-proto.bitproto` for the file nothing imports
    subdirs: bool = False  # files in sub-directories, imports by relative paths (only checks that address files by File.filename)
    keyword_field_names: bool = False  # a field called `type`, rarely (encoding checks switch it on)
    extremes: bool = False  # rare extremes of the documented limits: capacity 65535, 255 fields, deep nesting (encoding checks switch it on)
    signed_nonstd: bool = True  # signed widths other than 8/16/32/64
    typedef_syntax: bool = False  # deprecated `typedef T Name` spelling of an alias, sometimes
    max_bytes_option: bool = False  # `option max_bytes = N` (N >= the message's size) on some messages
    shared_nested_names: bool = True  # sometimes give nested definitions of different parents ONE short name (legal: names are per scope)
    prune_unused_imports: bool = False  # drop imports no type uses (recorded finding D10: unused Go import)


class _Names:
    def __init__(self) -> None:
        self.used: set = set()

    def take(self, draw: Any, words: Sequence[str], prefix: str = "") -> str:
        k = draw(st.integers(0, len(words) - 1))
        for off in range(len(words)):
            w = prefix + words[(k + off) % len(words)]
            if w not in self.used:
                self.used.add(w)
                return w
        # exhausted: synthesise
        n = 0
        while True:
            w = prefix + words[k] + ("X" * (n + 1) if words[k][0].isupper() else "_" + "x" * (n + 1))
            if w not in self.used:
                self.used.add(w)
                return w
            n += 1


class _Builder:
    def __init__(self, draw: Any, feat: Features):
        self.draw = draw
        self.feat = feat
        self.names = _Names()
        self.unit = Unit()
        self.file: Optional[File] = None
        self.open_chain: List[Message] = []
        # completed type definitions in current file with their enclosing chain
        self.done: List[Tuple[Any, Tuple[Message, ...]]] = []
        self.consts_done: List[Const] = []

    # -- visibility --------------------------------------------------------

    def ref_text_local(self, d: Any, encl: Tuple[Message, ...]) -> str:
        common = 0
        while common < len(encl) and common < len(self.open_chain) and encl[common] is self.open_chain[common]:
            common += 1
        return ".".join([m.name for m in encl[common:]] + [d.name])

    def type_candidates(self) -> List[Tuple[str, Any]]:
        """(text, definition) for every named type visible here."""
        out: List[Tuple[str, Any]] = []
        for d, encl in self.done:
            out.append((self.ref_text_local(d, encl), d))
        assert self.file is not None
        for imp in self.file.imports():
            for d, encl in imp.file._exports:  # type: ignore
                if encl and not self.feat.xfile_nested:
                    continue
                if not self.feat.alias_foreign_enum and _alias_mentions_foreign_enum(d):
                    continue  # N3b: alias of an imported file expanding to an enum of a third file
                out.append((".".join([imp.name] + [m.name for m in encl] + [d.name]), d))
            if self.feat.transitive_ref:
                for imp2 in imp.file.imports():
                    for d, encl in imp2.file._exports:  # type: ignore
                        if encl and not self.feat.xfile_nested:
                            continue
                        out.append((".".join([imp.name, imp2.name] + [m.name for m in encl] + [d.name]), d))
        return out

    def const_candidates(self) -> List[Tuple[str, Const]]:
        out = [(c.name, c) for c in self.consts_done]
        assert self.file is not None
        for imp in self.file.imports():
            for c in imp.file._const_exports:  # type: ignore
                out.append((imp.name + "." + c.name, c))
        return out

    # -- types -------------------------------------------------------------

    def base_type(self) -> TBase:
        d = self.draw
        if d(st.integers(0, 6)) == 3:
            # the same width in its different kinds (byte / uint8 / int8, bool / uint1 / int1, ...): whatever is keyed by
            # (kind of definition, width) instead of the type itself meets its collision here
            w = self._flavour_width = getattr(self, "_flavour_width", None) or d(st.sampled_from([8, 8, 1, 16, 32, 64]))
            kinds = {8: ["byte", "uint", "int"], 1: ["bool", "uint", "int"]}.get(w, ["uint", "int"])
            k = d(st.sampled_from(kinds))
            if k == "int" and not self.feat.signed_nonstd and w == 1:
                k = "uint"
            return TBase(k) if k in ("bool", "byte") else TBase(k, w)
        kind = d(st.sampled_from(["bool", "byte", "uint", "uint", "uint", "int", "int"]))
        if kind in ("bool", "byte"):
            return TBase(kind)
        if d(st.integers(0, 2)) > 0:
            bits = d(st.sampled_from(INTERESTING_WIDTHS))
        else:
            bits = d(st.sampled_from(ALL_WIDTHS))  # (uniform: st.integers favours small values and the bounds)
        if kind == "int" and not self.feat.signed_nonstd:
            bits = d(st.sampled_from([8, 16, 32, 64]))
        return TBase(kind, bits)

    def single_type(self, allow_msg: bool = True, allow_alias: bool = True) -> Any:
        d = self.draw
        cands = self.type_candidates()
        cands = [
            (t, x)
            for t, x in cands
            if (allow_msg or not isinstance(x, Message)) and (allow_alias or not isinstance(x, Alias))
        ]
        if cands and d(st.integers(0, 9)) < 5:
            text, x = d(st.sampled_from(cands))
            return TRef(text, x)
        return self.base_type()

    def capacity(self, elem_bits: int, budget: int) -> int:
        d = self.draw
        maxcap = max(1, min(65535, budget // max(1, elem_bits)))
        if elem_bits == 0:
            # arrays of EMPTY messages cost no bits but one object per element in every runtime: keep them small
            maxcap = 40
        choice = d(st.integers(0, 19))
        if choice < 14:
            cap = d(st.integers(1, 5))
        elif choice < 17:
            cap = d(st.sampled_from([7, 8, 9, 16, 17]))
        elif choice < 19:
            cap = d(st.sampled_from([31, 32, 33, 64, 255, 256]))
        else:
            cap = d(st.sampled_from([1000, 4095, 65535]))
        return max(1, min(cap, maxcap))

    def any_type(self, budget: int, in_alias: bool = False) -> Any:
        d = self.draw
        want_array = d(st.integers(0, 9)) < 3
        elem = self.single_type(allow_alias=True, allow_msg=True)
        if in_alias and isinstance(elem, TRef) and not want_array:
            # alias may only name unnamed types: base types or arrays
            elem = self.base_type()
        bits = ref.nbits(elem)
        if bits > budget:
            elem = TBase("bool") if d(st.booleans()) else TBase("uint", d(st.integers(1, 8)))
            bits = ref.nbits(elem)
        if not want_array:
            return elem
        ext = self.feat.ext_arrays and d(st.integers(0, 3)) == 0
        cap = self.capacity(bits, budget - (16 if ext else 0))
        last = getattr(self, "_last_cap", None)
        if last and d(st.integers(0, 2)) == 1 and last * bits <= max(budget - (16 if ext else 0), bits) and (bits > 0 or last <= 40):
            cap = last  # arrays of equal capacity side by side (what is keyed by capacity + element kind collides here)
        self._last_cap = cap
        cap_text = None
        cap_const = None
        if self.feat.cap_consts and self.feat.consts and d(st.integers(0, 5)) == 0:
            cs = [(t, c) for t, c in self.const_candidates() if isinstance(c.value, int) and not isinstance(c.value, bool) and 1 <= c.value <= 65535 and c.value * bits <= max(budget, bits) and (bits > 0 or c.value <= 40)]
            if cs:
                cap_text, c = d(st.sampled_from(cs))
                cap = c.value
                cap_const = c
        return TArray(elem, cap, ext, cap_text, cap_const)

    # -- definitions -------------------------------------------------------

    def make_const(self) -> Const:
        d = self.draw
        name = self.names.take(d, CONST_WORDS)
        kind = d(st.sampled_from(["int", "int", "int", "bool", "str"]))
        if kind == "int":
            v: Any = d(st.one_of(st.integers(0, 40), st.sampled_from([255, 256, 65535, 2**31 - 1, 2**32, 2**63 - 1])))
            if d(st.booleans()) and v > 0:
                # simple expression forms
                form = d(st.integers(0, 8))
                if form >= 4:
                    # unparenthesised chains: operators of one level associate to the LEFT, * and / bind tighter
                    b, c = d(st.integers(1, 9)), d(st.integers(2, 9))
                    text = {
                        4: f"{v + b + c} - {b} - {c}",
                        5: f"{v * b * c} / {b} / {c}",
                        6: f"{v + b} - {b + c} + {c}",
                        7: f"{v * b * c} / {c} * 1 / {b}",
                        8: f"{v + b * c} - {b} * {c}",
                    }[form]
                    return Const(name, v, text)
                if form == 0:
                    a = d(st.integers(0, v))
                    return Const(name, v, f"{a} + {v - a}")
                if form == 1:
                    k = d(st.integers(1, 7))
                    return Const(name, v, f"{v * k} / {k}")
                if form == 2:
                    return Const(name, v, hex(v))
                return Const(name, v, f"({v} + 1) - 1")
            return Const(name, v)
        if kind == "bool":
            v = d(st.booleans())
            sp = d(st.sampled_from(["true", "yes"] if v else ["false", "no"]))
            return Const(name, v, sp)
        s = d(st.text(alphabet="abcXYZ019 _-.:/", max_size=12))
        return Const(name, s)

    def make_enum(self) -> Enum:
        d = self.draw
        name = self.names.take(d, TYPE_WORDS)
        if d(st.integers(0, 3)) > 0:
            bits = d(st.sampled_from([1, 2, 3, 4, 7, 8]))
        else:
            bits = d(st.sampled_from([9, 12, 16, 17, 31, 32, 33, 63, 64]))
        bits = min(bits, self.feat.enum_bits_max)
        nmin = 0 if self.feat.empty_enum else 1
        n = d(st.integers(nmin, 6))
        n = min(n, 1 << bits)
        top = (1 << bits) - 1
        pool = st.one_of(st.integers(0, min(top, 8)), st.sampled_from(sorted({0, 1, top, top // 2, (top + 1) // 2, min(top, 255), min(top, 256)})), st.integers(0, top))
        vals: List[int] = []
        for i in range(n):
            if i == 0 and (self.feat.enum_first_zero or d(st.integers(0, 7)) > 0):
                v = 0
            else:
                v = d(pool)
            tries = 0
            while v in vals:
                v = (v + 1) % (top + 1)
                tries += 1
                if tries > top + 1:
                    break
            if v not in vals:
                vals.append(v)
        members = [(self.names.take(d, MEMBER_WORDS, "EV_"), v) for v in vals]
        return Enum(name, bits, members)

    def make_alias(self) -> Alias:
        d = self.draw
        name = self.names.take(d, TYPE_WORDS)
        t = self.any_type(self.feat.bits_budget, in_alias=True)
        return Alias(name, t, typedef_syntax=self.feat.typedef_syntax and d(st.integers(0, 5)) == 0)

    def make_message(self, depth: int, budget: int) -> Message:
        d = self.draw
        name = self.names.take(d, TYPE_WORDS)
        ext = self.feat.extensible and d(st.integers(0, 3)) == 0
        m = Message(name, ext)
        self.open_chain.append(m)
        nmin = 0 if self.feat.empty_message else 1
        nitems = d(st.integers(nmin, self.feat.max_fields))
        numbers = d(st.lists(st.one_of(st.integers(1, 12), st.integers(1, 255)), unique=True, min_size=nitems, max_size=nitems))
        used_fields: set = set()
        remaining = budget
        for k in range(nitems):
            r = d(st.integers(0, 11))
            if r == 0 and self.feat.nested and self.feat.enums:
                e = self.make_enum()
                e.parent_file = self.file  # type: ignore
                e.is_nested = True  # type: ignore
                m.items.append(e)
                self.done.append((e, tuple(self.open_chain)))
            elif r == 1 and self.feat.nested and depth < self.feat.max_depth:
                sub = self.make_message(depth + 1, max(8, remaining // 2))
                m.items.append(sub)
                self.done.append((sub, tuple(self.open_chain)))
            else:
                t = self.any_type(max(1, remaining))
                remaining -= ref.nbits(t)
                fname = None
                if self.feat.keyword_field_names and "type" not in used_fields and d(st.integers(0, 39)) == 0:
                    fname = "type"  # the grammar allows this keyword as a field name (issue 39)
                kk = d(st.integers(0, len(FIELD_WORDS) - 1))
                for off in range(len(FIELD_WORDS)):
                    w = FIELD_WORDS[(kk + off) % len(FIELD_WORDS)]
                    if fname is None and w not in used_fields:
                        fname = w
                        break
                assert fname is not None
                used_fields.add(fname)
                m.items.append(Field(fname, t, numbers[k]))
        self.open_chain.pop()
        if not m.fields() and not self.feat.empty_message:
            m.items.append(Field("alt", TBase("bool"), 1))
        return m

    def make_special(self, which: str) -> Message:
        """Rare extremes of the documented limits: capacity 65535, 255 fields, deep nesting."""
        d = self.draw
        name = self.names.take(d, TYPE_WORDS)
        m = Message(name, False)
        if which == "huge_array":
            # exactly the largest array (and, with the flag, a message of exactly 65535 bits)
            m.items.append(Field("raw", TArray(TBase("bool"), 65535 if not (self.feat.ext_arrays and d(st.booleans())) else 65519, False), d(st.integers(1, 255))))
            if m.fields()[0].type.cap == 65519:
                m.fields()[0].type.ext = True
        elif which == "many_fields":
            n = d(st.sampled_from([200, 254, 255]))
            nums = d(st.permutations(list(range(1, 256))))[:n]
            for k in range(n):
                t = TBase("bool") if k % 3 else TBase(d(st.sampled_from(["uint", "int"])), d(st.integers(1, 9)))
                m.items.append(Field(f"f_{'abcdefghijklmnopqrstuvwxyz'[k % 26]}{'abcdefghijklmnopqrstuvwxyz'[(k // 26) % 26]}", t, nums[k]))
        else:
            cur = m
            self.open_chain.append(m)
            for depth in range(d(st.integers(5, 9))):
                sub = Message(self.names.take(d, TYPE_WORDS), self.feat.extensible and d(st.booleans()))
                sub.items.append(Field("alt", TBase("uint", d(st.integers(1, 11))), 1))
                cur.items.append(sub)
                cur.items.append(Field("lat", TRef(sub.name, sub), 2 if cur is not m else 7))
                cur = sub
            self.open_chain.pop()
            # the fields referencing nested messages were appended after them: declaration order is fine
        return m

    # -- files -------------------------------------------------------------

    def make_file(self, index: int, nfiles: int) -> File:
        d = self.draw
        feat = self.feat
        proto = self.names.take(d, PROTO_WORDS)
        base = proto
        if feat.base_ne_proto and d(st.booleans()):
            base = proto + "_file"
        f = File(proto, base)
        self.file = f
        self.done = []
        self.consts_done = []
        self.open_chain = []
        if index > 0 and feat.imports:
            earlier = self.unit.files[:index]
            # import a non-empty subset, biased to include the previous file
            chosen = [x for x in earlier if d(st.booleans())]
            if not chosen:
                chosen = [earlier[-1]]
            for x in chosen:
                as_name = None
                if feat.as_names and d(st.integers(0, 2)) == 0:
                    # the `as` name other FILES of the unit gave to other imports may be used again (names are per file)
                    prior = [n for n in getattr(self, "_as_used", []) if all(getattr(i, "as_name", None) != n for i in f.items)]
                    if prior and d(st.integers(0, 2)) == 0:
                        as_name = prior[d(st.integers(0, len(prior) - 1))]
                    else:
                        as_name = self.names.take(d, AS_WORDS)
                        self._as_used = getattr(self, "_as_used", []) + [as_name]
                f.items.append(Import(x, as_name))
        big = feat.big and d(st.integers(0, 24)) == 0
        self.special = None
        # (an interior value: 0 is what Hypothesis' minimal and near-minimal examples draw, which made the most
        # expensive shape the most frequent one)
        if feat.extremes and d(st.integers(0, 59)) == 31:
            self.special = d(st.sampled_from(["huge_array", "many_fields", "deep"]))
        ndefs = d(st.integers(1, feat.max_defs))
        kinds = []
        for _ in range(ndefs):
            kinds.append(d(st.sampled_from(["const", "alias", "alias", "enum", "enum", "message", "message", "message"])))
        if "message" not in kinds:
            kinds.append("message")
        for kind in kinds:
            if kind == "const" and feat.consts:
                c = self.make_const()
                f.items.append(c)
                self.consts_done.append(c)
            elif kind == "alias" and feat.aliases:
                a = self.make_alias()
                a.parent_file = f  # type: ignore
                f.items.append(a)
                self.done.append((a, ()))
            elif kind == "enum" and feat.enums:
                e = self.make_enum()
                e.parent_file = f  # type: ignore
                f.items.append(e)
                self.done.append((e, ()))
            elif kind == "message" and self.special is not None:
                m = self.make_special(self.special)
                self.special = None
                f.items.append(m)
                self.done.append((m, ()))
            elif kind == "message":
                budget = feat.bits_budget * (12 if big else 1)
                m = self.make_message(0, budget)
                f.items.append(m)
                self.done.append((m, ()))
        f._exports = list(self.done)  # type: ignore
        f._const_exports = list(self.consts_done)  # type: ignore
        return f


def _alias_mentions_foreign_enum(d: Any) -> bool:
    """An alias whose array-element chain names an enum/alias that is nested in a
    message or lives in another file than the alias: generated Go (and, before the
    D4a repair, Python) casts bytes to that type under a name that does not resolve
    in a THIRD module using the alias (recorded findings D7b / N3b)."""
    if not isinstance(d, Alias):
        return False
    home = d.parent_file  # type: ignore
    t = d.type
    while isinstance(t, TArray):
        t = t.elem
    if not isinstance(t, TRef):
        return False
    tgt = t.target
    if isinstance(tgt, Message):
        return False
    if tgt.parent_file is not home or getattr(tgt, "is_nested", False):  # type: ignore
        return True
    return _alias_mentions_foreign_enum(tgt)


@st.composite
def units(draw: Any, feat: Optional[Features] = None) -> Unit:
    feat = feat or Features()
    b = _Builder(draw, feat)
    if feat.imports and feat.max_files > 1:
        nfiles = draw(st.sampled_from([1, 1, 1, 2, 2, 3][: 3 + feat.max_files]))
        nfiles = min(nfiles, feat.max_files)
    else:
        nfiles = 1
    for i in range(nfiles):
        f = b.make_file(i, nfiles)
        b.unit.files.append(f)
    set_parents(b.unit)
    _clamp_sizes(b.unit)
    if feat.prune_unused_imports:
        prune_unused_imports(b.unit)
    if feat.shared_nested_names and feat.nested and feat.enums and draw(st.integers(0, 2)) == 0:
        share_nested_names(draw, b.unit, feat)
    if feat.flavour_pairs and feat.aliases and draw(st.integers(0, 4)) == 2:
        add_flavour_pair(draw, b.unit)
    if feat.message_grids and feat.aliases and draw(st.integers(0, 5)) == 4:
        add_message_grid(draw, b.unit, feat.extensible and feat.ext_arrays, feat.signed_nonstd)
        _clamp_sizes(b.unit)
    if feat.message_grids and feat.aliases and draw(st.integers(0, 5)) == 3:
        add_bulk_array(draw, b.unit, feat.signed_nonstd)
        _clamp_sizes(b.unit)
    if feat.long_names and draw(st.integers(0, 5)) == 1:
        lengthen_names(draw, b.unit)
    if feat.odd_file_names and draw(st.integers(0, 3)) == 1:
        # a schema file name with more dots / dashes than `<name>.bitproto`; only for the file nothing imports (the last
        # one: imports go to earlier files), since target languages import a module by its file name
        f = b.unit.files[-1]
        f.base = f.base + draw(st.sampled_from([".v2", "-draft", ".2024.rev1", ".V2", "-x.y", ".bitproto.old"]))
    if feat.subdirs and len(b.unit.files) > 1 and draw(st.integers(0, 2)) == 0:
        # files of one project in several directories: import paths are relative to the importing file
        for f in b.unit.files:
            f.subdir = draw(st.sampled_from(["", "", "sub", "sub/deep", "lib"]))
        for f in b.unit.files:
            for imp in f.imports():
                if draw(st.integers(0, 3)) == 0:
                    imp.spelling = "./" + imp.path_text
    if feat.max_bytes_option:
        from .model import iter_messages

        for f in b.unit.files:
            for m in iter_messages(f):
                if draw(st.integers(0, 9)) == 0 and ref.nbits(m) > 0:
                    m.max_bytes = ref.nbytes(m) + draw(st.sampled_from([0, 0, 1, 7]))
    return b.unit


def add_flavour_pair(draw: Any, unit: Unit, file_index: Optional[int] = None) -> bool:
    """Two aliases of the SAME width but different kind (byte / uint8 / int8, or uint16 / int16 ...), used first in two
    different messages declared one after the other, and side by side as arrays of equal capacity in one message:
    whatever the compiler keys by (kind of definition, width) or (capacity, element kind, width) collides here."""
    from . import scoping

    f = unit.files[draw(st.integers(0, len(unit.files) - 1)) if file_index is None else file_index]
    taken = {it.name for it in f.items}
    names = [n for n in ("Flava", "Flavb", "Holda", "Holdb") if n not in taken]
    if len(names) < 4:
        return False
    w = draw(st.sampled_from([8, 8, 8, 16, 32]))
    kinds = [TBase("byte"), TBase("uint", 8), TBase("int", 8)] if w == 8 else [TBase("uint", w), TBase("int", w)]
    order = draw(st.permutations(kinds))
    a = Alias(names[0], order[0])
    b = Alias(names[1], order[1])
    cap = draw(st.integers(1, 4))
    m1 = Message(names[2], False)
    m1.items += [Field("first", TRef(a.name, a), 1), Field("pad", TBase("uint", draw(st.integers(1, 7))), 2)]
    m2 = Message(names[3], False)
    m2.items += [
        Field("first", TRef(b.name, b), 1),
        Field("lefts", TArray(TRef(a.name, a), cap), 2),
        Field("rights", TArray(TRef(b.name, b), cap), 3),
        Field("mid", TBase("uint", draw(st.integers(1, 12))), 4),
    ]
    if draw(st.booleans()):
        m1, m2 = m2, m1  # (either message may come first)
    f.items += [a, b, m1, m2]
    set_parents(unit)
    if not (scoping.retext(unit) and scoping.names_unique(unit)):
        raise AssertionError("flavour pair must stay resolvable")
    return True


def add_message_grid(draw: Any, unit: Unit, ext_ok: bool, signed_nonstd: bool = True) -> bool:
    """A message reached through TWO OR THREE array levels (only expressible through aliases of arrays), with unequal
    capacities and a field behind it: an index order, a stride or an accessor depth that is wrong shows at once."""
    from . import scoping

    f = unit.files[draw(st.integers(0, len(unit.files) - 1))]
    taken = {it.name for it in f.items}
    names = [n for n in ("Gcell", "Gpair", "Gcube", "Gboard") if n not in taken]
    if len(names) < 4:
        return False
    cell = Message(names[0], ext_ok and draw(st.booleans()))
    cell.items += [Field("on", TBase("bool"), 1), Field("level", TBase(draw(st.sampled_from(["uint", "int"] if signed_nonstd else ["uint"])), draw(st.sampled_from([3, 5, 9, 12]))), 2)]
    a, b, c = draw(st.permutations([1, 2, 3]))[:3]
    pair = Alias(names[1], TArray(TRef(cell.name, cell), a + 1, ext_ok and draw(st.integers(0, 3)) == 0))
    cube = Alias(names[2], TArray(TRef(pair.name, pair), b + 1))
    board = Message(names[3], False)
    board.items += [
        Field("lead", TBase("uint", draw(st.integers(1, 7))), 1),
        Field("rows", TArray(TRef(pair.name, pair), c + 1), 2),
        Field("mid", TBase("uint", 3), 3),
    ]
    if draw(st.booleans()):
        board.items.append(Field("cube", TArray(TRef(cube.name, cube), 2), 4))
    board.items.append(Field("tail", TBase("uint", 5), 5))
    f.items += [cell, pair, cube, board]
    set_parents(unit)
    if not (scoping.retext(unit) and scoping.names_unique(unit)):
        raise AssertionError("message grid must stay resolvable")
    return True


def add_bulk_array(draw: Any, unit: Unit, signed_nonstd: bool = True) -> bool:
    """A LONG array (30..70 elements; ordinary arrays here have 1..5) of small elements - 8-bit base types, or an alias of a
    sub-byte array whose rows fill exactly 8 / 16 / 32 / 64 bits or just miss them - behind a lead field that leaves it
    byte-aligned or not, with a field behind it: element-count thresholds of block copies and loops are crossed."""
    from . import scoping

    f = unit.files[draw(st.integers(0, len(unit.files) - 1))]
    taken = {it.name for it in f.items}
    names = [n for n in ("Brow", "Bbulk") if n not in taken]
    if len(names) < 2:
        return False
    kind = ["bigrow", "row", "base", "row", "bigrow", "row"][draw(st.integers(0, 5))]
    outer_caps = [30, 31, 32, 33, 40, 64, 65, 70]
    if kind == "bigrow":
        # BOTH levels long, the inner one longer than the outer one (an index or a counter used for the wrong level leaves the row)
        row = Alias(names[0], TArray(TBase(draw(st.sampled_from(["uint", "uint", "int"])), draw(st.sampled_from([8, 16, 8, 32]))), draw(st.sampled_from([17, 20, 24, 33]))))
        outer_caps = [15, 16, 16, 17]
    elif kind == "row":
        ew = draw(st.sampled_from([1, 1, 2, 4, 4, 3]))
        total = draw(st.sampled_from([8, 8, 16, 32, 64, 12, 24]))
        ek = draw(st.sampled_from(["uint", "bool", "int"] if signed_nonstd else ["uint", "bool"]))
        elem = TBase("bool") if (ek == "bool" and ew == 1) else TBase("int" if ek == "int" else "uint", ew)
        row = Alias(names[0], TArray(elem, max(1, total // ew)))
    else:
        row = Alias(names[0], TBase(draw(st.sampled_from(["uint", "int", "byte"])), 8))
        if row.type.kind == "byte":
            row.type = TBase("byte")
    bulk = Message(names[1], False)
    bulk.items += [
        Field("lead", TBase("uint", [8, 3, 16, 8, 5][draw(st.integers(0, 4))]), 1),
        Field("cells", TArray(TRef(row.name, row), draw(st.sampled_from(outer_caps))), 2),
        Field("tail", TBase("uint", 5), 3),
    ]
    f.items += [row, bulk]
    set_parents(unit)
    if not (scoping.retext(unit) and scoping.names_unique(unit)):
        raise AssertionError("bulk array must stay resolvable")
    return True


NAME_LENGTHS = [29, 31, 32, 33, 48, 63, 64, 65, 127, 128, 255, 256]


def _snake_tail(k: int) -> str:
    t = ("_measurement_channel_calibrated_value_filtered_average" * (k // 40 + 2))[:k]
    t = t.rstrip("_") + ("x" if t.endswith("_") else "")
    if len(t) >= 2 and t[-2] == "_":
        t = t[:-2] + t[-1] + "x"  # (no one-letter word: `..._c` / `...C` + a nested name is read as an acronym by some case converters)
    return t


def _pascal_tail(k: int) -> str:
    t = ("MeasurementChannelCalibratedValueFilteredAverage" * (k // 40 + 2))[:k]
    if t and t[-1].isupper():
        t = t[:-1] + "x"  # (a style-guide PascalCase word has more than one letter)
    return t


def lengthen_names(draw: Any, unit: Unit) -> int:
    """Identifier LENGTH is a dimension of its own (fixed-size buffers, format widths, truncating tables): a few
    names of the unit are lengthened to 29..256 characters in their own style (lower_snake fields, PascalCase
    types, UPPER_SNAKE constants and enum members); references are re-derived by the scoping rules."""
    from . import scoping
    from .model import iter_enums, iter_messages

    cands: List[Any] = []
    for f in unit.files:
        for it in f.items:
            if isinstance(it, (Const, Alias)):
                cands.append(it)
        for e in iter_enums(f):
            cands.append(e)
            cands.extend((e, k) for k in range(len(e.members)))
        for m in iter_messages(f):
            cands.append(m)
            cands.extend(m.fields())
    if not cands:
        return 0
    n = 0
    for c in draw(st.lists(st.sampled_from(cands), min_size=1, max_size=4, unique_by=id)):
        target = draw(st.sampled_from(NAME_LENGTHS))
        if isinstance(c, tuple):
            e, k = c
            name, v = e.members[k]
            if len(name) < target:
                e.members[k] = (name + _snake_tail(target - len(name)).upper(), v)
                n += 1
            continue
        if len(c.name) >= target:
            continue
        if isinstance(c, Field):
            c.name = c.name + _snake_tail(target - len(c.name))
        elif isinstance(c, Const):
            c.name = c.name + _snake_tail(target - len(c.name)).upper()
        else:
            c.name = c.name + _pascal_tail(target - len(c.name))
        n += 1
    if n and not (scoping.retext(unit) and scoping.names_unique(unit)):
        raise AssertionError("lengthened names must stay resolvable and unique")
    return n


GENERATED_LIKE_PREFIXES = ["bp_", "bp_", "encode_", "decode_", "json_", "size_", "bytes_length_", "string_", "array_"]


def generated_like_names(draw: Any, unit: Unit) -> int:
    """A few FIELDS get names that begin like the names generated code gives its own things (`bp_left`, `encode_mode`,
    `size_hint`, `json_tag`): legal, distinct from every generated name (a word always follows the prefix), and exactly what a
    rule keyed on a name prefix would trip over.  Fields that reach a message (directly or through arrays) are preferred."""
    from . import scoping
    from .model import iter_messages, resolve

    def reaches_message(t: Any) -> bool:
        rt = resolve(t)
        while isinstance(rt, TArray):
            rt = resolve(rt.elem)
        return isinstance(rt, Message)

    cands: List[Any] = []
    for f in unit.files:
        for m in iter_messages(f):
            for fl in m.fields():
                if fl.name == "type" or len(fl.name) > 40:
                    continue
                cands.extend([fl] * (4 if reaches_message(fl.type) else 1))
    if not cands:
        return 0
    n = 0
    for fl in draw(st.lists(st.sampled_from(cands), min_size=1, max_size=3, unique_by=id)):
        new = draw(st.sampled_from(GENERATED_LIKE_PREFIXES)) + fl.name
        if any(x.name == new for x in fl.parent.fields()):
            continue
        fl.name = new
        n += 1
    if n and not (scoping.retext(unit) and scoping.names_unique(unit)):
        raise AssertionError("prefixed field names must stay resolvable and unique")
    return n


SHARED_NAMES = ["Kind", "Mode", "Sample", "Inner", "State"]


def share_nested_names(draw: Any, unit: Unit, feat: Optional[Features] = None) -> int:
    """Give sibling messages of one file like-named nested definitions used the same way (a common
    idiom: `Imu.Sample[3]`, `Baro.Sample[3]`): nested definitions of different, non-nested parents are
    renamed to (or created under) ONE shared short name, and each parent gets an array field of it with
    the same capacity.  No scope chain sees two of them, so the reference texts derived by
    scoping.retext are also what the innermost-scope-outward rule resolves; flattened target-language
    names stay distinct because the enclosing message names differ."""
    from . import scoping
    from .model import iter_messages

    changed = 0
    pool = list(SHARED_NAMES)
    for f in unit.files:
        tops = [it for it in f.items if isinstance(it, Message)]
        if len(tops) < 2 or not pool:
            continue
        parents = list(draw(st.permutations(tops)))[: draw(st.integers(2, 3))]
        kind = draw(st.sampled_from(["enum", "message"]))
        new = pool.pop(0)
        cap = draw(st.integers(1, 4))
        ext = False
        snapshot = [(p, list(p.items)) for p in parents]
        renames: List[Tuple[Any, str]] = []
        widths = draw(st.permutations([2, 3, 5, 7, 9, 12]))
        for k, p in enumerate(parents):
            existing = [it for it in p.nested() if isinstance(it, Enum if kind == "enum" else Message)]
            if existing and draw(st.booleans()):
                dd = existing[0]
                renames.append((dd, dd.name))
                dd.name = new
            else:
                if kind == "enum":
                    dd = Enum(new, widths[k], [("EV_S%s%d_ZERO" % (new.upper(), len(unit.files) * 10 + k + changed), 0), ("EV_S%s%d_TOP" % (new.upper(), len(unit.files) * 10 + k + changed), (1 << widths[k]) - 1)])
                    dd.parent_file = f  # type: ignore
                    dd.is_nested = True  # type: ignore
                else:
                    second = TBase("int", widths[(k + 1) % len(widths)]) if (feat is None or feat.signed_nonstd) else TBase("int", 16)
                    dd = Message(new, False, [Field("alt", TBase("uint", widths[k]), 1), Field("lat", second, 2)])
                p.items.insert(0, dd)
            used_names = {it.name for it in p.items}
            fname = next(w for w in reversed(FIELD_WORDS) if w not in used_names)
            nums = [fl.number for fl in p.fields()]
            number = max(nums + [0]) + 1
            if number <= 255:
                p.items.append(Field(fname, TArray(TRef(new, dd), cap, ext), number))
        set_parents(unit)
        ok = scoping.retext(unit) and scoping.names_unique(unit) and scoping.unit_type_names_shadow_free(unit) and all(ref.nbits(m) <= 65535 for m in iter_messages(f))
        if not ok:
            for p, items in snapshot:
                p.items = items
            for dd, nm in renames:
                dd.name = nm
            set_parents(unit)
            scoping.retext(unit)
            pool.insert(0, new)
            continue
        changed += len(parents)
    return changed


def prune_unused_imports(unit: Unit) -> int:
    """Removes imports whose file provides no type to the importing file."""
    from .model import iter_messages

    removed = 0
    set_parents(unit)
    for f in unit.files:
        used = set()

        def walk(t: Any) -> None:
            if isinstance(t, TArray):
                walk(t.elem)
            elif isinstance(t, TRef):
                used.add(id(file_of(t.target)))

        for it in f.items:
            if isinstance(it, Alias):
                walk(it.type)
        for m in iter_messages(f):
            for fl in m.fields():
                walk(fl.type)
        dropped = set()
        for imp in list(f.imports()):
            if id(imp.file) not in used:
                f.items.remove(imp)
                dropped.add(id(imp.file))
                removed += 1

        def fix_caps(t: Any) -> None:
            if isinstance(t, TArray):
                if t.cap_const is not None and id(file_of(t.cap_const)) in dropped:
                    t.cap_const = None
                    t.cap_text = None  # back to the plain literal
                fix_caps(t.elem)

        if dropped:
            for it in f.items:
                if isinstance(it, Alias):
                    fix_caps(it.type)
            for m in iter_messages(f):
                for fl in m.fields():
                    fix_caps(fl.type)
    return removed


def _clamp_sizes(unit: Unit) -> None:
    """Safety net: keep every message within 65535 bits (valid by construction)."""
    from .model import iter_messages

    for f in unit.files:
        for m in iter_messages(f):
            guard = 0
            while ref.nbits(m) > 65535 and guard < 1000:
                guard += 1
                # shrink the largest array field
                best = None
                for fld in m.fields():
                    t = fld.type
                    if isinstance(t, TArray) and t.cap > 1 and t.cap_text is None:
                        if best is None or ref.nbits(t) > ref.nbits(best.type):
                            best = fld
                if best is None:
                    # drop the widest field
                    fl = max(m.fields(), key=lambda x: ref.nbits(x.type))
                    m.items.remove(fl)
                else:
                    best.type.cap = max(1, best.type.cap // 2)


# ---------------------------------------------------------------------------
# Values
# ---------------------------------------------------------------------------


def leaf_strategy(lf: ref.Leaf) -> st.SearchStrategy:
    if lf.kind == "bool":
        return st.booleans()
    if lf.kind == "enum":
        vals = lf.enum.values()
        return st.sampled_from(vals)
    lo, hi = ref.leaf_range(lf)
    specials = sorted({lo, hi, 0, 1 if hi >= 1 else 0, -1 if lo < 0 else 0, hi // 2, lo // 2, hi - 1 if hi > 0 else hi, lo + 1 if lo < 0 else lo})
    pats = []
    if lf.bits >= 2:
        a = int("10" * 32, 2) & ((1 << lf.bits) - 1)
        b = int("01" * 32, 2) & ((1 << lf.bits) - 1)
        for p in (a, b):
            if lf.kind == "int" and p > hi:
                p -= 1 << lf.bits
            pats.append(p)
    return st.one_of(st.sampled_from(specials + pats), st.integers(lo, hi), st.integers(0, lf.bits - 1).map(lambda k, lf=lf: _single_bit(lf, k)))


def _single_bit(lf: ref.Leaf, k: int) -> int:
    v = 1 << k
    lo, hi = ref.leaf_range(lf)
    if v > hi:
        v -= 1 << lf.bits
    return v


def build_value(m: Message, leaf_values: List[Any]) -> Dict[str, Any]:
    v = ref.zero_value(m)
    for lf, x in zip(ref.leaves(m), leaf_values):
        ref.set_path(v, lf.path, x)
    return v


@st.composite
def values(draw: Any, m: Message, max_drawn_leaves: int = 96) -> Dict[str, Any]:
    lvs = ref.leaves(m)
    if len(lvs) <= max_drawn_leaves:
        return build_value(m, [draw(leaf_strategy(lf)) for lf in lvs])
    if len(lvs) <= 1500:
        rnd = draw(st.randoms(use_true_random=False))
    else:
        # every call of a Hypothesis-backed Random is a recorded draw and a case has room for ~8k of them: very
        # large messages take ONE drawn seed and expand it deterministically (still a pure function of the draws)
        import random as _random

        rnd = _random.Random(draw(st.integers(0, 2**32 - 1)))
    out = []
    for lf in lvs:
        if lf.kind == "bool":
            out.append(rnd.random() < 0.5)
        elif lf.kind == "enum":
            out.append(rnd.choice(lf.enum.values()))
        else:
            lo, hi = ref.leaf_range(lf)
            r = rnd.random()
            if r < 0.15:
                out.append(lo)
            elif r < 0.3:
                out.append(hi)
            elif r < 0.4:
                out.append(0)
            else:
                out.append(rnd.randint(lo, hi))
    return build_value(m, out)


def basis_values(m: Message, limit_bits: int = 512) -> List[Tuple[str, Dict[str, Any]]]:
    """Deterministic vectors derived from the schema: zero, all-max, all-min,
    and (for small messages) the one-hot basis over all leaf bits."""
    lvs = ref.leaves(m)
    out: List[Tuple[str, Dict[str, Any]]] = []

    def enum_pick(lf: ref.Leaf, which: str) -> int:
        vals = lf.enum.values()
        if which == "zero":
            return 0 if 0 in vals else vals[0]
        return max(vals) if which == "max" else min(vals)

    zero = []
    mx = []
    mn = []
    for lf in lvs:
        if lf.kind == "enum":
            zero.append(enum_pick(lf, "zero"))
            mx.append(enum_pick(lf, "max"))
            mn.append(enum_pick(lf, "min"))
        elif lf.kind == "bool":
            zero.append(False)
            mx.append(True)
            mn.append(False)
        else:
            lo, hi = ref.leaf_range(lf)
            zero.append(0)
            mx.append(hi if lf.kind != "int" else -1)  # all ones
            mn.append(lo)
    out.append(("zero", build_value(m, zero)))
    out.append(("ones", build_value(m, mx)))
    out.append(("min", build_value(m, mn)))
    if lvs:
        smax = [ref.leaf_range(lf)[1] if lf.kind in ("int", "uint", "byte") else x for lf, x in zip(lvs, mx)]
        out.append(("max", build_value(m, smax)))
    if len(lvs) >= 2:
        # neighbours in opposite states: every leaf all-ones between all-zero neighbours and the complement (a carry,
        # a mask one bit too wide or a shared temporary shows only when adjacent fields differ)
        out.append(("alt0", build_value(m, [mx[i] if i % 2 == 0 else zero[i] for i in range(len(lvs))])))
        out.append(("alt1", build_value(m, [mx[i] if i % 2 == 1 else zero[i] for i in range(len(lvs))])))
    total = sum(lf.bits for lf in lvs)
    if total <= limit_bits:
        for i, lf in enumerate(lvs):
            if lf.kind == "enum":
                for val in lf.enum.values():
                    vec = list(zero)
                    vec[i] = val
                    out.append((f"enum:{i}={val}", build_value(m, vec)))
                continue
            for k in range(lf.bits):
                vec = list(zero)
                if lf.kind == "bool":
                    vec[i] = True
                else:
                    vec[i] = _single_bit(lf, k)
                out.append((f"onehot:{i}.{k}", build_value(m, vec)))
    return out


# ---------------------------------------------------------------------------
# Labels (measuring what is generated)
# ---------------------------------------------------------------------------


def unit_labels(unit: Unit) -> List[str]:
    from .model import iter_messages, iter_enums

    labs: set = set()
    if len(unit.files) > 1:
        labs.add("import")
    if len(unit.files) > 2:
        labs.add("import3")
    for f in unit.files:
        for imp in f.imports():
            if imp.as_name:
                labs.add("import_as")
            if "/" in imp.path_text:
                labs.add("import_path_with_dirs")
        if not f.base.isidentifier():
            labs.add("file_name_with_dots_or_dashes")
        for m in iter_messages(f):
            if any(len(x.name) >= 29 for x in m.fields()):
                labs.add("field_name_ge_29_chars")
            if len(m.name) >= 29:
                labs.add("type_name_ge_29_chars")
        for it in f.items:
            if isinstance(it, Const):
                labs.add("const")
            if isinstance(it, Alias):
                labs.add("alias")
        for e in iter_enums(f):
            labs.add("enum")
            if e.bits > 8:
                labs.add("enum_wide")
            if e.members and e.members[0][1] != 0:
                labs.add("enum_first_nonzero")
            if enclosing_messages(e):
                labs.add("nested_enum")
        for m in iter_messages(f):
            labs.update(message_labels(m))
            encl = enclosing_messages(m)
            if encl:
                labs.add("nested_message")
            if len(encl) >= 4:
                labs.add("limit:nesting_depth_ge_5")
            if len(m.fields()) >= 200:
                labs.add("limit:fields_ge_200")
            if ref.nbits(m) >= 65519:
                labs.add("limit:message_bits_ge_65519")
            for fl in m.fields():
                if isinstance(fl.type, TArray) and fl.type.cap >= 65519:
                    labs.add("limit:capacity_ge_65519")
        nested_names = [it.name for m in iter_messages(f) for it in m.nested()]
        if len(nested_names) != len(set(nested_names)):
            labs.add("shared_nested_name")
    return sorted(labs)


def message_labels(m: Message) -> List[str]:
    labs: set = set()
    if m.ext:
        labs.add("ext_message")
    flds = m.fields()
    if not flds:
        labs.add("empty_message")
    nums = [f.number for f in flds]
    if nums != sorted(nums):
        labs.add("permuted_numbers")
    if ref.nbits(m) % 8:
        labs.add("total_not_mult8")
    lvs = ref.leaves(m)
    if len(lvs) >= 2:
        labs.add("multi_leaf")
    for lf in lvs:
        if lf.offset % 8:
            labs.add("unaligned_start")
        if lf.bits > 8:
            labs.add("width_gt8")
        if lf.bits > 32:
            labs.add("width_gt32")
        if lf.kind == "int" and lf.bits not in (8, 16, 32, 64):
            labs.add("signed_nonstd")
        if lf.kind == "int":
            labs.add("signed")
        if lf.kind == "enum":
            labs.add("enum_leaf")
            if (lf.offset % 8) + lf.bits > 8:
                labs.add("enum_straddle")
        if (lf.offset % 8) + lf.bits > 8:
            labs.add("straddle_byte")
    for f in flds:
        for t in _walk_field_types(f.type):
            if isinstance(t, TArray):
                labs.add("array")
                if t.ext:
                    labs.add("ext_array")
                et = resolve(t.elem)
                if isinstance(et, TArray):
                    labs.add("array_2d")
                if isinstance(et, Message):
                    labs.add("array_of_message")
                if isinstance(et, (TBase, Enum)) and ref.nbits(et) in (8, 16, 32, 64) and not (isinstance(et, TBase) and et.kind == "bool"):
                    labs.add("batch_array")
                if t.cap_text is not None:
                    labs.add("cap_const")
            if isinstance(t, Alias):
                labs.add("alias_use")
            if isinstance(t, Message):
                labs.add("nested_value")
                if t.ext:
                    labs.add("ext_message")
            if isinstance(t, TRef) and "." in t.text_:
                labs.add("dotted_ref")
            if isinstance(t, TRef) and file_of(t.target) is not file_of(m):
                labs.add("xfile_ref")
    return sorted(labs)


def _walk_field_types(t: Any):
    from .model import walk_types

    return walk_types(t)
