"""Own schema model for bitproto verification.

This model is deliberately independent of bitproto's AST: the reference
semantics in ref.py only ever look at these classes.  A *unit* is a list of
files; files hold definitions; types reference definitions by object identity
(`TRef.target`) plus the dotted text that is written into the schema.
"""

from __future__ import annotations

import base64
import pickle
from dataclasses import dataclass, field
from typing import Any, Dict, Iterator, List, Optional, Tuple, Union

# ---------------------------------------------------------------------------
# Types
# ---------------------------------------------------------------------------


@dataclass
class TBase:
    """bool / byte / uintN / intN"""

    kind: str  # 'bool' | 'byte' | 'uint' | 'int'
    bits: int = 0

    def __post_init__(self) -> None:
        if self.kind == "bool":
            self.bits = 1
        elif self.kind == "byte":
            self.bits = 8

    def text(self) -> str:
        if self.kind in ("bool", "byte"):
            return self.kind
        return f"{self.kind}{self.bits}"


@dataclass
class TRef:
    """Reference to a named type (Enum, Message, Alias) by dotted text."""

    text_: str
    target: Any  # Enum | Message | Alias   (the definition the text denotes)

    def text(self) -> str:
        return self.text_


@dataclass
class TArray:
    elem: Union[TBase, TRef]
    cap: int
    ext: bool = False
    cap_text: Optional[str] = None  # textual capacity if not the plain literal
    cap_const: Any = None  # the Const the capacity text refers to (if it is a reference)

    def text(self) -> str:
        cap = self.cap_text if self.cap_text is not None else str(self.cap)
        return f"{self.elem.text()}[{cap}]" + ("'" if self.ext else "")


Type = Union[TBase, TRef, TArray]

# ---------------------------------------------------------------------------
# Definitions
# ---------------------------------------------------------------------------


@dataclass(eq=False)
class Const:
    name: str
    value: Union[int, bool, str]
    text: Optional[str] = None  # right-hand side as written (None: canonical)
    parent: Any = None


@dataclass(eq=False)
class Alias:
    name: str
    type: Type
    parent: Any = None
    typedef_syntax: bool = False


@dataclass(eq=False)
class Enum:
    name: str
    bits: int
    members: List[Tuple[str, int]] = field(default_factory=list)
    parent: Any = None

    def values(self) -> List[int]:
        return [v for _, v in self.members]


@dataclass(eq=False)
class Field:
    name: str
    type: Type
    number: int
    parent: Any = None


@dataclass(eq=False)
class Message:
    name: str
    ext: bool = False
    # items in declaration order: Field | Enum | Message | ('option', name, value)
    items: List[Any] = field(default_factory=list)
    parent: Any = None
    max_bytes: Optional[int] = None  # option max_bytes if set (rendered first)

    def fields(self) -> List[Field]:
        return [x for x in self.items if isinstance(x, Field)]

    def sorted_fields(self) -> List[Field]:
        return sorted(self.fields(), key=lambda f: f.number)

    def nested(self) -> List[Union[Enum, "Message"]]:
        return [x for x in self.items if isinstance(x, (Enum, Message))]


Definition = Union[Const, Alias, Enum, Message]


@dataclass(eq=False)
class Import:
    file: "File"
    as_name: Optional[str] = None
    parent: Any = None
    spelling: Optional[str] = None  # the path as written, if not the plain file name ("./x.bitproto", "././x.bitproto")

    @property
    def path_text(self) -> str:
        """The import path as written: relative to the directory of the importing file (docs/language: import)."""
        if self.spelling:
            return self.spelling
        here = self.parent
        while here is not None and not isinstance(here, File):
            here = getattr(here, "parent", None)
        if here is None or (not here.subdir and not self.file.subdir):
            return self.file.filename
        import posixpath

        return posixpath.relpath(self.file.filename, posixpath.dirname(here.filename) or ".")

    @property
    def name(self) -> str:
        return self.as_name or self.file.proto


@dataclass(eq=False)
class File:
    proto: str  # proto name
    base: str  # file base name (without .bitproto)
    # items in declaration order: Import | Const | Alias | Enum | Message
    items: List[Any] = field(default_factory=list)
    options: List[Tuple[str, Union[int, bool, str]]] = field(default_factory=list)
    subdir: str = ""  # directory of the file below the source root ("" | "sub" | "sub/deep")

    @property
    def filename(self) -> str:
        return (self.subdir + "/" if self.subdir else "") + self.base + ".bitproto"

    def imports(self) -> List[Import]:
        return [x for x in self.items if isinstance(x, Import)]

    def defs(self) -> List[Definition]:
        return [x for x in self.items if not isinstance(x, Import)]

    def option(self, name: str, default: Any = None) -> Any:
        for k, v in self.options:
            if k == name:
                return v
        return default


@dataclass(eq=False)
class Unit:
    """A compilation unit: files in dependency order, the last is the main one."""

    files: List[File] = field(default_factory=list)

    @property
    def main(self) -> File:
        return self.files[-1]


# ---------------------------------------------------------------------------
# Walkers
# ---------------------------------------------------------------------------


def set_parents(unit: Unit) -> None:
    for f in unit.files:
        for it in f.items:
            it.parent = f
            if isinstance(it, Message):
                _set_parents_msg(it)


def _set_parents_msg(m: Message) -> None:
    for it in m.items:
        if isinstance(it, (Field, Enum, Message)):
            it.parent = m
        if isinstance(it, Message):
            _set_parents_msg(it)


def file_of(d: Any) -> File:
    while not isinstance(d, File):
        d = d.parent
    return d


def enclosing_messages(d: Any) -> List[Message]:
    """Enclosing messages of a definition, outermost first."""
    out: List[Message] = []
    p = d.parent
    while isinstance(p, Message):
        out.insert(0, p)
        p = p.parent
    return out


def iter_messages(scope: Union[File, Message]) -> Iterator[Message]:
    """All messages under a scope, children first (declaration order)."""
    for it in scope.items:
        if isinstance(it, Message):
            yield from iter_messages(it)
            yield it


def iter_enums(scope: Union[File, Message]) -> Iterator[Enum]:
    for it in scope.items:
        if isinstance(it, Message):
            yield from iter_enums(it)
        elif isinstance(it, Enum):
            yield it


def iter_defs(scope: Union[File, Message]) -> Iterator[Any]:
    """All named definitions (const, alias, enum, message), children first."""
    for it in scope.items:
        if isinstance(it, Message):
            yield from iter_defs(it)
            yield it
        elif isinstance(it, (Const, Alias, Enum)):
            yield it


def unit_messages(unit: Unit) -> List[Message]:
    out: List[Message] = []
    for f in unit.files:
        out.extend(iter_messages(f))
    return out


def resolve(t: Type) -> Any:
    """Strip aliases: returns TBase | TArray | Enum | Message."""
    while isinstance(t, TRef) and isinstance(t.target, Alias):
        t = t.target.type
    if isinstance(t, TRef):
        return t.target
    return t


def walk_types(t: Type) -> Iterator[Any]:
    """Yields every type node/definition reachable from t (transitively)."""
    yield t
    if isinstance(t, TArray):
        yield from walk_types(t.elem)
    elif isinstance(t, TRef):
        d = t.target
        yield d
        if isinstance(d, Alias):
            yield from walk_types(d.type)
        elif isinstance(d, Message):
            for f in d.fields():
                yield from walk_types(f.type)


def message_closure_types(m: Message) -> List[Any]:
    out: List[Any] = [m]
    for f in m.fields():
        out.extend(walk_types(f.type))
    return out


# ---------------------------------------------------------------------------
# Serialisation (replay files)
# ---------------------------------------------------------------------------


def dumps(obj: Any) -> str:
    return base64.b64encode(pickle.dumps(obj, protocol=4)).decode("ascii")


def loads(s: str) -> Any:
    return pickle.loads(base64.b64decode(s.encode("ascii")))
