"""Execute generated Go through the Go-subset interpreter, driven by the model."""

from __future__ import annotations

import os
from typing import Any, Dict, List, Optional, Tuple

from . import env, ref
from .gointerp import RUNTIME_IMPORT_PATH, GoCompileError, GoPanic, GoSyntaxError, GoUnsupported, Program
from .model import Enum, File, Message, TArray, TBase, Unit, file_of, resolve

_rt_src: Optional[str] = None


def runtime_source() -> str:
    global _rt_src
    if _rt_src is None:
        with open(os.path.join(env.GOLIB_DIR, "bitproto.go")) as f:
            _rt_src = f.read()
    return _rt_src


def go_pkg_path(f: File) -> str:
    return f.option("go.package_path", "") or f"{f.proto}_bp"


class GoUnit:
    """All generated Go packages of a unit loaded into one Program."""

    def __init__(self, unit: Unit, godir: str, max_steps: Optional[int] = None):
        self.unit = unit
        pk: Dict[str, List[str]] = {RUNTIME_IMPORT_PATH: [runtime_source()]}
        for f in unit.files:
            with open(os.path.join(godir, f.base + "_bp.go")) as fh:
                pk.setdefault(go_pkg_path(f), []).append(fh.read())
        self.prog = Program(pk, max_steps=max_steps)

    def pkg(self, d: Any) -> str:
        return go_pkg_path(file_of(d))

    def struct_name(self, m: Message) -> str:
        return ref.go_struct_name(m)

    def new(self, m: Message) -> Any:
        return self.prog.new(self.pkg(m), self.struct_name(m))

    # value trees <-> Go structs: walk by position (both sides are in field-number order)
    def to_go(self, m: Message, v: Dict[str, Any]) -> Dict[str, Any]:
        info = self.prog.type_info(self.pkg(m), self.struct_name(m))
        names = [fl["name"] for fl in info["fields"]]
        flds = m.sorted_fields()
        assert len(names) == len(flds), (names, [f.name for f in flds])
        return {gn: self._to_go(f.type, v[f.name]) for gn, f in zip(names, flds)}

    def _to_go(self, t: Any, x: Any) -> Any:
        rt = resolve(t)
        if isinstance(rt, TBase):
            return bool(x) if rt.kind == "bool" else int(x)
        if isinstance(rt, Enum):
            return int(x)
        if isinstance(rt, TArray):
            return [self._to_go(rt.elem, e) for e in x]
        if isinstance(rt, Message):
            return self.to_go(rt, x)
        raise TypeError(rt)

    def from_go(self, m: Message, g: Dict[str, Any]) -> Dict[str, Any]:
        info = self.prog.type_info(self.pkg(m), self.struct_name(m))
        names = [fl["name"] for fl in info["fields"]]
        flds = m.sorted_fields()
        return {f.name: self._from_go(f.type, g[gn]) for gn, f in zip(names, flds)}

    def _from_go(self, t: Any, x: Any) -> Any:
        rt = resolve(t)
        if isinstance(rt, (TBase, Enum)):
            return x
        if isinstance(rt, TArray):
            return [self._from_go(rt.elem, e) for e in x]
        if isinstance(rt, Message):
            return self.from_go(rt, x)
        raise TypeError(rt)

    def encode(self, m: Message, v: Dict[str, Any]) -> bytes:
        r = self.new(m)
        self.prog.set_py(r, self.to_go(m, v))
        return bytes(self.prog.call_method(r, "Encode"))

    def decode(self, m: Message, data: bytes) -> Dict[str, Any]:
        r = self.new(m)
        self.prog.call_method(r, "Decode", bytes(data))
        return self.from_go(m, self.prog.get_py(r))

    def size(self, m: Message) -> int:
        return int(self.prog.call_method(self.new(m), "Size"))

    def size_const(self, m: Message) -> Tuple[int, str]:
        return self.prog.const(self.pkg(m), "BYTES_LENGTH_" + ref.upper_snake(self.struct_name(m)))
