"""model -> .bitproto text, with style knobs and a source map."""

from __future__ import annotations

import re
from dataclasses import dataclass, field
from typing import Any, Dict, List, Optional, Tuple

from .model import (
    Alias,
    Const,
    Enum,
    Field,
    File,
    Import,
    Message,
    TArray,
    TBase,
    TRef,
    Unit,
)


@dataclass
class Style:
    indent: int = 4
    semicolons: str = "none"  # none | all | mixed
    comments: bool = False
    blank_lines: int = 1  # blank lines between top-level definitions
    leading_blank: int = 0  # blank/comment lines before 'proto'
    hex_numbers: bool = False  # enum values / const literals in hex where allowed
    brace_same_line_body: bool = False  # `message X { ... }` members on one line (with ;)
    seed: int = 0  # varies 'mixed' choices deterministically
    trailing_newline: bool = True
    spicy_comments: bool = False  # comment TEXT that is special in some target language (documentation must stay documentation)
    trailing_comments: bool = False  # `// ...` after a statement on the same line
    proto_late: bool = False  # the `proto` statement is the LAST statement of the file instead of the first
    crlf: bool = False  # lines end in CR LF (a file written on Windows)
    join_statements: bool = False  # `a = 1; b = 2` on one line after a semicolon (needs semicolons all/mixed)
    op_spacing: bool = False  # blanks around the operators and the `=` of integer constants vary: `A-1`, `A -1`, `A- 1`, tabs


# one-line comment texts: each is harmless in a schema and must stay harmless in the generated C / Go / Python
SPICY_COMMENTS = [
    "ends with a backslash \\",
    "windows path C:\\users\\new\\x41\\N{DASH}",
    "glob /var/log/*/current and */*.log",
    "opens /* a block",
    'a.k.a. "hi"',
    'triple """ quote',
    "triple ''' quote and it's",
    'ends with a quote "',
    "printf %s %d %n {0} {name} ${x} %",
    "#include <x.h> #define X 1",
    "nested // slashes /// and ////",
    "a tab\there and trailing star *",
    "unit: \u00b0C = (\u00b0F - 32) / 1.8 \u2713",
    "??/ trigraph ??/",
    "semicolon; brace } { bracket ] quote ' end",
    "ends with two backslashes \\\\",
    "\\",
    # characters that str.splitlines() / some editors treat as line breaks but the schema language does not (only LF ends a line)
    "page break \x0c here",
    "vertical \x0b tab and separators \x1c \x1d \x1e",
    "next line \x85 and line \u2028 paragraph \u2029 separators",
]


_OP = re.compile(r" ([-+*/]) ")
_OP_SPELLINGS = [" o ", "o", " o", "o ", "\to\t", "  o", "o  "]


@dataclass
class SrcEntry:
    kind: str  # 'def' | 'ref' | 'member' | 'option' | 'import' | 'proto'
    obj: Any
    token: str
    line: int  # 1-based
    col: int  # 1-based
    extra: Any = None


class _Emitter:
    def __init__(self, style: Style):
        self.style = style
        self.lines: List[str] = []
        self.cur = ""
        self.map: List[SrcEntry] = []
        self.counter = style.seed

    def pick(self, n: int) -> int:
        # deterministic pseudo-choice for 'mixed' styles (no RNG: pure function of seed+position)
        self.counter = (self.counter * 1103515245 + 12345) & 0x7FFFFFFF
        return (self.counter >> 8) % n

    def write(self, s: str) -> None:
        self.cur += s

    def mark(self, kind: str, obj: Any, token: str, extra: Any = None) -> None:
        self.map.append(SrcEntry(kind, obj, token, len(self.lines) + 1, len(self.cur) + 1, extra))
        self.cur += token

    def nl(self) -> None:
        code = self.cur.strip()
        if code and "//" not in self.cur:
            if self.style.join_statements and code.endswith(";") and self.pick(3) == 0:
                # the optional semicolon separates statements: the next one may follow on the same line
                self.cur += " "
                return
            if self.style.trailing_comments and self.pick(5) == 0:
                text = SPICY_COMMENTS[self.pick(len(SPICY_COMMENTS))] if self.style.spicy_comments and self.pick(2) == 0 else "trailing note"
                self.cur += " // " + text
        self.lines.append(self.cur)
        self.cur = ""

    def semi(self) -> str:
        st = self.style.semicolons
        if st == "all":
            return ";"
        if st == "mixed":
            return ";" if self.pick(2) else ""
        return ""

    def text(self) -> str:
        if self.cur:
            # (not nl(): a pending joined statement must not be held back at the end of the file)
            self.lines.append(self.cur.rstrip(" "))
            self.cur = ""
        eol = "\r\n" if self.style.crlf else "\n"
        t = eol.join(self.lines)
        if self.style.trailing_newline:
            t += eol
        return t


def escape_string(s: str) -> str:
    out = []
    for ch in s:
        if ch == "\\":
            out.append("\\\\")
        elif ch == '"':
            out.append('\\"')
        elif ch == "\n":
            out.append("\\n")
        else:
            out.append(ch)
    return '"' + "".join(out) + '"'


def fmt_value(v: Any, hexa: bool = False) -> str:
    if v is True:
        return "true"
    if v is False:
        return "false"
    if isinstance(v, int):
        return hex(v) if hexa else str(v)
    return escape_string(v)


def render_file(f: File, style: Optional[Style] = None) -> Tuple[str, List[SrcEntry]]:
    style = style or Style()
    em = _Emitter(style)
    for _ in range(style.leading_blank):
        if style.comments and em.pick(2):
            em.write("// leading comment")
        em.nl()
    def proto_statement() -> None:
        if style.comments:
            em.write(f"// proto {f.proto}")
            em.nl()
        em.write("proto ")
        em.mark("proto", f, f.proto)
        em.write(em.semi())
        em.nl()

    if not style.proto_late:
        proto_statement()
    first = True
    for name, value in f.options:
        if first:
            if not style.proto_late:
                em.nl()
            first = False
        em.write("option ")
        em.mark("option", f, name, value)
        em.write(" = " + fmt_value(value) + em.semi())
        em.nl()
    for k, it in enumerate(f.items):
        for _ in range(style.blank_lines if (k or not style.proto_late or f.options) else 0):
            em.nl()
        _render_item(em, it, 0)
    if style.proto_late:
        # the `proto` statement may stand anywhere at file level; written last, the file BEGINS with a definition
        for _ in range(style.blank_lines if (f.items or f.options) else 0):
            em.nl()
        proto_statement()
    return em.text(), em.map


def _comment(em: _Emitter, depth: int, text: str) -> None:
    if em.style.comments and em.pick(3) == 0:
        if em.style.spicy_comments and em.pick(2) == 0:
            text = SPICY_COMMENTS[em.pick(len(SPICY_COMMENTS))]
        em.write(" " * (em.style.indent * depth) + "// " + text)
        em.nl()


def _render_type(em: _Emitter, t: Any, owner: Any) -> None:
    if isinstance(t, TBase):
        em.write(t.text())
    elif isinstance(t, TRef):
        em.mark("ref", t, t.text_, owner)
    elif isinstance(t, TArray):
        _render_type(em, t.elem, owner)
        cap = t.cap_text if t.cap_text is not None else str(t.cap)
        em.write("[")
        if t.cap_text is not None and not t.cap_text.isdigit():
            em.mark("capref", t, cap, owner)
        else:
            em.write(cap)
        em.write("]" + ("'" if t.ext else ""))
    else:
        raise TypeError(t)


def _render_item(em: _Emitter, it: Any, depth: int) -> None:
    ind = " " * (em.style.indent * depth)
    if isinstance(it, Import):
        em.write(ind + "import ")
        if it.as_name:
            em.mark("import", it, it.as_name)
            em.write(" ")
        em.write(f'"{it.path_text}"' + em.semi())
        em.nl()
    elif isinstance(it, Const):
        _comment(em, depth, f"constant {it.name}")
        em.write(ind + "const ")
        em.mark("def", it, it.name)
        rhs = it.text if it.text is not None else fmt_value(it.value, em.style.hex_numbers and isinstance(it.value, int) and not isinstance(it.value, bool))
        eq = " = "
        if em.style.op_spacing and isinstance(it.value, int) and not isinstance(it.value, bool):
            # blanks are insignificant between tokens: every spelling denotes the same expression
            rhs = _OP.sub(lambda mo: _OP_SPELLINGS[em.pick(len(_OP_SPELLINGS))].replace("o", mo.group(1)), rhs)
            eq = ["=", " = ", " =", "= ", "\t=\t"][em.pick(5)]
        em.write(eq + rhs + em.semi())
        em.nl()
    elif isinstance(it, Alias):
        _comment(em, depth, f"alias {it.name}")
        if it.typedef_syntax:
            em.write(ind + "typedef ")
            _render_type(em, it.type, it)
            em.write(" ")
            em.mark("def", it, it.name)
        else:
            em.write(ind + "type ")
            em.mark("def", it, it.name)
            em.write(" = ")
            _render_type(em, it.type, it)
        em.write(em.semi())
        em.nl()
    elif isinstance(it, Enum):
        _comment(em, depth, f"enum {it.name}")
        em.write(ind + "enum ")
        em.mark("def", it, it.name)
        em.write(f" : uint{it.bits} {{")
        em.nl()
        ind2 = " " * (em.style.indent * (depth + 1))
        for name, value in it.members:
            _comment(em, depth + 1, name)
            em.write(ind2)
            em.mark("member", it, name, value)
            em.write(" = " + fmt_value(value, em.style.hex_numbers) + em.semi())
            em.nl()
        em.write(ind + "}")
        em.nl()
    elif isinstance(it, Message):
        _comment(em, depth, f"message {it.name}")
        em.write(ind + "message ")
        em.mark("def", it, it.name)
        em.write(("'" if it.ext else "") + " {")
        em.nl()
        ind2 = " " * (em.style.indent * (depth + 1))
        if it.max_bytes is not None:
            em.write(ind2 + "option ")
            em.mark("option", it, "max_bytes", it.max_bytes)
            em.write(f" = {it.max_bytes}" + em.semi())
            em.nl()
        for sub in it.items:
            if isinstance(sub, Field):
                _comment(em, depth + 1, sub.name)
                em.write(ind2)
                _render_type(em, sub.type, sub)
                em.write(" ")
                em.mark("def", sub, sub.name)
                em.write(f" = {sub.number}" + em.semi())
                em.nl()
            else:
                _render_item(em, sub, depth + 1)
        em.write(ind + "}")
        em.nl()
    else:
        raise TypeError(it)


def render_unit(unit: Unit, style: Optional[Style] = None) -> Dict[str, str]:
    return {f.filename: render_file(f, style)[0] for f in unit.files}


def render_unit_with_map(unit: Unit, style: Optional[Style] = None) -> Tuple[Dict[str, str], Dict[str, List[SrcEntry]]]:
    texts: Dict[str, str] = {}
    maps: Dict[str, List[SrcEntry]] = {}
    for f in unit.files:
        t, m = render_file(f, style)
        texts[f.filename] = t
        maps[f.filename] = m
    return texts, maps
