"""C08 — A schema is accepted if and only if it satisfies the documented constraints."""

from __future__ import annotations

import os
import re
from dataclasses import asdict, dataclass, field
from typing import Any, Dict, List, Optional, Tuple

from hypothesis import strategies as st

from .. import bpapi, env, render_bp, strategies as S, violations as V
from ..model import Alias, Const, Enum, Field, File, Import, Message, TArray, TBase, TRef, Unit, iter_enums, iter_messages, set_parents
from ..runner import FuncPart, HarnessError, HypPart, Stats, Violation

ID = "C08"
LEVEL = "exploration"
TECHNIQUE = "single-violation mutation against an independent rule checker + complete boundary enumeration"
RULE = (
    "Three parts. 'valid': units of the common generator (nesting, imports incl. transitive and nested cross-file references, "
    "empty enums; schema text in generated styles: indentation, semicolons, comments whose text is special in a target language, trailing comments, CR LF, no final newline) decorated with VALID options (max_bytes == nbytes / larger / 0, the four documented file options) and pushed "
    "onto boundaries (width 64, field number 255, enum value 2^w-1, capacity 65535, a message padded to exactly 65535 bits "
    "prefix included); oracle: bpverif.violations.problems() (my rule checker over my model) finds nothing => parse() of every "
    "file returns, and on a sample main()/the real CLI exit 0 and write the output files. 'invalid': the same units with exactly "
    "ONE planted violation, one injector per catalogue entry (width, capacity, field_number, enum_value, name, size, alias, "
    "array_dim, scope, option, reference, import; ~130 variants) at a generated position (file scope / inside a message or enum "
    "/ nested deeper; in the compiled file / in a directly or transitively imported file), rendered in a generated style "
    "(indent, semicolons, comments, blank lines, hex); model-level where the model can express it, text-level at a source-map "
    "line otherwise; the rule checker must report exactly the planted problem (else harness error); oracle: parse() raises "
    "ParserError (acceptance or any other exception is a violation) whose text cites <file>:L<line> with the file the violation "
    "was planted in and the line of the offending statement -- EXACT line for every variant whose offending token is unique "
    "(all but the following), EITHER of the two participants for duplicates (names, numbers, values, imports), ANY import "
    "statement of the cycle for cyclic imports, and ANY line of the message's extent (name line .. closing brace) for the two "
    "size limits; on every second case main() must exit non-zero through fatal() with the same citation on stderr and leave the "
    "output directory empty; the real CLI likewise on a 2.5 % sample (boundary part: main() always, CLI every 8th). 'boundary': COMPLETE enumeration of both sides of every numeric limit (width 0/1/64/65 "
    "x uint/int x field/array element/alias/enum; capacity 0/1/65535/65536 x literal/constant x plain/extensible; field number "
    "0/1/255/256; enum value 2^w-1 / 2^w for 11 widths; message of 65535 / 65536 bits x with/without own prefix x 5 "
    "compositions incl. extensible children and arrays whose prefixes count; max_bytes = n/n-1/n+1/0 for 7 sizes; alignment "
    "0/8/9) x 4 positions (top, nested, imported, imported+nested). evaluations = compiler invocations judged. Non-trivial: every "
    "mutant and every boundary point; valid generated units when they sit on a boundary; distinct by (texts, main)."
)
ASSUMPTIONS = [
    "the property statement's catalogue is the specification; docs/language.rst supplies the option table (max_bytes = 0 means no limit) and the scoping rule",
    "c.struct_packing_alignment range 0..8 is taken as documented (N6 belongs to C10)",
    "a division by zero in a constant expression is not generated (D1 belongs to C09/C13)",
    "duplicate OPTION names in one scope are not generated (the catalogue speaks of names of definitions)",
    "capacity 65536 is planted in aliases only: in a field it would necessarily break the message size limit as well",
    "for import cycles the schema is compiled from a file on the cycle whose first path closes the planted cycle",
]
REQUIRED_LABELS = (
    ["rule:" + r for r in V.RULES]
    + ["pos:file-scope", "pos:in-message-or-enum", "pos:nested", "pos:imported-file", "pos:imported-transitively", "pos:main-file"]
    + ["cite:exact", "cite:either/extent", "cli:reject", "cli:accept", "main:accept", "valid:boundary", "valid:max_bytes==nbytes", "valid:bits=65535"]
)

LANGS = ["c", "go", "py"]
CITE = re.compile(r"(\S+):L(\d+)")


# ---------------------------------------------------------------------------
# Observing the compiler
# ---------------------------------------------------------------------------


def _files_in(d: str) -> List[str]:
    out = []
    for root, _, names in os.walk(d):
        for n in names:
            out.append(os.path.relpath(os.path.join(root, n), d))
    return sorted(out)


def _citation(text: str) -> Optional[Tuple[str, int]]:
    m = CITE.search(text)
    if not m:
        return None
    return os.path.basename(m.group(1)), int(m.group(2))


def check_rejected(m: V.Mutant, stats: Stats, lang: str = "c", with_main: bool = True, with_cli: bool = False) -> bool:
    """The mutant must be refused as the property says.  Returns False when the case was
    attributed to a recorded finding."""
    d = env.scratch_dir("c08")
    try:
        bpapi.write_files(d, m.texts)
        path = os.path.join(d, m.main)
        what = f"[{m.rule}/{m.variant}, planted at {m.allowed[:4]}{'...' if len(m.allowed) > 4 else ''}]"
        stats.evaluations += 1
        try:
            bpapi.parse(path)
        except bpapi.ParserError as e:
            err = e
        except Exception as e:  # noqa: BLE001 - anything else escaping is what the property forbids
            if m.finding == "C08-N1" and isinstance(e, AttributeError) and "'NoneType' object has no attribute 'filepath'" in str(e):
                stats.known_finding("C08-N1", f"import inside a message: {type(e).__name__}: {e}")
                return False
            raise Violation(f"{type(e).__name__}: {e} escaped from parse() instead of a ParserError {what}", signature=f"escape:{type(e).__name__}:{m.rule}")
        else:
            raise Violation(f"schema with one planted violation was ACCEPTED {what}", signature=f"accepted:{m.rule}:{m.variant.split(':')[0]}")
        text = str(err)
        cite = _citation(text)
        if cite is None or cite not in [tuple(a) for a in m.allowed]:
            if m.finding == "C08-N2" and cite is not None and cite[1] == 0 and cite[0] != m.allowed[0][0]:
                stats.known_finding("C08-N2", f"import inside an enum is reported against the imported file, line 0: {text.replace(d, '')}")
                return False
            raise Violation(
                f"rejected, but the error does not cite the offending file and line: got {cite}, acceptable {m.allowed[:6]} {what}: {text.replace(d, '')}",
                signature=f"cite:{m.rule}:{m.variant.split(':')[0]}",
            )
        stats.count("cite:exact" if m.exact else "cite:either/extent")
        stats.count("error:" + type(err).__name__)
        if with_main:
            out = os.path.join(d, "out")
            os.makedirs(out)
            stats.evaluations += 1
            res = bpapi.main_inprocess(path, lang, out)
            if res.exc is not None:
                raise Violation(f"main() let {type(res.exc).__name__}: {res.exc} escape (the CLI would print a traceback) {what}", signature=f"main-escape:{m.rule}")
            if res.code == 0:
                raise Violation(f"main() exit status 0 for a schema parse() refuses {what}", signature=f"main-exit0:{m.rule}")
            if _citation(res.stderr) != cite:
                raise Violation(f"main() stderr does not carry the parser error's citation {cite}: {res.stderr.replace(d, '')[:400]} {what}", signature="main-stderr")
            if _files_in(out):
                raise Violation(f"rejected schema left generated files {_files_in(out)} {what}", signature="main-files")
            stats.count("main:reject")
        if with_cli:
            out2 = os.path.join(d, "out_cli")
            os.makedirs(out2)
            stats.evaluations += 1
            r = bpapi.cli([lang, path, out2])
            if r.returncode == 0:
                raise Violation(f"CLI exit status 0 for a schema parse() refuses {what}", signature=f"cli-exit0:{m.rule}")
            if "Traceback" in r.stderr or _citation(r.stderr) != cite:
                raise Violation(f"CLI stderr is not the parser error citing {cite}: {r.stderr.replace(d, '')[-600:]} {what}", signature="cli-stderr")
            if _files_in(out2):
                raise Violation(f"CLI left generated files {_files_in(out2)} for a rejected schema {what}", signature="cli-files")
            stats.count("cli:reject")
        return True
    finally:
        env.rmtree(d)


def expected_outputs(base: str, lang: str) -> List[str]:
    # docs/compiler.rst + language guides: <file base name>_bp.<ext>
    return {"c": [base + "_bp.c", base + "_bp.h"], "go": [base + "_bp.go"], "py": [base + "_bp.py"]}[lang]


def check_accepted(texts: Dict[str, str], mains: List[str], stats: Stats, lang: Optional[str] = None, with_cli: bool = False, what: str = "") -> None:
    d = env.scratch_dir("c08")
    try:
        bpapi.write_files(d, texts)
        for main in mains:
            path = os.path.join(d, main)
            stats.evaluations += 1
            try:
                bpapi.parse(path)
            except bpapi.ParserError as e:
                raise Violation(f"valid schema {main} REJECTED {what}: {str(e).replace(d, '')}", signature=f"rejected:{type(e).__name__}")
            except Exception as e:  # noqa: BLE001
                raise Violation(f"valid schema {main}: {type(e).__name__}: {e} escaped from parse() {what}", signature=f"valid-escape:{type(e).__name__}")
        if lang is not None:
            main = mains[0]
            path = os.path.join(d, main)
            base = main[: -len(".bitproto")]
            out = os.path.join(d, "out")
            os.makedirs(out)
            stats.evaluations += 1
            res = bpapi.main_inprocess(path, lang, out)
            if res.exc is not None or res.code != 0:
                raise Violation(f"main({lang}) fails on a valid schema: code={res.code} exc={res.exc!r} stderr={res.stderr.replace(d, '')[-400:]} {what}", signature=f"main-valid:{lang}")
            got = _files_in(out)
            if got != expected_outputs(base, lang) or any(os.path.getsize(os.path.join(out, g)) == 0 for g in got):
                raise Violation(f"main({lang}) exit 0 but output files are {got}, expected {expected_outputs(base, lang)} {what}", signature="main-valid-files")
            stats.count("main:accept")
            if with_cli:
                out2 = os.path.join(d, "out_cli")
                os.makedirs(out2)
                stats.evaluations += 1
                r = bpapi.cli([lang, path, out2])
                if r.returncode != 0:
                    raise Violation(f"CLI {lang} exit {r.returncode} on a valid schema: {r.stderr.replace(d, '')[-400:]} {what}", signature=f"cli-valid:{lang}")
                if _files_in(out2) != expected_outputs(base, lang):
                    raise Violation(f"CLI {lang} exit 0 but output files are {_files_in(out2)} {what}", signature="cli-valid-files")
                stats.count("cli:accept")
    finally:
        env.rmtree(d)


# ---------------------------------------------------------------------------
# Part 'valid'
# ---------------------------------------------------------------------------


@dataclass
class ValidCase:
    unit: Unit
    style: render_bp.Style
    labels: List[str]
    lang: Optional[str]
    with_cli: bool


def push_to_boundary(draw: Any, unit: Unit) -> List[str]:
    """Moves a valid unit ONTO limits (still valid)."""
    labels: List[str] = []
    cx = V.Ctx(draw, unit)
    for _ in range(draw(st.integers(0, 3))):
        k = draw(st.sampled_from(["num255", "num1", "width64", "enum_top", "cap65535_alias", "bits65535", "cap65535_field", "width1"]))
        msgs = [m for f in unit.files for m in iter_messages(f)]
        free = [m for m in msgs if id(m) not in cx.referenced]
        if k in ("num255", "num1"):
            n = 255 if k == "num255" else 1
            m = draw(st.sampled_from(msgs))
            if all(f.number != n for f in m.fields()):
                if m.fields() and draw(st.booleans()):
                    draw(st.sampled_from(m.fields())).number = n
                elif id(m) not in cx.referenced and V.message_bits(m) < 60000:
                    cx.add_field(m, TBase("bool"), number=n)
                else:
                    continue
                labels.append("field_number=" + str(n))
        elif k in ("width64", "width1") and free:
            m = draw(st.sampled_from(free))
            if V.message_bits(m) < 60000:
                w = 64 if k == "width64" else 1
                t: Any = TBase(draw(st.sampled_from(["uint", "int"])), w)
                if draw(st.integers(0, 2)) == 0:
                    t = TArray(t, draw(st.integers(1, 3)))
                cx.add_field(m, t)
                labels.append("width=" + str(w))
        elif k == "enum_top":
            es = [e for f in unit.files for e in iter_enums(f)]
            if es:
                e = draw(st.sampled_from(es))
                top = (1 << e.bits) - 1
                if top not in e.values():
                    e.members.insert(draw(st.integers(0, len(e.members))), (cx.member_name(), top))
                labels.append("enum_value=2^w-1")
        elif k == "cap65535_alias":
            f = cx.file()
            a = Alias(cx.type_name(), TArray(V._base(cx), 65535, ext=draw(st.booleans())))
            cx.put(f, a)
            labels.append("capacity=65535")
        elif k == "cap65535_field":
            m = cx.new_message(cx.file() if draw(st.booleans()) else draw(st.sampled_from(msgs)))
            m.ext = False
            cx.add_field(m, TArray(TBase("bool"), 65535))
            labels.extend(["capacity=65535", "bits=65535"])
        elif k == "bits65535" and free:
            m = draw(st.sampled_from(free))
            room = 65535 - V.message_bits(m)
            if room > 0:
                ext = draw(st.integers(0, 3)) == 0 and room > 16
                if ext:
                    cx.add_field(m, TArray(TBase("bool"), room - 16, ext=True))
                elif room <= 64 and draw(st.booleans()):
                    cx.add_field(m, TBase("uint", room))
                else:
                    cx.add_field(m, TArray(TBase("bool"), room))
            labels.append("bits=65535")
    set_parents(unit)
    return labels


@st.composite
def valid_cases(draw: Any) -> ValidCase:
    unit = draw(S.units(V.FEATURES))
    labels = push_to_boundary(draw, unit)
    labels += V.decorate(draw, unit)
    style = draw(V.styles())
    r = draw(st.integers(0, (1 << 20) - 1)) % 40  # (a wide range modulo n: Hypothesis favours small integers)
    lang = draw(st.sampled_from(LANGS)) if r < 8 else None
    return ValidCase(unit, style, sorted(set(labels)), lang, r == 3)


def describe_valid(c: ValidCase) -> Any:
    return {"files": render_bp.render_unit(c.unit, c.style), "labels": c.labels, "lang": c.lang}


def run_valid(c: ValidCase, stats: Stats) -> None:
    for f in c.unit.files:
        ps = V.problems(c.unit, f)
        if ps:
            raise HarnessError(f"valid-by-construction unit judged invalid by the rule checker: {ps[:3]}")
    texts = render_bp.render_unit(c.unit, c.style)
    main = c.unit.main
    mains = [main.filename] + [f.filename for f in c.unit.files if not V.reachable(main, f)]
    lang = c.lang
    if any(not e.members for f in c.unit.files for e in iter_enums(f)):
        stats.count("valid:empty_enum_rendered:" + str(lang))  # (D3/N2, repaired in 43e3cf1: rendered like any other schema)
    check_accepted(texts, mains, stats, lang, c.with_cli)
    for lab in c.labels:
        stats.count("valid:" + lab)
    stats.count(*S.unit_labels(c.unit))
    if len(c.unit.files) > 1:
        stats.count("valid:imports")
    if c.labels and any(("=" in l) for l in c.labels):
        stats.count("valid:boundary")
        stats.mark_nontrivial(texts, main.filename)
    if len(str(texts)) < 1200:
        stats.sample({"kind": "valid", "files": texts, "labels": c.labels})


# ---------------------------------------------------------------------------
# Part 'invalid'
# ---------------------------------------------------------------------------


@dataclass
class InvalidCase:
    mutant: V.Mutant
    lang: str
    with_main: bool
    with_cli: bool


@st.composite
def invalid_cases(draw: Any) -> InvalidCase:
    rule = V.WEIGHTED_RULES[draw(st.integers(0, (1 << 20) - 1)) % len(V.WEIGHTED_RULES)]
    m = draw(V.mutants(rules=[rule]))
    r = draw(st.integers(0, (1 << 20) - 1)) % 40
    return InvalidCase(m, draw(st.sampled_from(LANGS)), r % 2 == 1, r == 3)


def describe_invalid(c: InvalidCase) -> Any:
    return {"mutant": asdict(c.mutant), "lang": c.lang}


def run_invalid(c: InvalidCase, stats: Stats) -> None:
    m = c.mutant
    if not V.verdict_ok(m):
        raise HarnessError(f"injector {m.rule}/{m.variant} did not plant exactly one violation: rule checker says {m.verdict}")
    stats.count("rule:" + m.rule, f"variant:{m.rule}:{m.variant.split(':')[0]}", *m.position)
    if check_rejected(m, stats, c.lang, with_main=c.with_main, with_cli=c.with_cli):
        stats.mark_nontrivial(m.texts, m.main)
        if len(str(m.texts)) < 900:
            stats.sample({"kind": "invalid", "rule": m.rule, "variant": m.variant, "files": m.texts, "compile": m.main, "must_cite": m.allowed})


# ---------------------------------------------------------------------------
# Part 'boundary': complete enumeration of both sides of every numeric limit
# ---------------------------------------------------------------------------

POSITIONS = ["top", "nested", "imported", "imported-nested"]


class Scaffold:
    """basis.bitproto <- drone.bitproto with a nesting chain; `probe` is an empty message at the position."""

    def __init__(self, position: str):
        self.position = position
        be = Enum("Tone", 3, [("EV_ALFA", 0), ("EV_BETA", 5)])
        shell = Message("Shell")
        shell.items = [Field("alt", TBase("bool"), 1)]
        basis = File("basis", "basis")
        basis.items = [be, shell]
        inner = Message("Inner")
        inner.items = [Field("lat", TBase("uint", 5), 1)]
        outer = Message("Outer", ext=True)
        outer.items = [Field("lon", TBase("bool"), 3), inner, Field("yaw", TRef("Inner", inner), 2), Field("tone", TRef("basis.Tone", be), 1)]
        main = File("drone", "drone")
        main.items = [Import(basis), Const("K_ALPHA", 2), outer]
        self.unit = Unit([basis, main])
        self.main = main
        self.file = main if position in ("top", "nested") else basis
        self.names = iter(["Probe", "Quilt", "Raven", "Ridge", "River", "Robin", "Rover", "Sable"])
        # the scope that holds the probe message / probe enum
        self.scope: Any = {"top": main, "nested": inner, "imported": basis, "imported-nested": shell}[position]
        self.probe = Message(next(self.names))
        self.scope.items.append(self.probe)
        set_parents(self.unit)
        self.depth = 0 if isinstance(self.scope, File) else (2 if position == "nested" else 1)

    def type_name(self) -> str:
        return next(self.names)

    def file_insert_before_scope(self, d: Any) -> None:
        """Declare d at file scope before the top-level item that encloses the probe."""
        top = self.probe
        while not isinstance(top.parent, File):
            top = top.parent
        i = [k for k, x in enumerate(self.file.items) if x is top][0]
        self.file.items.insert(i, d)
        set_parents(self.unit)

    def planted(self, rule: str, variant: str, anchors: List[Tuple[Any, ...]], depth_extra: int = 1) -> V.Planted:
        return V.Planted(rule, variant, self.file, anchors, depth=self.depth + depth_extra, main=self.main)


def _jobs() -> List[Tuple[Any, ...]]:
    out: List[Tuple[Any, ...]] = []
    for pos in POSITIONS:
        for kind in ("uint", "int"):
            for bits in (0, 1, 64, 65):
                for site in ("field", "field_array"):
                    out.append(("width", kind, bits, site, pos))
                if pos in ("top", "imported"):
                    for site in ("alias", "alias_array"):
                        out.append(("width", kind, bits, site, pos))
        for bits in (0, 1, 64, 65):
            out.append(("enum_width", bits, pos))
        for cap in (0, 1, 65535):
            for by_const in (False, True):
                out.append(("cap_field", cap, by_const, pos))
        if pos in ("top", "imported"):
            for cap in (0, 1, 65535, 65536):
                for ext in (False, True):
                    for by_const in (False, True):
                        out.append(("cap_alias", cap, ext, by_const, pos))
            for al in (0, 8, 9):
                out.append(("alignment", al, pos))
        for n in (0, 1, 255, 256):
            out.append(("field_number", n, pos))
        for w in (1, 2, 7, 8, 9, 16, 31, 32, 33, 63, 64):
            for over in (False, True):
                out.append(("enum_value", w, over, pos))
        for total in (65535, 65536):
            for ext in (False, True):
                for shape in V.SIZE_SHAPES:
                    out.append(("bits", total, ext, shape, pos))
        for bits in (1, 8, 9, 16, 17, 4096, 65535):
            for rel in ("n", "n-1", "n+1", "0"):
                out.append(("max_bytes", bits, rel, pos))
    return out


def boundary_jobs(tier: str, seed: int) -> List[Any]:
    return [(k,) + j for k, j in enumerate(_jobs())]


def build_boundary(job: Tuple[Any, ...]) -> Tuple[Scaffold, bool, Optional[V.Planted]]:
    """(scaffold with the boundary value planted, expected validity, where an error must point)."""
    cat, pos = job[0], job[-1]
    sc = Scaffold(pos)
    p = sc.probe
    if cat == "width":
        _, kind, bits, site, _ = job
        t: Any = TBase(kind, bits)
        if site.endswith("array"):
            t = TArray(t, 3)
        if site.startswith("alias"):
            a = Alias(sc.type_name(), t)
            sc.file.items.append(a)
            pl = V.Planted("width", f"{site}:{kind}{bits}", sc.file, [("def", a)], depth=0, main=sc.main)
        else:
            fl = Field("mass", t, 7)
            p.items.append(fl)
            pl = sc.planted("width", f"{site}:{kind}{bits}", [("def", fl)])
        return sc, 1 <= bits <= 64, pl
    if cat == "enum_width":
        bits = job[1]
        e = Enum(sc.type_name(), bits, [("EV_ZETA", 0)])
        sc.scope.items.append(e)
        return sc, 1 <= bits <= 64, sc.planted("width", f"enum:uint{bits}", [("def", e)], 0)
    if cat == "cap_field":
        _, cap, by_const, _ = job
        t = TArray(TBase("bool"), cap)
        if by_const:
            c = Const("K_BRAVO", cap, f"{cap + 7} - 7")
            sc.file_insert_before_scope(c)
            t.cap_text, t.cap_const = c.name, c
        fl = Field("mass", t, 7)
        p.items.append(fl)
        return sc, 1 <= cap <= 65535, sc.planted("capacity", f"field:{cap}", [("def", fl)])
    if cat == "cap_alias":
        _, cap, ext, by_const, _ = job
        t = TArray(TBase("uint", 64), cap, ext=ext)
        if by_const:
            c = Const("K_BRAVO", cap, hex(cap))
            sc.file.items.append(c)
            t.cap_text, t.cap_const = c.name, c
        a = Alias(sc.type_name(), t)
        sc.file.items.append(a)
        return sc, 1 <= cap <= 65535, V.Planted("capacity", f"alias:{cap}", sc.file, [("def", a)], depth=0, main=sc.main)
    if cat == "alignment":
        al = job[1]
        sc.file.options = [("c.struct_packing_alignment", al)]
        # file options are model-level here: the line is that of the option's name token
        return sc, 0 <= al <= 8, V.Planted("option", f"range:file:alignment={al}", sc.file, [("fileopt", "c.struct_packing_alignment")], depth=0, main=sc.main)
    if cat == "field_number":
        n = job[1]
        fl = Field("mass", TBase("int", 12), n)
        p.items.append(fl)
        return sc, 1 <= n <= 255, sc.planted("field_number", f"number:{n}", [("def", fl)])
    if cat == "enum_value":
        _, w, over, _ = job
        v = (1 << w) if over else (1 << w) - 1
        e = Enum(sc.type_name(), w, [("EV_ZETA", 0), ("EV_OMEGA", v)])
        sc.scope.items.append(e)
        return sc, not over, sc.planted("enum_value", f"overflow:uint{w}", [("member", e, "EV_OMEGA")])
    if cat == "bits":
        _, total, ext, shape, _ = job
        m, helpers = V.build_sized_message(sc.type_name(), total, ext, shape, sc.type_name, [5])
        for h in helpers:
            sc.file_insert_before_scope(h)
        sc.scope.items.append(m)
        return sc, total <= 65535, sc.planted("size", f"bits:{total}:{'ext' if ext else 'plain'}:{shape}", [("extent", m)], 0)
    if cat == "max_bytes":
        _, bits, rel, _ = job
        ext = bits > 16 and bits % 2 == 1  # 17 and 65535: own prefix is part of the size
        body = bits - (16 if ext else 0)
        p.ext = ext
        if body <= 64:
            p.items.append(Field("mass", TBase("uint", body), 1))
        else:
            p.items.append(Field("raw", TArray(TBase("bool"), body), 1))
        nb = (bits + 7) // 8
        p.max_bytes = {"n": nb, "n-1": nb - 1, "n+1": nb + 1, "0": 0}[rel]
        valid = p.max_bytes == 0 or p.max_bytes >= nb
        return sc, valid, sc.planted("size", f"max_bytes:{rel}:bits={bits}", [("extent", p)], 0)
    raise ValueError(job)


def finish_boundary(sc: Scaffold, pl: V.Planted) -> V.Mutant:
    set_parents(sc.unit)
    if pl.anchors and pl.anchors[0][0] == "fileopt":
        doc = V.Doc(sc.unit)
        line = doc.entry(sc.file, "option", sc.file, pl.anchors[0][1]).line
        verdict = V.problems(sc.unit, sc.main)
        return V.Mutant(pl.rule, pl.variant, doc.texts(), sc.main.filename, [(sc.file.filename, line)], True, ["pos:" + sc.position], [f"{x.rule}: {x.what}" for x in verdict])
    return V.finish(None, sc.unit, pl, render_bp.Style(), shift=False)


def describe_boundary(job: Any) -> Any:
    sc, valid, pl = build_boundary(tuple(job[1:]))
    return {"job": list(job), "expected": "accept" if valid else "reject", "files": {k: (v if len(v) < 3000 else v[:3000] + "...") for k, v in render_bp.render_unit(sc.unit).items()}}


def run_boundary(job: Any, stats: Stats) -> None:
    k, job = job[0], tuple(job[1:])
    sc, valid, pl = build_boundary(job)
    set_parents(sc.unit)
    ps = V.problems(sc.unit, sc.main)
    if valid != (not ps):
        raise HarnessError(f"boundary job {job}: table says valid={valid}, rule checker says {ps}")
    stats.count("boundary:" + job[0], "boundary:" + ("accept" if valid else "reject"), "boundary-pos:" + job[-1])
    with_cli = k % 8 == 0
    lang = LANGS[k % 3]
    if valid:
        texts = render_bp.render_unit(sc.unit)
        check_accepted(texts, [sc.main.filename], stats, lang, with_cli, what=f"[boundary {job}]")
        if job[0] == "bits":
            stats.count("valid:bits=65535")
        if job[0] == "max_bytes" and job[2] == "n":
            stats.count("valid:max_bytes==nbytes")
    else:
        assert pl is not None
        m = finish_boundary(sc, pl)
        if not V.verdict_ok(m):
            raise HarnessError(f"boundary job {job}: rule checker says {m.verdict}")
        stats.count("rule:" + m.rule)
        check_rejected(m, stats, lang, with_main=True, with_cli=with_cli)
    stats.add_distinct(1)
    stats.extra["boundary_points"] = stats.extra.get("boundary_points", 0) + 1
    if k in (3, 400):
        stats.sample({"kind": "boundary", "job": list(job), "expected": "accept" if valid else "reject"})


def selftest() -> None:
    V.selftest(n_valid=25, n_mutants=80)
    # every boundary job builds, and the table agrees with the rule checker
    n = {True: 0, False: 0}
    for job in _jobs():
        sc, valid, pl = build_boundary(job)
        set_parents(sc.unit)
        ps = V.problems(sc.unit, sc.main)
        assert valid == (not ps), (job, ps)
        n[valid] += 1
    assert n[True] > 100 and n[False] > 100, n


PARTS = [
    FuncPart("boundary", boundary_jobs, run_boundary, describe=describe_boundary),
    HypPart("valid", lambda tier: valid_cases(), run_valid, {"quick": 900, "thorough": 18000}, describe=describe_valid),
    HypPart("invalid", lambda tier: invalid_cases(), run_invalid, {"quick": 3000, "thorough": 60000}, describe=describe_invalid),
]
