"""C02 — Python decode(encode(v)) == v, and re-encoding reproduces the bytes."""

from __future__ import annotations

from typing import Any, Dict, List, Optional, Tuple

from .. import cases, gen, kf, pyexec, ref, strategies as S
from ..model import unit_messages
from ..runner import HypPart, Stats, Violation

ID = "C02"
LEVEL = "exploration"
RULE = (
    "Same generator as C01 (all schema features; zero/ones/min/max, one-hot basis incl. every enum member at its "
    "offset, random values). For each (message, value): encode, decode into a fresh message (also decode the "
    "reference encoder's bytes, so a symmetric error cannot cancel), compare every leaf, re-encode and compare bytes; "
    "no exception in either direction. evaluations = (message, value) round trips. Non-trivial = message with >= 2 "
    "leaves containing a signed non-8/16/32/64 width, an enum, an extensible type, an array, a nested message or an "
    "unaligned leaf; distinct by (schema digest, message, value)."
)
ASSUMPTIONS = [
    "ref.py reference encoder is the specification; decode target is freshly constructed",
    "values in range, enum fields hold declared members",
    "recorded findings D4a/D4b (Python enum decode) are attributed only when the exact chunk simulation in kf.py "
    "predicts the failure AND the failure has the predicted signature; every other enum shape must round-trip",
]
REQUIRED_LABELS = ["signed_nonstd", "enum_leaf", "enum_straddle", "enum_wide", "ext_array", "ext_message", "array_2d", "array_of_message"]
NT_LABELS = {"signed_nonstd", "enum_leaf", "ext_message", "ext_array", "array", "nested_value", "unaligned_start"}


def strategy(tier: str) -> Any:
    return cases.sv_cases(S.Features(), nrand=2, python_only=True)


def _leaf_eq(lf: ref.Leaf, a: Any, b: Any) -> bool:
    if lf.kind == "bool":
        return bool(a) == bool(b) and isinstance(a, (bool, int))
    return int(a) == int(b)


def check_roundtrip(mods: Any, m: Any, v: Any, vname: str, stats: Stats, source: str) -> bool:
    """Returns True if a recorded finding was attributed (re-encode then skipped)."""
    lvs = ref.leaves(m)
    want_bytes = ref.encode(m, v)
    if source == "py":
        obj = pyexec.new_message(mods, m)
        try:
            pyexec.set_value(mods, obj, m, v)
            enc = bytes(obj.encode())
        except Exception as e:
            raise Violation(f"{m.name}.encode() raised {type(e).__name__}: {e} ({vname})", {"value": v}, signature=f"encode-exc:{type(e).__name__}")
    else:
        enc = want_bytes

    # expectations from recorded findings (exact simulation)
    exp_err: Optional[Tuple[int, str]] = None
    wrong: Dict[int, str] = {}
    for k, lf in enumerate(lvs):
        if lf.kind != "enum":
            continue
        outcome, fid = kf.py_enum_decode_expectation(lf, ref.get_path(v, lf.path))
        if outcome == "valueerror":
            exp_err = (k, fid or "D4a")
            break
        if outcome == "wrong":
            wrong[k] = fid or "D4b"

    fresh = pyexec.new_message(mods, m)
    try:
        fresh.decode(bytearray(enc))
    except Exception as e:
        if exp_err is not None and isinstance(e, ValueError) and "is not a valid" in str(e):
            stats.known_finding(exp_err[1], f"{m.name} leaf {lvs[exp_err[0]].path} enum uint{lvs[exp_err[0]].bits}@{lvs[exp_err[0]].offset}: {e}")
            return True
        raise Violation(
            f"{m.name}.decode() raised {type(e).__name__}: {e} on bytes of an in-range value ({vname}, source={source})",
            {"value": v, "bytes": enc.hex()},
            signature=f"decode-exc:{type(e).__name__}",
        )
    known = False
    for k, lf in enumerate(lvs):
        if exp_err is not None and k >= exp_err[0]:
            break  # prediction says decode should have raised here; below we require full equality instead
        try:
            cur: Any = fresh
            for p in lf.path:
                cur = cur[p] if isinstance(p, int) else getattr(cur, p)
            got = cur
        except ValueError as e:
            if k in wrong and "is not a valid" in str(e):
                stats.known_finding(wrong[k], f"{m.name} leaf {lf.path}: {e}")
                known = True
                continue
            raise Violation(f"reading decoded field {lf.path} of {m.name} raised {e!r} ({vname})", {"value": v}, signature="read-exc")
        want = ref.get_path(v, lf.path)
        if not _leaf_eq(lf, got, want):
            if k in wrong:
                stats.known_finding(wrong[k], f"{m.name} leaf {lf.path} enum default {lf.enum.members[0][1]} OR-ed: got {int(got)} want {want}")
                known = True
                continue
            raise Violation(
                f"{m.name}: decode(encode(v)) differs at {lf.path} ({lf.kind}{lf.bits}@bit{lf.offset}): got {got!r} want {want!r} ({vname}, source={source})",
                {"value": v, "bytes": enc.hex()},
                signature=f"leaf:{lf.kind}",
            )
    if exp_err is not None:
        # decode did not raise although predicted: then it must simply be right
        got_tree = pyexec.get_value(fresh, m)
        if got_tree != v and not known:
            raise Violation(f"{m.name}: decode(encode(v)) != v ({vname}, source={source})", {"value": v, "got": got_tree}, signature="tree")
    if known:
        return True
    try:
        re = bytes(fresh.encode())
    except Exception as e:
        raise Violation(f"{m.name}: re-encode raised {type(e).__name__}: {e} ({vname})", {"value": v}, signature=f"reencode-exc:{type(e).__name__}")
    if re != enc:
        raise Violation(f"{m.name}: re-encoding the decoded message gives {re.hex()} != {enc.hex()} ({vname})", {"value": v}, signature="reencode")
    return False


def run_case(case: cases.SVCase, stats: Stats) -> None:
    with gen.Compiled(case.unit, case.style) as cu:
        try:
            mods = cu.load_python()
        except Exception as e:
            raise Violation(f"valid schema could not be compiled/imported for Python: {type(e).__name__}: {e}", signature=f"compile:{type(e).__name__}")
        digest = cases.unit_digest(cu.texts)
        for lab in S.unit_labels(case.unit):
            stats.count(lab)
        for idx, m in enumerate(unit_messages(case.unit)):
            if ref.has_empty_enum(m):
                stats.exclude("message with empty enum (no in-range value)")
                continue
            mlabs = set(S.message_labels(m))
            nontrivial = "multi_leaf" in mlabs and bool(mlabs & NT_LABELS)
            for vname, v in cases.vectors(case, idx, m):
                k1 = check_roundtrip(mods, m, v, vname, stats, "py")
                k2 = check_roundtrip(mods, m, v, vname, stats, "ref")
                stats.evaluations += 1
                if nontrivial and not (k1 or k2):
                    stats.mark_nontrivial(digest, m.name, v)
            if nontrivial:
                stats.sample({"message": m.name, "nbits": ref.nbits(m), "labels": sorted(mlabs), "schema": cu.texts if len(str(cu.texts)) < 3000 else "(large)"})


PARTS = [
    HypPart("gen", strategy, run_case, {"quick": 1200, "thorough": 24000}, describe=cases.describe),
]


# ---- deliberate probe of recorded finding D4b (keeps its KNOWN-FINDING line printed while it exists) ----


def probe_jobs(tier: str, seed: int) -> Any:
    return ["D4b"]


def run_probe(job: str, stats: Stats) -> None:
    from ..model import Enum, Field, File, Message, TRef, Unit, set_parents

    e = Enum("Shade", 3, [("EV_FIVE", 5), ("EV_TWO", 2)])
    m = Message("Probe", False, [Field("lead", __import__("bpverif.model", fromlist=["TBase"]).TBase("uint", 3), 1), Field("shade", TRef("Shade", e), 2)])
    unit = Unit([File("probe", "probe", [e, m])])
    set_parents(unit)
    with gen.Compiled(unit) as cu:
        mods = cu.load_python()
        for v in ({"lead": 1, "shade": 2}, {"lead": 7, "shade": 5}):
            check_roundtrip(mods, m, v, "probe", stats, "py")
            stats.evaluations += 1


from ..runner import FuncPart  # noqa: E402

PARTS.append(FuncPart("probe", probe_jobs, run_probe))
