"""C03 — C standard mode writes/reads the same bytes as the specification and Python."""

from __future__ import annotations

from typing import Any, List

from hypothesis import strategies as st

from .. import cases, cexec, gen, pyexec, ref, strategies as S
from ..model import unit_messages
from ..runner import HypPart, Stats, Violation

ID = "C03"
LEVEL = "exploration"
RULE = (
    "Generated units (all features) x value batches (zero/ones/min/max, one-hot basis for messages <= 512 bits, random) "
    "x a build configuration drawn per case from {gcc -O0,-O1,-O2,-O3, clang -O2} x {separate TUs, single TU} x c.struct_packing_alignment {unset, 1, 2, 4, 8}. A C driver "
    "generated from the model sets struct members by their documented names, calls Encode<Msg> into an exactly sized "
    "fenced buffer and Decode<Msg> on the reference bytes into a zeroed fenced struct. Oracle: C bytes == reference "
    "encoder == Python encode(); decoded leaves == values (signed leaves sign-extended). evaluations = (message, value, "
    "direction) comparisons. Non-trivial: message with >= 2 leaves and one of the C code-path labels (32/16-bit word copy "
    "reach, unaligned start, batch-copy-eligible array, signed non-standard width, extensible, nested, alias); distinct by "
    "(schema digest, message, value, build). Part `stride`: the same oracle on a family built at the 64 KiB line of IN-MEMORY sizes: "
    "an array of tiny messages whose C struct (padded by c.struct_packing_alignment 4/8) is 65536 bytes -1/+0/+1/+37, used as an "
    "array element directly or through an alias, followed by a tail field."
)
ASSUMPTIONS = [
    "ref.py is the specification; gcc 12 / clang 14 on x86-64 little-endian",
    "decode target zero-initialised, output buffer zero-initialised (documented API contract)",
    "bool members hold 0/1, enum members hold declared values",
    "struct/function names follow the documented scheme (checked separately by C15)",
]
REQUIRED_LABELS = ["batch_array", "signed_nonstd", "width_gt32", "unaligned_start", "ext_array", "ext_message", "array_of_message", "alias_use", "cfg:single_tu", "cfg:clang", "cfg:gcc-O3", "cfg:packed", "element_struct_ge_64KiB", "cfg:libc_headers_before_runtime:single_tu", "cfg:extra_flags", "cfg:-std=c99"]
NT_LABELS = {"width_gt8", "unaligned_start", "batch_array", "signed_nonstd", "ext_message", "ext_array", "nested_value", "alias_use", "array"}

CONFIGS = [("gcc", "-O0"), ("gcc", "-O1"), ("gcc", "-O2"), ("gcc", "-O3"), ("clang", "-O2")]


# what a user's build may add without changing what the code means
PRE_INCLUDES = ["stdlib.h", "time.h", "pthread.h", "sys/types.h", "signal.h", "endian.h", "sys/param.h", "sys/socket.h", "arpa/inet.h", "math.h", "limits.h", "stdio.h", "string.h"]
ABI_NEUTRAL_FLAGS = ["-funsigned-char", "-fsigned-char", "-fshort-enums", "-fno-strict-aliasing", "-fwrapv", "-D_GNU_SOURCE", "-fstack-protector-all", "-fPIC", "-fno-common", "-D_FORTIFY_SOURCE=2", "-DNDEBUG"]
LIB_STDS = ["", "", "", "-std=c99", "-std=c11", "-std=c17", "-std=gnu99", "-std=gnu17", "-std=c2x"]


def config_strategy() -> Any:
    return st.fixed_dictionaries(
        {
            "cc_opt": st.sampled_from(CONFIGS),
            "single_tu": st.booleans(),
            "align": st.sampled_from([0, 0, 0, 1, 2, 4, 8]),
            "pre": st.one_of(st.just([]), st.lists(st.sampled_from(PRE_INCLUDES), min_size=1, max_size=3, unique=True)),
            "flags": st.one_of(st.just([]), st.lists(st.sampled_from(ABI_NEUTRAL_FLAGS), min_size=1, max_size=2, unique=True)),
            "lib_std": st.sampled_from(LIB_STDS),
        }
    )


def strategy(tier: str) -> Any:
    return cases.sv_cases(S.Features(), nrand=2, config=config_strategy())


def run_case(case: cases.SVCase, stats: Stats) -> None:
    cc, opt = case.config.get("cc_opt", ("gcc", "-O0"))
    single = case.config.get("single_tu", False)
    flags = [x for x in case.config.get("flags", []) if not (x == "-D_FORTIFY_SOURCE=2" and opt == "-O0")]
    cfg = cexec.CConfig(cc=cc, opt=opt, single_tu=single, extra=flags, pre_includes=case.config.get("pre", []), lib_std="" if single else case.config.get("lib_std", ""))
    if cfg.pre_includes:
        stats.count("cfg:libc_headers_before_runtime" + (":single_tu" if single else ""))
    if cfg.extra:
        stats.count("cfg:extra_flags")
    if cfg.lib_std:
        stats.count("cfg:" + cfg.lib_std)
    align = case.config.get("align", 0)
    if align:
        # documented option: packed structs with the given alignment (power of two; 3/5/6/7 are recorded finding N6)
        for f in case.unit.files:
            if not any(o[0] == "c.struct_packing_alignment" for o in f.options):
                f.options.append(("c.struct_packing_alignment", align))
        stats.count("cfg:packed")
    stats.count(f"cfg:{cc}{opt}" if cc == "gcc" else "cfg:clang")
    if single:
        stats.count("cfg:single_tu")
    if case.config.get("stride_bytes", 0) >= 65536:
        stats.count("element_struct_ge_64KiB")
    with gen.Compiled(case.unit, case.style) as cu:
        try:
            cdir = cu.render_all("c")
            mods = cu.load_python()
        except Exception as e:
            raise Violation(f"valid schema could not be compiled: {type(e).__name__}: {e}", signature=f"compile:{type(e).__name__}")
        msgs = [m for m in unit_messages(case.unit) if not ref.has_empty_enum(m)]
        if not msgs:
            return
        try:
            drv = cexec.CDriver(case.unit, cdir, msgs, cfg, with_json=False, workdir=cu.outdir("drv"))
        except cexec.CBuildError as e:
            raise Violation(f"generated C does not build ({cfg}): {e}", signature="cbuild")
        digest = cases.unit_digest(cu.texts)
        for lab in S.unit_labels(case.unit):
            stats.count(lab)
        ops: List[str] = []
        meta: List[Any] = []
        index_of = {id(m): i for i, m in enumerate(unit_messages(case.unit))}
        for k, m in enumerate(msgs):
            for vname, v in cases.vectors(case, index_of[id(m)], m):
                want = ref.encode(m, v)
                ops.append(cexec.op_encode(k, m, v, 0))
                meta.append(("E", k, m, vname, v, want))
                ops.append(cexec.op_decode(k, want, 0))
                meta.append(("D", k, m, vname, v, want))
        try:
            resp = drv.run(ops)
        except cexec.Crash as c:
            kind, k, m, vname, v, want = meta[min(c.op_index, len(meta) - 1)]
            raise Violation(f"C driver died ({cfg}) in {kind} of {m.name} vector {vname}: {c}", {"value": v}, signature="crash")
        for line, (kind, k, m, vname, v, want) in zip(resp, meta):
            mlabs = set(S.message_labels(m))
            nontrivial = "multi_leaf" in mlabs and bool(mlabs & NT_LABELS)
            stats.evaluations += 1
            if kind == "E":
                r = cexec.EncResp(line)
                if r.data != want:
                    raise Violation(
                        f"C Encode{cexec.struct_name(m)} ({cfg}) differs from the specification for vector {vname}: got {r.data.hex()} want {want.hex()} (bits {gen.bit_diff(r.data, want)[:16]})",
                        {"value": v},
                        signature="c-encode-bytes",
                    )
                if not r.fences_ok():
                    raise Violation(f"C Encode{cexec.struct_name(m)} ({cfg}) wrote outside its buffer/struct (canary offsets struct={r.struct_canary} buf={r.buf_canary})", {"value": v}, signature="c-encode-fence")
                if vname in ("zero", "ones", "rand0", "rand1"):
                    obj = pyexec.new_message(mods, m)
                    pyexec.set_value(mods, obj, m, v)
                    pyb = bytes(obj.encode())
                    if pyb != r.data:
                        raise Violation(f"C and Python encoders disagree on {m.name} vector {vname}: C {r.data.hex()} Python {pyb.hex()}", {"value": v}, signature="c-vs-py")
            else:
                r2 = cexec.DecResp(line, m)
                wantv = cexec.leaf_values(m, v)
                if r2.values != wantv:
                    lvs = ref.leaves(m)
                    bad = [(lvs[i].path, f"{lvs[i].kind}{lvs[i].bits}@{lvs[i].offset}", r2.values[i], wantv[i]) for i in range(min(len(wantv), len(r2.values))) if r2.values[i] != wantv[i]][:5]
                    raise Violation(f"C Decode{cexec.struct_name(m)} ({cfg}) of the specified bytes gives wrong fields for vector {vname}: {bad}", {"value": v, "bytes": want.hex()}, signature="c-decode-leaf")
                if not r2.fences_ok():
                    raise Violation(f"C Decode{cexec.struct_name(m)} ({cfg}) touched memory outside struct/buffer (struct={r2.struct_canary} buf={r2.buf_canary} unchanged={r2.buf_unchanged})", {"value": v}, signature="c-decode-fence")
            if nontrivial:
                stats.mark_nontrivial(digest, m.name, v, kind, cfg.tag())
        if msgs:
            m = msgs[-1]
            stats.sample({"build": cfg.tag(), "message": m.name, "nbits": ref.nbits(m), "labels": S.message_labels(m), "schema": cu.texts if len(str(cu.texts)) < 2500 else "(large)"})


PARTS = [
    HypPart("gen", strategy, run_case, {"quick": 480, "thorough": 9600}, describe=cases.describe),
    HypPart("stride", lambda tier: cases.stride_cases(config=config_strategy()), run_case, {"quick": 16, "thorough": 320}, describe=cases.describe),
]
