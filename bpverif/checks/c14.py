"""C14 — Every width x bit-offset x signedness combination is bit-exact in every runtime."""

from __future__ import annotations

from typing import Any, Dict, List, Tuple

from .. import cexec, gen, pyexec, ref, rtcheck, strategies as S
from ..model import Alias, Field, File, Message, TArray, TBase, TRef, Unit, set_parents
from ..runner import FuncPart, Stats, Violation

ID = "C14"
LEVEL = "exploration"
RULE = (
    "COMPLETE enumeration, no sampling: types {bool, byte, uint1..64, int1..64} x start offset 0..7 x position {scalar, "
    "array element (cap 2, so the second element also visits offset+width), alias, array of alias, array (cap 2) of alias of array (2-d; inner capacity chosen so that a row is a whole 8/16/32/64 bits where the width divides one)} x basis values {0, all "
    "ones, every single bit, min, max}. Generated code: per (position, offset) two messages (unsigned kinds / signed kinds) "
    "holding every type, each followed by a pad field restoring the offset; executed through the generated Python module, "
    "the generated C in standard mode and in optimization mode (little-endian branch, and big-endian branch via "
    "-DBP_BIG_ENDIAN) at -O0 and -O2. C runtime: rt.c calls BpCopyBufferBits / BpEndecodeBaseType / BpEndecodeInt / "
    "BpEndecodeArray (capacities {1..9, 12, 16, 17, 33}, incl. the batch-copy widths) directly over the same space, little- and big-endian builds. Oracle: "
    "bit-list reference encoder / bit loop; decode returns the value with correct sign. evaluations = leaf cases (type, "
    "offset, position, value, target, direction); every enumerated point with width > 8 or offset != 0 is non-trivial and "
    "points are distinct by construction."
)
ASSUMPTIONS = [
    "ref.py / the bit loop in rt.c are the specification",
    "big-endian C runtime: unsigned + standard signed widths only (see C06 limits)",
    "Go targets are executed through bpverif.gointerp (trusted for its subset)",
]

POSITIONS = ["scalar", "array", "alias", "array_of_alias", "array_of_alias_of_array"]


def inner_cap(bits: int) -> int:
    """2-d arrays: the inner capacity that makes the ROW a whole 8/16/32/64 bits where the width allows it
    (a row then looks like one standard-width integer to any code that only asks for its total width)."""
    for total in (8, 16, 32, 64):
        if total % bits == 0 and total // bits >= 2:
            return total // bits
    return 2


def all_types(signed: bool) -> List[TBase]:
    if signed:
        return [TBase("int", n) for n in range(1, 65)]
    return [TBase("bool"), TBase("byte")] + [TBase("uint", n) for n in range(1, 65)]


def build_unit(position: str, off: int) -> Unit:
    f = File("gridp", "gridp")
    msgs = []
    for signed in (False, True):
        m = Message("Signed" if signed else "Plain")
        num = 1
        if off:
            m.items.append(Field("lead", TBase("uint", off), num))
            num += 1
        for k, t in enumerate(all_types(signed)):
            tag = ("s" if signed else "u") + f"{'b' if t.kind == 'bool' else 'y' if t.kind == 'byte' else ''}{t.bits}"
            if position == "scalar":
                ft: Any = t
                used = t.bits
            elif position == "array":
                ft = TArray(t, 2)
                used = 2 * t.bits
            elif position == "alias":
                a = Alias(f"Al{'S' if signed else 'P'}{tag.capitalize()}", t)
                f.items.append(a)
                ft = TRef(a.name, a)
                used = t.bits
            elif position == "array_of_alias":
                a = Alias(f"Al{'S' if signed else 'P'}{tag.capitalize()}", t)
                f.items.append(a)
                ft = TArray(TRef(a.name, a), 2)
                used = 2 * t.bits
            else:
                k = inner_cap(t.bits)
                a = Alias(f"Al{'S' if signed else 'P'}{tag.capitalize()}", TArray(t, k))
                f.items.append(a)
                ft = TArray(TRef(a.name, a), 2)
                used = 2 * k * t.bits
            m.items.append(Field("f_" + tag, ft, num))
            num += 1
            pad = (8 - used % 8) % 8
            if pad:
                m.items.append(Field("p_" + tag, TBase("uint", pad), num))
                num += 1
        assert num <= 256, num
        if off % 2:
            m.items.reverse()  # declaration order is not part of the layout: on every other grid the fields are written in descending number order
        msgs.append(m)
    f.items.extend(msgs)
    u = Unit([f])
    set_parents(u)
    return u


def leaf_basis(lf: ref.Leaf) -> List[int]:
    if lf.kind == "bool":
        return [0, 1]
    lo, hi = ref.leaf_range(lf)
    vals = [0, hi if lf.kind != "int" else -1, lo, hi]
    for k in range(lf.bits):
        vals.append(S._single_bit(lf, k))
    out: List[int] = []
    for v in vals:
        if v not in out:
            out.append(v)
    return out


def vectors(m: Message) -> List[Any]:
    lvs = ref.leaves(m)
    bases = [leaf_basis(lf) if lf.path[0].startswith("f_") else [0, ref.leaf_range(lf)[1]] for lf in lvs]
    n = max(len(b) for b in bases)
    out = []
    for j in range(n):
        vec = []
        for lf, b in zip(lvs, bases):
            # elements of one array are staggered through the basis (element k holds basis value j+k), so that rows and
            # neighbours never hold the same value at the same time: a value landing in the wrong element is visible
            shift = sum(p for p in lf.path if isinstance(p, int))
            x = b[(j + shift) % len(b)] if j < len(b) else 0
            vec.append(bool(x) if lf.kind == "bool" else x)
        out.append(S.build_value(m, vec))
    # one more vector with the pads all ones around zero fields, and fields all ones around zero pads
    return out


def count_points(m: Message) -> Tuple[int, int]:
    pts = 0
    nt = 0
    for lf in ref.leaves(m):
        if not lf.path[0].startswith("f_"):
            continue
        n = len(leaf_basis(lf))
        pts += n
        if lf.bits > 8 or lf.offset % 8:
            nt += n
    return pts, nt


def jobs(tier: str, seed: int) -> List[Any]:
    out: List[Any] = []
    for pos in POSITIONS:
        for off in range(8):
            out.append(("py", pos, off))
            out.append(("go", pos, off, False))
            out.append(("go", pos, off, True))
            out.append(("c", pos, off, "-O0" if (off + POSITIONS.index(pos)) % 2 == 0 or tier == "quick" else "-O2"))
            if tier == "thorough":
                out.append(("c", pos, off, "-O2"))
    for cfg in [("gcc", "-O0"), ("gcc", "-O2")] + ([("clang", "-O2"), ("gcc", "-O3")] if tier == "thorough" else []):
        out.append(("rt", cfg[0], cfg[1]))
    return out


def run_job(job: Any, stats: Stats) -> None:
    kind = job[0]
    if kind == "rt":
        _run_rt(job, stats)
        return
    _, pos, off = job[:3]
    unit = build_unit(pos, off)
    with gen.Compiled(unit) as cu:
        msgs = [m for m in unit.files[0].items if isinstance(m, Message)]
        if kind == "py":
            try:
                mods = cu.load_python()
            except Exception as e:
                raise Violation(f"grid schema ({pos}, offset {off}) failed to compile for Python: {type(e).__name__}: {e}", signature="compile")
            for m in msgs:
                for v in vectors(m):
                    want = ref.encode(m, v)
                    obj = pyexec.new_message(mods, m)
                    pyexec.set_value(mods, obj, m, v)
                    try:
                        got = bytes(obj.encode())
                        fresh = pyexec.new_message(mods, m)
                        fresh.decode(bytearray(want))
                        back = pyexec.get_value(fresh, m)
                    except Exception as e:
                        raise Violation(f"Python runtime raised {type(e).__name__}: {e} on grid ({pos}, offset {off}) message {m.name}", {"value": v}, signature="py-exc")
                    if got != want:
                        bits = gen.bit_diff(got, want)
                        lf = _leaf_at(m, bits[0]) if bits else None
                        raise Violation(f"Python encode wrong at stream bit {bits[:8]} ({lf}) on grid ({pos}, offset {off})", {"value": v}, signature="py-enc")
                    if back != v:
                        bad = [(lf.path, lf.kind, lf.bits, lf.offset % 8, ref.get_path(back, lf.path), ref.get_path(v, lf.path)) for lf in ref.leaves(m) if ref.get_path(back, lf.path) != ref.get_path(v, lf.path)][:4]
                        raise Violation(f"Python decode wrong on grid ({pos}, offset {off}): {bad}", {"value": v}, signature="py-dec")
                pts, nt = count_points(m)
                stats.evaluations += 2 * pts
                stats.add_distinct(2 * nt)
                stats.target("python", 2 * pts)
        elif kind == "go":
            _run_go(job, unit, cu, msgs, stats)
        else:
            opt = job[3]
            builds = [("std", False, "both", False), ("O-both", True, "both", False), ("O-both-BE", True, "both", True)]
            ops: List[str] = []
            meta: List[Any] = []
            for k, m in enumerate(msgs):
                for v in vectors(m):
                    want = ref.encode(m, v)
                    ops.append(cexec.op_encode(k, m, v, 0))
                    meta.append(("E", m, v, want))
                    ops.append(cexec.op_decode(k, want, 0))
                    meta.append(("D", m, v, want))
            for tag, optimize, endian, be in builds:
                try:
                    cdir = cu.render_all("c", tag="c_" + tag, optimize=optimize, endian=endian) if optimize else cu.render_all("c", tag="c_" + tag)
                    drv = cexec.CDriver(unit, cdir, msgs, cexec.CConfig("gcc", opt, big_endian=be), with_json=False, workdir=cu.outdir("drv_" + tag))
                    resp = drv.run(ops)
                except cexec.Crash as c:
                    raise Violation(f"C {tag} {opt} died on grid ({pos}, offset {off}): {c}", signature="c-crash")
                except cexec.CBuildError as e:
                    raise Violation(f"C {tag} {opt} grid ({pos}, offset {off}) does not build: {e}", signature="c-build")
                for line, (kind2, m, v, want) in zip(resp, meta):
                    if kind2 == "E":
                        r = cexec.EncResp(line)
                        if r.data != want or not r.fences_ok():
                            bits = gen.bit_diff(r.data, want)
                            lf = _leaf_at(m, bits[0]) if bits else None
                            raise Violation(f"C {tag} {opt} encode wrong at stream bits {bits[:8]} ({lf}) on grid ({pos}, offset {off})", {"value": v}, signature=f"c-enc-{tag}")
                    else:
                        r2 = cexec.DecResp(line, m)
                        wantv = cexec.leaf_values(m, v)
                        if r2.values != wantv or not r2.fences_ok():
                            lvs = ref.leaves(m)
                            bad = [(lvs[i].path, lvs[i].kind, lvs[i].bits, lvs[i].offset % 8, r2.values[i], wantv[i]) for i in range(len(wantv)) if i < len(r2.values) and r2.values[i] != wantv[i]][:4]
                            raise Violation(f"C {tag} {opt} decode wrong on grid ({pos}, offset {off}): {bad}", {"value": v}, signature=f"c-dec-{tag}")
                for m in msgs:
                    pts, nt = count_points(m)
                    stats.evaluations += 2 * pts
                    stats.add_distinct(2 * nt)
                    stats.target(f"c:{tag}:{opt}", 2 * pts)
    if off == 3 and pos == "array":
        stats.sample({"target": kind, "position": pos, "offset": off, "messages": ["Plain (bool, byte, uint1..64)", "Signed (int1..64)"], "vectors_per_message": len(vectors(msgs[0])), "schema_head": cu.texts["gridp.bitproto"][:700]})
    stats.extra["exhaustive"] = True


def _run_go(job: Any, unit: Unit, cu: Any, msgs: List[Message], stats: Stats) -> None:
    from .. import goexec

    _, pos, off, optimize = job
    tag = "go-O" if optimize else "go-std"
    try:
        godir = cu.render_all("go", tag=tag.replace("-", "_"), optimize=optimize)
        gu = goexec.GoUnit(unit, godir)
    except goexec.GoUnsupported as e:
        stats.inconclusive_(f"{tag}: interpreter: {str(e)[:80]}")
        return
    except (goexec.GoCompileError, goexec.GoSyntaxError) as e:
        raise Violation(f"{tag} grid ({pos}, offset {off}) is rejected by the Go type checker: {e}", signature="go-compile")
    for m in msgs:
        for v in vectors(m):
            want = ref.encode(m, v)
            try:
                got = gu.encode(m, v)
                back = gu.decode(m, want)
            except goexec.GoUnsupported as e:
                stats.inconclusive_(f"{tag}: interpreter: {str(e)[:80]}")
                return
            except goexec.GoPanic as e:
                raise Violation(f"{tag} panics on grid ({pos}, offset {off}): {e}", {"value": v}, signature="go-panic")
            if got != want:
                bits = gen.bit_diff(got, want)
                raise Violation(f"{tag} encode wrong at stream bits {bits[:8]} ({_leaf_at(m, bits[0]) if bits else None}) on grid ({pos}, offset {off})", {"value": v}, signature=f"{tag}-enc")
            if back != v:
                bad = [(lf.path, lf.kind, lf.bits, lf.offset % 8, ref.get_path(back, lf.path), ref.get_path(v, lf.path)) for lf in ref.leaves(m) if ref.get_path(back, lf.path) != ref.get_path(v, lf.path)][:4]
                raise Violation(f"{tag} decode wrong on grid ({pos}, offset {off}): {bad}", {"value": v}, signature=f"{tag}-dec")
        pts, nt = count_points(m)
        stats.evaluations += 2 * pts
        stats.add_distinct(2 * nt)
        stats.target(tag, 2 * pts)


def _leaf_at(m: Message, bit: int) -> Any:
    for lf in ref.leaves(m):
        if lf.offset <= bit < lf.offset + lf.bits:
            return f"{lf.path} {lf.kind}{lf.bits} starting at bit offset {lf.offset % 8}"
    return "padding"


def _run_rt(job: Any, stats: Stats) -> None:
    _, cc, opt = job
    for be in (False, True):
        try:
            r = rtcheck.run_rt(cc, opt, be)
        except cexec.CBuildError as e:
            raise Violation(f"runtime harness does not build ({cc} {opt} be={be}): {e}", signature="rt-build")
        if r.returncode != 0 or not r.done:
            raise Violation(f"runtime harness ({cc} {opt} be={be}) died rc={r.returncode}: {r.stderr[-1000:]}", signature="rt-crash")
        if r.bad:
            raise Violation(f"C runtime ({cc} {opt} {'big' if be else 'little'}-endian build) disagrees with the bit loop: {r.bad[:6]}", {"bad": r.bad}, signature="rt-bad")
        for g, (n, nt) in r.counts.items():
            stats.evaluations += n
            stats.add_distinct(nt)
            stats.target(f"c-runtime:{'be' if be else 'le'}:{cc}{opt}", n)
    stats.sample({"target": "C runtime direct calls", "build": f"{cc} {opt}", "groups": {g: n for g, (n, nt) in r.counts.items()}})
    stats.extra["exhaustive"] = True


PARTS = [FuncPart("grid", jobs, run_job)]
