"""C05 — Forward compatibility: an older schema decodes data from an extended one."""

from __future__ import annotations

from dataclasses import dataclass, field
from typing import Any, Dict, List, Optional

from hypothesis import strategies as st

from .. import cases, cexec, evolve, gen, goexec, pyexec, ref, render_bp, strategies as S
from ..model import Message, Unit, unit_messages
from ..runner import HypPart, Stats, Violation

ID = "C05"
LEVEL = "exploration"
TECHNIQUE = "model-based generation of schema-version histories (Hypothesis), projection oracle"
RULE = (
    "A history is generated as one shrinkable value: a base unit (extensible messages/arrays nested in messages, in arrays, "
    "behind aliases, across imports) followed by 1-3 new versions, each obtained by 1-3 applications of the two permitted "
    "rules at a drawn position anywhere in the unit: append_field(extensible message, number > max, type = base / array / "
    "extensible array / newly declared nested message or enum / existing visible type) and grow_array(extensible array, new "
    "capacity > old). For every version pair (older S_i, newest S_k) and every message of S_i: values of the S_k message "
    "(zero/ones/min/max, random) are encoded with the reference encoder AND the real S_k Python encoder (must agree), "
    "decoded by the code generated from S_i - Python always, the C decoder and the interpreted Go decoder on a drawn sample "
    "- and compared with the PROJECTION of the value onto S_i (fields whose numbers exist there, first cap_old elements), so "
    "no skip arithmetic is trusted on the oracle side. Afterwards each older Python receiver reads, in ONE process, its own version's data and the data of every later version interleaved (i, i+1, .., k, i, k, .., i+1): no decode may depend on what was read before. evaluations = (older message, value, target) decodes. Non-trivial: the "
    "pair differs in a region that is FOLLOWED, in S_i's wire order, by at least one older leaf (a wrong skip distance is "
    "observable); distinct by (S_i digest, S_k digest, message, value, target). Part `wide`: the same oracle on directed histories "
    "whose 16-bit prefix VALUES span the 16-bit range at every bit alignment: an extensible message of about 2**k bits or an "
    "extensible array (of base types / of extensible messages) of about 2**k elements, k = 9..15, at bit offset 0..7, extended "
    "by one step, followed by an older field. Part `nested`: extensible containers inside extensible containers (extensible array of "
    "an alias of an extensible array, directly or through a second alias; extensible message holding an extensible array, alone or "
    "as element of an extensible array) where ONE new version grows the inner level, the outer level or both (and may append a field "
    "to the inner message), at bit offset 0..7, older field behind; Python, C and Go decoders on every case."
)
ASSUMPTIONS = [
    "ref.py encoder and the projection are the specification (docs/language.rst, extensibility)",
    "decode targets freshly constructed / zeroed; enum first members are zero in this check so recorded finding D4b does not mask it",
    "Go decoder executed by bpverif.gointerp (trusted for its subset); shapes of recorded Go findings (unused imports, "
    "foreign names in imported aliases) are not generated",
]
REQUIRED_LABELS = ["nested_ext:both_levels_grow_in_one_version", "nested_ext:row_alias", "nested_ext:array_of_msg_with_ext_array", "wide:message", "wide:array", "wide:prefix_value~2^15", "step:grow_array", "step:append_field:base", "step:append_field:new_nested_msg", "followed_by_older_leaf", "target:c", "target:go", "chain3"]


@dataclass
class Case:
    versions: List[Unit]
    msgs: List[List[Message]]  # msgs[k][j]: message j (of version 0's list) in version k
    steps: List[List[str]]
    rand: Dict[int, List[Any]]  # message index -> random values of the NEWEST version
    targets: List[str] = field(default_factory=list)
    wide: Optional[Any] = None  # (k, r, variant) of a directed wide-prefix history
    nested: Optional[str] = None  # shape of a directed nested-extensible history


@st.composite
def histories(draw: Any) -> Case:
    feat = S.Features(enum_first_zero=True, prune_unused_imports=True, alias_foreign_enum=False, bits_budget=400, big=False, max_defs=5)
    unit = draw(S.units(feat))
    # make sure there is something to extend: force a few extensible markers
    msgs0 = unit_messages(unit)
    for m in msgs0:
        if draw(st.integers(0, 2)) == 0:
            m.ext = True
    packed = draw(st.integers(0, 3)) == 0
    if packed:
        # documented option c.struct_packing_alignment (kept by every later version): the C receiver's structs are packed
        al = draw(st.sampled_from([1, 2, 4, 8]))
        for f in unit.files:
            f.options.append(("c.struct_packing_alignment", al))
    versions = [unit]
    msgs = [msgs0]
    steps: List[List[str]] = []
    nver = draw(st.sampled_from([1, 1, 2, 2, 3]))
    for _ in range(nver):
        u2, m2, applied = evolve.evolve(draw, versions[-1], msgs[-1])
        if not applied:
            continue
        versions.append(u2)
        msgs.append(m2)
        steps.append(applied)
    rand: Dict[int, List[Any]] = {}
    for j, m in enumerate(msgs[-1]):
        rand[j] = [draw(S.values(m)) for _ in range(2)]
    targets = ["py"]
    r = draw(st.integers(0, 9))
    if r < 3 or packed:
        targets.append("c")
    if r >= 7:
        targets.append("go")
    return Case(versions, msgs, steps, rand, targets)


@st.composite
def wide_histories(draw: Any) -> Case:
    """Histories whose 16-bit prefix VALUES cover the whole 16-bit range at every bit alignment: an extensible
    message of about 2**k bits (k = 9..15) or an extensible array of about 2**k elements, placed at bit offset
    0..7 inside a message, extended by one permitted step, followed by an older field."""
    from ..model import Field, File, TArray, TBase, TRef, set_parents

    k = draw(st.integers(9, 15))
    r = draw(st.integers(0, 7))
    near = (1 << k) + draw(st.sampled_from([-9, -1, 0, 1, 8, 100]))
    outer_ext = draw(st.booleans())
    pk = Message("Packet", outer_ext)
    if r:
        pk.items.append(Field("seq", TBase("uint", r), 1))
    else:
        pk.items.append(Field("seq", TBase("byte"), 1))
    f = File("wide", "wide")
    variant = draw(st.sampled_from(["message", "array", "array_of_message"]))
    if variant == "message":
        blob = Message("Blob", True)
        n = max(1, (near - 16) // 8)
        blob.items.append(Field("data", TArray(TBase("byte"), n), 1))
        rest = near - 16 - 8 * n
        if rest > 0:
            blob.items.append(Field("rest", TBase("uint", rest), 2))
        f.items.append(blob)
        pk.items.append(Field("blob", TRef("Blob", blob), 2))
    elif variant == "array":
        ebits = draw(st.sampled_from([1, 1, 1, 2]))
        n = min(near, (65535 - 64) // ebits - 200)
        pk.items.append(Field("flags", TArray(TBase("bool") if ebits == 1 else TBase("uint", ebits), n, True), 2))
    else:
        cell = Message("Cell", True)
        cell.items.append(Field("on", TBase("bool"), 1))
        f.items.append(cell)
        n = min(near, (65535 - 64) // 17 - 40)
        pk.items.append(Field("cells", TArray(TRef("Cell", cell), n, True), 2))
    pk.items.append(Field("tail", TBase("uint", draw(st.sampled_from([16, 5, 13]))), 3))
    f.items.append(pk)
    unit = Unit([f])
    set_parents(unit)
    msgs0 = unit_messages(unit)
    # the directed step on a copy (same mechanics as evolve.evolve)
    import copy

    u2, m2 = copy.deepcopy((unit, msgs0))
    set_parents(u2)
    pk2 = [m for m in m2 if m.name == "Packet"][0]
    target = pk2.sorted_fields()[1].type
    if variant == "message":
        b2 = target.target
        b2.items.append(Field("more", evolve._base(draw), 9))
        step = "append_field:base"
    else:
        room = (65535 - 64 - ref.nbits(pk2)) // max(1, ref.nbits(target.elem))
        grow = draw(st.sampled_from([1, 8, 100, max(1, (1 << k) - target.cap + 3)]))
        target.cap += max(1, min(grow, room))
        step = "grow_array"
        if variant == "array_of_message" and draw(st.booleans()):
            target.elem.target.items.append(Field("more", evolve._base(draw), 2))
            step = "grow_array+append_field"
    set_parents(u2)
    if any(ref.nbits(m) > 65535 for m in unit_messages(u2)):
        u2, m2 = unit, msgs0
    versions, msgs, steps = [unit, u2], [msgs0, m2], [[step]]
    if draw(st.integers(0, 2)) == 0:
        u3, m3, applied = evolve.evolve(draw, u2, m2)
        if applied:
            versions.append(u3)
            msgs.append(m3)
            steps.append(applied)
    rand = {j: [draw(S.values(m)) for _ in range(2)] for j, m in enumerate(msgs[-1])}
    targets = ["py"]
    q = draw(st.integers(0, 9))
    if q < 3:
        targets.append("c")
    if q >= 8 and k <= 11:
        targets.append("go")
    return Case(versions, msgs, steps, rand, targets, wide=(k, r, variant))


@st.composite
def nested_ext_histories(draw: Any) -> Case:
    """Extensible containers INSIDE extensible containers, extended at several levels at once: an extensible array
    whose element is an alias of an extensible array (2-d) or an extensible message holding an extensible array,
    where one new version grows the inner level, the outer level, or both; an older field follows."""
    import copy

    from ..model import Alias, Field, File, TArray, TBase, TRef, set_parents

    f = File("nest", "nest")
    box = Message("Box", draw(st.booleans()))
    lead = draw(st.integers(0, 7))
    if lead:
        box.items.append(Field("lead", TBase("uint", lead), 1))
    w = draw(st.sampled_from([1, 3, 5, 8, 12]))
    a, b = draw(st.integers(1, 4)), draw(st.integers(1, 4))
    shape = draw(st.sampled_from(["row_alias", "row_alias", "row_alias_of_alias", "msg_with_ext_array", "array_of_msg_with_ext_array"]))
    if shape in ("row_alias", "row_alias_of_alias"):
        inner = TArray(TBase("uint", w), a, True)
        row = Alias("Row", inner)
        f.items.append(row)
        elem = TRef("Row", row)
        if shape == "row_alias_of_alias":
            grid = Alias("Grid", TArray(elem, b, True))
            f.items.append(grid)
            box.items.append(Field("rows", TRef("Grid", grid), 2))
            outer = grid.type
        else:
            outer = TArray(elem, b, True)
            box.items.append(Field("rows", outer, 2))
    else:
        cell = Message("Cell", True)
        cell.items.append(Field("vals", TArray(TBase("uint", w), a, True), 1))
        inner = cell.fields()[0].type
        f.items.append(cell)
        if shape == "msg_with_ext_array":
            outer = None
            box.items.append(Field("cell", TRef("Cell", cell), 2))
        else:
            outer = TArray(TRef("Cell", cell), b, True)
            box.items.append(Field("cells", outer, 2))
    box.items.append(Field("tail", TBase("uint", draw(st.sampled_from([8, 3, 13]))), 3))
    f.items.append(box)
    unit = Unit([f])
    set_parents(unit)
    msgs0 = unit_messages(unit)
    versions, msgs, steps = [unit], [msgs0], []
    for _ in range(draw(st.sampled_from([1, 1, 2]))):
        u2, m2 = copy.deepcopy((versions[-1], msgs[-1]))
        set_parents(u2)
        box2 = [m for m in m2 if m.name == "Box"][0]
        fld = [x for x in box2.fields() if x.name in ("rows", "cell", "cells")][0]
        t = fld.type
        # find the levels again in the copy
        if shape == "row_alias_of_alias":
            outer2 = t.target.type
            inner2 = outer2.elem.target.type
        elif shape == "row_alias":
            outer2 = t
            inner2 = t.elem.target.type
        elif shape == "msg_with_ext_array":
            outer2 = None
            inner2 = t.target.fields()[0].type
        else:
            outer2 = t
            inner2 = t.elem.target.fields()[0].type
        what = draw(st.sampled_from(["both", "both", "inner", "outer"]))
        applied = []
        if what in ("both", "inner"):
            inner2.cap += draw(st.integers(1, 3))
            applied.append("grow_array:inner")
        if what in ("both", "outer") and outer2 is not None:
            outer2.cap += draw(st.integers(1, 3))
            applied.append("grow_array:outer")
        if shape in ("msg_with_ext_array", "array_of_msg_with_ext_array") and draw(st.booleans()):
            cell2 = [m for m in m2 if m.name == "Cell"][0]
            cell2.items.append(Field("more" + "x" * len(versions), evolve._base(draw), 2 + len(versions)))
            applied.append("append_field:base")
        if not applied:
            continue
        set_parents(u2)
        versions.append(u2)
        msgs.append(m2)
        steps.append(applied)
    rand = {j: [draw(S.values(m)) for _ in range(2)] for j, m in enumerate(msgs[-1])}
    return Case(versions, msgs, steps, rand, ["py", "c", "go"], nested=shape)


def describe(c: Case) -> Any:
    return {
        "versions": [render_bp.render_unit(u) for u in c.versions],
        "steps": c.steps,
        "targets": c.targets,
        "random_values_of_newest": {c.msgs[-1][j].name: v for j, v in c.rand.items()},
    }


def _followed(old: Message, new: Message) -> bool:
    """Is some extended region followed by an older leaf in old's wire order?"""
    lo = ref.leaves(old)
    ln = {lf.path: lf for lf in ref.leaves(new)}
    # a leaf of `old` whose offset in `new` moved means something before it grew
    shift_seen = False
    for lf in lo:
        nl = ln.get(lf.path)
        if nl is not None and nl.offset != lf.offset:
            shift_seen = True
    return shift_seen


def run_case(c: Case, stats: Stats) -> None:
    if len(c.versions) < 2:
        stats.exclude("no extension step applicable (nothing extensible)")
        return
    for st_ in c.steps:
        for s in st_:
            stats.count("step:" + s)
    if len(c.versions) >= 3:
        stats.count("chain3")
    if c.nested is not None:
        stats.count("nested_ext:" + c.nested)
        if any("grow_array:inner" in st_ and "grow_array:outer" in st_ for st_ in c.steps):
            stats.count("nested_ext:both_levels_grow_in_one_version")
    if c.wide is not None:
        stats.count(f"wide:prefix_value~2^{c.wide[0]}")
        stats.count(f"wide:bit_offset_{c.wide[1]}")
        stats.count(f"wide:{c.wide[2]}")
    comp = [gen.Compiled(u) for u in c.versions]
    try:
        mods = []
        for k, cu in enumerate(comp):
            try:
                mods.append(cu.load_python())
            except Exception as e:
                raise Violation(f"version {k} failed to compile for Python: {type(e).__name__}: {e} (steps {c.steps[:k]})", signature=f"compile:{type(e).__name__}")
        newest = len(c.versions) - 1
        digs = [cases.unit_digest(cu.texts) for cu in comp]
        new_msgs = c.msgs[newest]
        # encode with the newest version
        encoded: Dict[int, List[Any]] = {}
        for j, mk in enumerate(new_msgs):
            vecs = [v for _, v in S.basis_values(mk, 0)] + c.rand.get(j, [])
            out = []
            for v in vecs:
                want = ref.encode(mk, v)
                obj = pyexec.new_message(mods[newest], mk)
                pyexec.set_value(mods[newest], obj, mk, v)
                try:
                    got = bytes(obj.encode())
                except Exception as e:
                    raise Violation(f"newest version's Python encoder raised {type(e).__name__}: {e} for {mk.name}", {"value": v}, signature=f"newest-encode-exc:{type(e).__name__}")
                if got != want:
                    raise Violation(f"newest version's Python encoder differs from the specification for {mk.name}: {got.hex()} vs {want.hex()}", {"value": v}, signature="newest-encode")
                out.append((v, want))
            encoded[j] = out
        for i in range(newest):
            old_msgs = c.msgs[i]
            cdrv = None
            gou = None
            if "c" in c.targets:
                stats.count("target:c")
                try:
                    cdir = comp[i].render_all("c")
                    cdrv = cexec.CDriver(c.versions[i], cdir, old_msgs, cexec.CConfig("gcc", "-O1"), with_json=False, workdir=comp[i].outdir("drv"))
                except cexec.CBuildError as e:
                    raise Violation(f"version {i} C does not build: {e}", signature="cbuild")
            if "go" in c.targets:
                stats.count("target:go")
                try:
                    gou = goexec.GoUnit(c.versions[i], comp[i].render_all("go"))
                except goexec.GoUnsupported as e:
                    stats.inconclusive_(f"go interpreter: {str(e)[:80]}")
                    gou = None
                except (goexec.GoCompileError, goexec.GoSyntaxError) as e:
                    raise Violation(f"version {i} generated Go is rejected: {e}", signature="go-compile")
            cops: List[str] = []
            cmeta: List[Any] = []
            for j, mi in enumerate(old_msgs):
                mk = new_msgs[j]
                followed = _followed(mi, mk)
                if followed:
                    stats.count("followed_by_older_leaf")
                for v, data in encoded[j]:
                    expect = ref.project(mi, mk, v)
                    # Python
                    fresh = pyexec.new_message(mods[i], mi)
                    try:
                        fresh.decode(bytearray(data))
                        got = pyexec.get_value(fresh, mi)
                    except Exception as e:
                        raise Violation(
                            f"version {i} Python decoder raised {type(e).__name__}: {e} on data of version {newest} for {mi.name} (steps {c.steps[i:]})",
                            {"value": v, "bytes": data.hex()},
                            signature=f"py-decode-exc:{type(e).__name__}",
                        )
                    stats.evaluations += 1
                    if got != expect:
                        bad = _diff(mi, got, expect)
                        raise Violation(
                            f"version {i} Python decoder misreads data of version {newest} for {mi.name} (steps {c.steps[i:]}): {bad}",
                            {"value": v, "bytes": data.hex()},
                            signature="py-decode",
                        )
                    if followed:
                        stats.mark_nontrivial(digs[i], digs[newest], mi.name, v, "py")
                    if cdrv is not None:
                        cops.append(cexec.op_decode(j, data, 0))
                        cmeta.append((mi, v, data, expect, followed))
                    if gou is not None:
                        try:
                            gg = gou.decode(mi, data)
                        except goexec.GoUnsupported as e:
                            stats.inconclusive_(f"go interpreter: {str(e)[:80]}")
                            continue
                        except goexec.GoPanic as e:
                            raise Violation(f"version {i} Go decoder panics on data of version {newest} for {mi.name} (steps {c.steps[i:]}): {e}", {"value": v, "bytes": data.hex()}, signature="go-panic")
                        stats.evaluations += 1
                        if gg != expect:
                            raise Violation(f"version {i} Go decoder misreads data of version {newest} for {mi.name} (steps {c.steps[i:]}): {_diff(mi, gg, expect)}", {"value": v, "bytes": data.hex()}, signature="go-decode")
                        if followed:
                            stats.mark_nontrivial(digs[i], digs[newest], mi.name, v, "go")
            if cdrv is not None and cops:
                try:
                    resp = cdrv.run(cops)
                except cexec.Crash as cr:
                    mi, v, data, expect, followed = cmeta[min(cr.op_index, len(cmeta) - 1)]
                    raise Violation(f"version {i} C decoder crashed on data of version {newest} for {mi.name} (steps {c.steps[i:]}): {cr}", {"value": v, "bytes": data.hex()}, signature="c-crash")
                for line, (mi, v, data, expect, followed) in zip(resp, cmeta):
                    r = cexec.DecResp(line, mi)
                    stats.evaluations += 1
                    wantv = cexec.leaf_values(mi, expect)
                    if r.values != wantv or not r.fences_ok():
                        lvs = ref.leaves(mi)
                        bad = [(lvs[q].path, r.values[q], wantv[q]) for q in range(min(len(wantv), len(r.values))) if r.values[q] != wantv[q]][:5]
                        raise Violation(f"version {i} C decoder misreads data of version {newest} for {mi.name} (steps {c.steps[i:]}): {bad} fences={r.fences_ok()}", {"value": v, "bytes": data.hex()}, signature="c-decode")
                    if followed:
                        stats.mark_nontrivial(digs[i], digs[newest], mi.name, v, "c")
        # one receiver, several senders: a long-lived S_i process reads its own version's data and the data of EVERY later
        # version, interleaved (what a fleet in the middle of an upgrade does); nothing read earlier may influence a decode
        for i in range(newest):
            for j, mi in enumerate(c.msgs[i]):
                order = [i] + list(range(i + 1, newest + 1)) + [i] + list(range(newest, i, -1))
                for sidx in order:
                    ms = c.msgs[sidx][j]
                    for vname, v in S.basis_values(ms, 0)[1:]:
                        if vname not in ("ones", "alt0", "alt1"):
                            continue
                        data = ref.encode(ms, v)
                        expect = ref.project(mi, ms, v)
                        fresh = pyexec.new_message(mods[i], mi)
                        try:
                            fresh.decode(bytearray(data))
                            got = pyexec.get_value(fresh, mi)
                        except Exception as e:
                            raise Violation(f"version {i} Python decoder raised {type(e).__name__}: {e} on data of version {sidx} for {mi.name} after reading other versions' data (steps {c.steps})", {"value": v, "bytes": data.hex()}, signature=f"py-mixed-exc:{type(e).__name__}")
                        stats.evaluations += 1
                        if got != expect:
                            raise Violation(
                                f"version {i} Python decoder misreads data of version {sidx} for {mi.name} after having read data of other versions in the same process (order {order}, steps {c.steps}): {_diff(mi, got, expect)}",
                                {"value": v, "bytes": data.hex()},
                                signature="py-decode-mixed-senders",
                            )
        stats.count("mixed_senders")
        stats.sample({"steps": c.steps, "targets": c.targets, "oldest": comp[0].texts if len(str(comp[0].texts)) < 1200 else "(large)", "newest": comp[-1].texts if len(str(comp[-1].texts)) < 1500 else "(large)"})
    finally:
        for cu in comp:
            cu.close()


def _diff(m: Message, got: Any, expect: Any) -> Any:
    out = []
    for lf in ref.leaves(m):
        try:
            g = ref.get_path(got, lf.path)
        except Exception:
            g = "<missing>"
        e = ref.get_path(expect, lf.path)
        if g != e:
            out.append((lf.path, f"{lf.kind}{lf.bits}@{lf.offset}", g, e))
    return out[:5]


PARTS = [
    HypPart("history", lambda tier: histories(), run_case, {"quick": 640, "thorough": 12800}, describe=describe),
    HypPart("wide", lambda tier: wide_histories(), run_case, {"quick": 96, "thorough": 1920}, describe=describe),
    HypPart("nested", lambda tier: nested_ext_histories(), run_case, {"quick": 160, "thorough": 3200}, describe=describe),
]
