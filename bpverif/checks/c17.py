"""C17 — -O and -F restrict what is generated without altering it."""

from __future__ import annotations

import copy
import os
from dataclasses import dataclass, field
from typing import Any, Dict, List, Optional, Set, Tuple

from hypothesis import strategies as st

from .. import bpapi, cases, detutil, env, ref, render_bp, srcscan, strategies as S
from ..model import Alias, Field, File, Import, Message, TArray, TBase, TRef, Unit, enclosing_messages, iter_messages, set_parents
from ..runner import HypPart, Stats, Violation

ID = "C17"
LEVEL = "exploration"
TECHNIQUE = "metamorphic relations between compiler invocations; function text cut out with a brace-matching scanner"
RULE = (
    "A generated TRADITIONAL unit (1-3 files with imports, nested messages, aliases, arrays) and, in about half of the cases, "
    "a copy with exactly ONE extensible marker planted by a rule on the model: on a top-level message, a nested message, "
    "an array inside an alias or an array field, located in the compiled file, in a file it imports, in a file imported only "
    "by an import (transitive), or in a file it does not reach (control). x language {c, go, py} x -O on/off x -F "
    "{absent, all, single, strict non-empty subset, subset + unknown names, unknown names only (a prefix of a real name, a "
    "real name + 'X', 'Q' + a real name, lower-cased, an unused word), names of messages of an imported file, empty} x --endian {both, little, "
    "big} x -q. Names are the simple message names as written in the schema (the form the filter compares), nested ones "
    "included. Invocation: bitproto._main.main in-process with fatal() intercepted; ~4% of the cases and a third of the -O -F "
    "cases instead through the real command line (exit status, stderr, files). Oracles, all relations between invocations / with the model: (1) -F names without -O, "
    "-O with py, -O with a marker reachable from the compiled file => refusal = non-zero, a diagnostic on stderr produced "
    "by fatal() (no traceback), no file written; the same invocation on the unit WITHOUT the marker succeeds; a marker in an "
    "unreached file or without -O does not refuse. (2) -O [-F names] c/go: the set of Encode*/Decode* definitions in .c, "
    "of prototypes in .h, of Encode/Decode methods in .go equals exactly {messages of the compiled file whose name is in "
    "names} (all messages without -F), names taken from the model; each function's text (and prototype + comment) is "
    "identical to the one in the unfiltered -O output; header / .c / Go file minus those functions, prototypes and their "
    "comments are identical to the unfiltered ones and still declare every struct and size constant of the model. "
    "(3) without -O, --endian does not change any output byte; with -O, Go output and the C header do not depend on "
    "--endian and every C function for little/big is the respective #ifndef BP_BIG_ENDIAN branch of the 'both' text. "
    "evaluations = invocations judged. Non-trivial: the marker is not on a top-level message of the compiled file, or the "
    "filter is a strict non-empty subset of the compiled file's messages; distinct by (unit digest, marker site, "
    "compiled file, options)."
)
ASSUMPTIONS = [
    "type names are unique per unit (vocabulary), so a simple name selects at most one message; dotted forms (Outer.Inner) are not generated: the docs do not say how a nested message is named in -F",
    "an EMPTY -F list is not judged (undocumented; the code treats it as 'no filter', also without -O) - counted as excluded",
    "for a filter naming a message of an imported file (docs silent) the exact-set oracle is not applied (counted as excluded); everything else is still checked",
    "struct / function names follow the documented scheme (concatenated enclosing names) computed by ref.py",
    "blank-line runs are collapsed before comparing 'the rest of the file' (deleting a block leaves separators behind)",
]
REQUIRED_LABELS = [
    "marker:message_top",
    "marker:message_nested",
    "marker:alias_array",
    "marker:field_array",
    "marker_in:self",
    "marker_in:import1",
    "marker_in:import2",
    "marker_in:unreached",
    "refusal:marker",
    "refusal:py-O",
    "refusal:-F-without-O",
    "control:unmarked_succeeds",
    "filter:all",
    "filter:single",
    "filter:strict_subset",
    "filter:subset+unknown",
    "filter:unknown_only",
    "filter:nested_name",
    "filtered:c",
    "filtered:go",
    "endian:no-O",
    "endian:c-branch",
    "endian:go-O",
    "via:cli",
]


# ---------------------------------------------------------------------------
# Marker sites
# ---------------------------------------------------------------------------


def marker_sites(unit: Unit) -> List[Tuple[str, int, Any]]:
    """(kind, file index, node to set .ext on)"""
    out: List[Tuple[str, int, Any]] = []
    for k, f in enumerate(unit.files):
        for it in f.items:
            if isinstance(it, Alias) and isinstance(it.type, TArray):
                out.append(("alias_array", k, it.type))
        for m in iter_messages(f):
            out.append(("message_nested" if enclosing_messages(m) else "message_top", k, m))
            for fld in m.fields():
                if isinstance(fld.type, TArray):
                    out.append(("field_array", k, fld.type))
    return out


def reach(unit: Unit, k: int) -> Dict[int, str]:
    """file index -> 'self' | 'import1' | 'import2' for every file reachable from file k."""
    idx = {id(f): i for i, f in enumerate(unit.files)}
    out = {k: "self"}
    direct = [idx[id(imp.file)] for imp in unit.files[k].imports()]
    for d in direct:
        out[d] = "import1"
    todo = list(direct)
    while todo:
        x = todo.pop()
        for imp in unit.files[x].imports():
            j = idx[id(imp.file)]
            if j not in out:
                out[j] = "import2"
                todo.append(j)
    return out


def add_file(unit: Unit, proto: str, shape: int, imported_by: Optional[File]) -> File:
    """Prepends a small traditional file to the unit; `imported_by` (a file of the unit) gets an
    import of it that nothing uses.  All marker kinds are available in it."""
    used = {d.name for f in unit.files for d in f.items if hasattr(d, "name")} | {m.name for f in unit.files for m in iter_messages(f)}
    words = [w for w in S.TYPE_WORDS if w not in used]
    f = File(proto, proto)
    inner = Message(words[0], items=[Field("alt", TBase("uint", 5), 1)])
    outer = Message(words[1], items=[inner, Field("lat", TRef(words[0], inner), 2), Field("raw", TArray(TBase("byte"), 3), 1)])
    f.items.append(outer)
    if shape >= 1:
        al = Alias(words[2], TArray(TBase("uint", 3), 4))
        f.items.insert(0, al)
        outer.items.append(Field("hue", TRef(words[2], al), 7))
    if shape >= 2:
        f.items.append(Message(words[3], items=[Field("seq", TBase("int", 9), 3)]))
    unit.files.insert(0, f)
    if imported_by is not None:
        imported_by.items.insert(0, Import(f))
    set_parents(unit)
    return f


def valid_sizes(unit: Unit) -> bool:
    return all(ref.nbits(m) <= 65535 for f in unit.files for m in iter_messages(f))


# ---------------------------------------------------------------------------
# Case
# ---------------------------------------------------------------------------


@dataclass
class Case:
    unit: Unit  # traditional
    marked: Optional[Unit]  # the same unit with one marker (None: no marker in this case)
    marker_kind: str
    marker_in: str  # self | import1 | import2 | unreached | ''
    marker_desc: str
    compiled: int  # index of the compiled file
    lang: str
    optimize: bool
    filt: Optional[List[str]]
    filt_kind: str
    endian: str
    quiet: bool
    cli: bool
    style: render_bp.Style


@st.composite
def strategy_(draw: Any) -> Case:
    unit = draw(S.units(S.Features(extensible=False, ext_arrays=False, max_defs=5, bits_budget=400, big=False)))
    nfiles = len(unit.files)
    compiled = nfiles - 1 if draw(st.integers(0, 4)) else draw(st.integers(0, nfiles - 1))
    # post-processing of the model: sometimes add a file that is reached only through an import of
    # the compiled file (an unused import is legal), or a file nobody imports (control)
    aug = draw(st.sampled_from(["none", "none", "deep", "deep", "lone"]))
    if aug == "deep" and unit.files[compiled].imports():
        imps = unit.files[compiled].imports()
        via = imps[draw(st.integers(0, len(imps) - 1))].file
        add_file(unit, "deepx", draw(st.integers(0, 2)), imported_by=via)
        compiled += 1
    elif aug == "lone":
        add_file(unit, "lonex", draw(st.integers(0, 2)), imported_by=None)
        compiled += 1
    # a third of the -O -F cases look at a pair of same-width aliases of different kinds used first in two consecutive
    # messages, filtered to the LATER one: its functions must not depend on what was rendered before it
    directed = draw(st.integers(0, 5)) == 2 and S.add_flavour_pair(draw, unit, compiled)
    rch = reach(unit, compiled)

    marked = None
    mkind = min_ = mdesc = ""
    if draw(st.booleans()):
        cand = copy.deepcopy(unit)
        set_parents(cand)
        sites = marker_sites(cand)
        locs = sorted({rch.get(k, "unreached") for _, k, _ in sites})
        # location first, then kind, then site: rare classes (import2) get a fair share
        weights = [l for l in locs for _ in range({"unreached": 1, "import2": 5}.get(l, 3))]
        loc = draw(st.sampled_from(weights))
        sites = [s for s in sites if rch.get(s[1], "unreached") == loc]
        kinds = sorted({s[0] for s in sites})
        kind = draw(st.sampled_from(kinds))
        sites = [s for s in sites if s[0] == kind]
        j = draw(st.integers(0, len(sites) - 1))
        for off in range(len(sites)):
            _, k, node = sites[(j + off) % len(sites)]
            node.ext = True
            if valid_sizes(cand):
                marked, mkind, min_ = cand, kind, loc
                mdesc = f"{kind} in {cand.files[k].filename}: " + (node.name if isinstance(node, Message) else node.text())
                break
            node.ext = False

    lang = draw(st.sampled_from(["c", "c", "go", "go", "py"]))
    optimize = draw(st.integers(0, 3)) > 0
    endian = draw(st.sampled_from(["both", "both", "little", "big"]))

    own = [m.name for m in iter_messages(unit.files[compiled])]
    nested = [m.name for m in iter_messages(unit.files[compiled]) if enclosing_messages(m)]
    foreign = [m.name for k, f in enumerate(unit.files) if k != compiled and k in rch for m in iter_messages(f)]
    used = {m.name for f in unit.files for m in iter_messages(f)}

    def unknown() -> str:
        base = draw(st.sampled_from(own)) if own else "Abbey"
        form = draw(st.sampled_from([0, 1, 1, 2, 3, 4]))
        cand_ = [base[:-1], base + "X", "Q" + base, base.lower(), draw(st.sampled_from(S.TYPE_WORDS))][form]
        while cand_ in used or not cand_:
            cand_ += "Q"
        return cand_

    filt: Optional[List[str]] = None
    fk = "absent"
    if draw(st.integers(0, 3)) > 0:
        kinds_f = []
        if len(own) >= 2:
            kinds_f += ["strict_subset"] * 4
        if nested and len(own) >= 2:
            kinds_f += ["nested"] * 2
        if own:
            kinds_f += ["all", "single", "subset+unknown"] * 2
        if foreign:
            kinds_f += ["imported"] * 2
        kinds_f += ["unknown_only", "unknown_only", "empty"]
        fk = draw(st.sampled_from(kinds_f))
        if fk == "all":
            filt = list(draw(st.permutations(own)))
        elif fk == "single":
            filt = [draw(st.sampled_from(own))]
        elif fk == "strict_subset":
            n = draw(st.integers(1, len(own) - 1))
            filt = list(draw(st.permutations(own)))[:n]
        elif fk == "nested":
            filt = [draw(st.sampled_from(nested))]
            fk = "strict_subset"
        elif fk == "subset+unknown":
            n = draw(st.integers(1, len(own)))
            filt = list(draw(st.permutations(own)))[:n] + [unknown()]
            filt = list(draw(st.permutations(filt)))
        elif fk == "unknown_only":
            filt = [unknown() for _ in range(draw(st.integers(1, 2)))]
        elif fk == "imported":
            filt = [draw(st.sampled_from(foreign))] + ([draw(st.sampled_from(own))] if own and draw(st.booleans()) else [])
        else:
            filt = []
    if directed and marked is None:
        later = [it.name for it in unit.files[compiled].items if getattr(it, "name", "") in ("Holda", "Holdb")][-1]
        lang, optimize, endian, filt, fk = "c", True, draw(st.sampled_from(["both", "big", "both", "little"])), [later], "single"
    style = render_bp.Style(comments=draw(st.booleans()), seed=draw(st.integers(0, 999)))
    # the real command line: on ~4% of the cases, and on a third of the -O -F cases (the comma
    # splitting of the -F argument exists only there)
    if optimize and filt and lang != "py":
        cli = draw(st.sampled_from([False, False, True]))
    else:
        cli = draw(st.sampled_from([False] * 11 + [True]))
    return Case(unit, marked, mkind, min_, mdesc, compiled, lang, optimize, filt, fk, endian, draw(st.booleans()), cli, style)


def describe(c: Case) -> Any:
    u = c.marked or c.unit
    return {
        "files": render_bp.render_unit(u, c.style),
        "marker": c.marker_desc or None,
        "marker_in": c.marker_in,
        "compiled": u.files[c.compiled].filename,
        "invocation": invocation_text(c.lang, c.optimize, c.filt, c.endian, c.quiet),
        "via_cli": c.cli,
    }


def invocation_text(lang: str, optimize: bool, filt: Optional[List[str]], endian: str, quiet: bool) -> str:
    a = ["bitproto", lang, "<file>", "<out>"]
    if optimize:
        a.append("-O")
    if filt is not None:
        a += ["-F", repr(",".join(filt))]
    if endian != "both":
        a += ["--endian", endian]
    if quiet:
        a.append("-q")
    return " ".join(a)


# ---------------------------------------------------------------------------
# Invocation
# ---------------------------------------------------------------------------


@dataclass
class Run:
    code: int
    stderr: str
    exc: Optional[BaseException]
    texts: Dict[str, str]  # output file name -> content
    what: str
    new_in_src: List[str] = field(default_factory=list)


class Site:
    """A unit written to disk once; invocations get fresh output directories."""

    def __init__(self, unit: Unit, style: render_bp.Style, root: str, tag: str):
        self.unit = unit
        self.src = os.path.join(root, "src_" + tag)
        os.makedirs(self.src)
        self.texts = render_bp.render_unit(unit, style)
        bpapi.write_files(self.src, self.texts)
        self.root = root
        self.tag = tag
        self.n = 0

    def invoke(self, k: int, lang: str, optimize: bool, filt: Optional[List[str]], endian: str, quiet: bool, cli: bool = False) -> Run:
        self.n += 1
        out = os.path.join(self.root, f"out_{self.tag}_{self.n}")
        os.makedirs(out)
        path = os.path.join(self.src, self.unit.files[k].filename)
        what = invocation_text(lang, optimize, filt, endian, quiet) + (" [cli]" if cli else "")
        if cli:
            args = [lang, path, out]
            if optimize:
                args.append("-O")
            if filt is not None:
                args += ["-F", ",".join(filt)]
            if endian != "both":
                args += ["--endian", endian]
            if quiet:
                args.append("-q")
            r = bpapi.cli(args, cwd=self.root)
            run = Run(r.returncode, r.stderr, None, detutil.output_texts(out), what)
        else:
            r2 = bpapi.main_inprocess(path, lang=lang, outdir=out, disable_linter=quiet, enable_optimize=optimize, filter_messages=filt, endian=endian)
            run = Run(r2.code, r2.stderr, r2.exc, detutil.output_texts(out), what)
        run.new_in_src = sorted(set(os.listdir(self.src)) - set(self.texts))
        return run


def expect_refusal(run: Run, why: str, info: dict) -> None:
    if run.exc is not None:
        raise Violation(f"{why}: expected a diagnostic, got an internal {type(run.exc).__name__}: {run.exc} ({run.what})", info, signature=f"refusal-exc:{type(run.exc).__name__}")
    if run.code == 0:
        raise Violation(f"{why}: expected refusal, but exit status 0 and files {sorted(run.texts)} ({run.what})", info, signature="not-refused:" + why.split(":")[0])
    if not run.stderr.strip():
        raise Violation(f"{why}: refused with exit {run.code} but nothing on stderr ({run.what})", info, signature="refusal-silent")
    if "Traceback (most recent call last)" in run.stderr:
        raise Violation(f"{why}: refusal is a traceback, not a diagnostic ({run.what}): {run.stderr[-300:]}", info, signature="refusal-traceback")
    if run.texts or run.new_in_src:
        raise Violation(f"{why}: refused (exit {run.code}) but files were written: {sorted(run.texts) + run.new_in_src} ({run.what})", info, signature="refusal-wrote-files")


def expect_success(run: Run, why: str, info: dict) -> None:
    if run.exc is not None:
        raise Violation(f"{why}: internal {type(run.exc).__name__}: {run.exc} ({run.what})", info, signature=f"success-exc:{type(run.exc).__name__}")
    if run.code != 0:
        raise Violation(f"{why}: expected success, got exit {run.code}: {run.stderr.strip()[-300:]} ({run.what})", info, signature="refused:" + why.split(":")[0])
    if not run.texts:
        raise Violation(f"{why}: exit 0 but no output file ({run.what})", info, signature="no-output")


# ---------------------------------------------------------------------------
# Function sets and texts
# ---------------------------------------------------------------------------


def split_outputs(lang: str, texts: Dict[str, str], info: dict) -> Dict[str, Tuple[str, List[srcscan.Item]]]:
    """role -> (text, encoder/decoder items); roles: c: 'h', 'c'; go: 'go'."""
    out: Dict[str, Tuple[str, List[srcscan.Item]]] = {}
    try:
        for name, t in texts.items():
            if lang == "c" and name.endswith(".h"):
                out["h"] = (t, srcscan.c_prototypes(t))
                if srcscan.c_definitions(t):
                    raise Violation(f"function definition in header {name}", info, signature="def-in-header")
            elif lang == "c" and name.endswith(".c"):
                out["c"] = (t, srcscan.c_definitions(t))
            elif lang == "go" and name.endswith(".go"):
                out["go"] = (t, srcscan.go_methods(t))
    except srcscan.ScanError as e:
        raise Violation(f"generated text cannot be scanned: {e}", info, signature="scan")
    want = {"c": ["c", "h"], "go": ["go"]}[lang]
    if sorted(out) != want:
        raise Violation(f"expected output files for roles {want}, got {sorted(texts)}", info, signature="output-files")
    return out


def check_function_set(lang: str, parts: Dict[str, Tuple[str, List[srcscan.Item]]], expected: Set[str], what: str, info: dict) -> None:
    want = sorted((k, n) for n in expected for k in ("Decode", "Encode"))
    for role, (_t, items) in sorted(parts.items()):
        try:
            got = sorted(srcscan.by_key(items))
        except srcscan.ScanError as e:
            raise Violation(f"{what}: {e} in the .{role} output", info, signature="dup-function")
        if got != want:
            missing = sorted(set(want) - set(got))
            extra = sorted(set(got) - set(want))
            raise Violation(
                f"{what}: encoder/decoder functions in the .{role} output are not exactly those of the selected messages: missing {[k + n for k, n in missing]}, unexpected {[k + n for k, n in extra]}",
                info,
                signature=f"function-set:{role}:{'missing' if missing else 'extra'}",
            )


def check_declarations(lang: str, parts: Dict[str, Tuple[str, List[srcscan.Item]]], msgs: List[Message], what: str, info: dict) -> None:
    """Every struct and size constant of the model is still declared."""
    if lang == "c":
        t = parts["h"][0]
        for m in msgs:
            sn = ref.c_type_name(m)
            for needle in (f"struct {sn} {{", f"#define BYTES_LENGTH_{ref.upper_snake(sn)} "):
                if needle not in t:
                    raise Violation(f"{what}: header lacks `{needle.strip()}`", info, signature="declaration-missing")
    else:
        t = parts["go"][0]
        for m in msgs:
            sn = ref.go_struct_name(m)
            for needle in (f"type {sn} struct {{", f"func (m *{sn}) Size() uint32"):
                if needle not in t:
                    raise Violation(f"{what}: Go file lacks `{needle}`", info, signature="declaration-missing")


def first_diff(a: str, b: str) -> str:
    la, lb = a.split("\n"), b.split("\n")
    for i in range(max(len(la), len(lb))):
        x = la[i] if i < len(la) else "<eof>"
        y = lb[i] if i < len(lb) else "<eof>"
        if x != y:
            return f"line {i + 1}: {x!r} vs {y!r}"
    return "?"


def compare_filtered(lang: str, filtered: Dict[str, Tuple[str, List[srcscan.Item]]], full: Dict[str, Tuple[str, List[srcscan.Item]]], what: str, info: dict) -> int:
    n = 0
    for role in sorted(filtered):
        tf, itf = filtered[role]
        ta, ita = full[role]
        all_ = srcscan.by_key(ita)
        for key, it in sorted(srcscan.by_key(itf).items()):
            other = all_.get(key)
            if other is None:
                raise Violation(f"{what}: {key[0]}{key[1]} exists with -F but not without", info, signature="only-filtered")
            if it.text != other.text:
                raise Violation(f"{what}: text of {key[0]}{key[1]} in the .{role} output differs from the unfiltered one ({first_diff(it.text, other.text)})", info, signature=f"function-text:{role}")
            if it.comment != other.comment:
                raise Violation(f"{what}: comment of {key[0]}{key[1]} in the .{role} output differs from the unfiltered one", info, signature=f"function-comment:{role}")
            n += 1
        try:
            rf, ra = srcscan.remainder(tf, itf), srcscan.remainder(ta, ita)
        except srcscan.ScanError as e:
            raise Violation(f"{what}: {e}", info, signature="scan")
        if rf != ra:
            raise Violation(f"{what}: the .{role} output minus encoder/decoder functions differs from the unfiltered one ({first_diff(rf, ra)})", info, signature=f"remainder:{role}")
    return n


# ---------------------------------------------------------------------------
# run_case
# ---------------------------------------------------------------------------


def run_case(c: Case, stats: Stats) -> None:
    root = env.scratch_dir("c17")
    try:
        _run(c, stats, root)
    finally:
        env.rmtree(root)


def _run(c: Case, stats: Stats, root: str) -> None:
    plain = Site(c.unit, c.style, root, "plain")
    marked = Site(c.marked, c.style, root, "marked") if c.marked is not None else None
    site = marked or plain
    k = c.compiled
    fmsgs = list(iter_messages(c.unit.files[k]))
    own = {m.name for m in fmsgs}
    info = {"marker": c.marker_desc, "compiled": c.unit.files[k].filename}
    digest = cases.unit_digest(site.texts)
    optkey = (c.lang, c.optimize, tuple(c.filt) if c.filt is not None else None, c.endian, c.quiet, c.cli)

    if marked:
        stats.count("marker:" + c.marker_kind, "marker_in:" + c.marker_in)
    stats.count("lang:" + c.lang, "filter:" + c.filt_kind, "-O" if c.optimize else "no-O")
    if len(c.unit.files) > 1:
        stats.count("multi_file")
    if c.filt and any(enclosing_messages(m) and m.name in c.filt for m in fmsgs):
        stats.count("filter:nested_name")
    if c.cli:
        stats.count("via:cli")

    if c.filt is not None and not c.filt:
        stats.exclude("empty -F list (undocumented; treated as no filter)")
        return

    strict_subset = bool(c.filt) and 0 < len(own & set(c.filt)) < len(own)
    nontrivial = (marked is not None and (c.marker_kind != "message_top" or c.marker_in != "self")) or strict_subset

    run = site.invoke(k, c.lang, c.optimize, c.filt, c.endian, c.quiet, cli=c.cli)
    stats.evaluations += 1
    stats.target("cli" if c.cli else "inprocess")

    reasons = []
    if c.filt and not c.optimize:
        reasons.append("-F-without-O")
    if c.optimize and c.lang == "py":
        reasons.append("py-O")
    if c.optimize and marked is not None and c.marker_in != "unreached":
        reasons.append("marker")

    if reasons:
        for r in reasons:
            stats.count("refusal:" + r)
        expect_refusal(run, "+".join(reasons) + f": {c.marker_desc}" if "marker" in reasons else "+".join(reasons), info)
        if reasons == ["marker"]:
            # the same invocation on the same schema without the marker must succeed
            ctl = plain.invoke(k, c.lang, c.optimize, c.filt, c.endian, c.quiet, cli=c.cli)
            stats.evaluations += 1
            stats.count("control:unmarked_succeeds")
            expect_success(ctl, "control: same invocation without the marker", info)
        if nontrivial:
            stats.mark_nontrivial(digest, c.marker_desc, k, optkey)
        if marked is not None and "marker" in reasons:
            stats.sample({"marker": c.marker_desc, "marker_in": c.marker_in, "invocation": run.what, "exit": run.code, "stderr": run.stderr.strip()[-200:], "files": site.texts if len(str(site.texts)) < 1200 else "(large)"})
        return

    why = "no refusal reason"
    if marked is not None:
        why = "marker in a file the compiled file does not reach" if c.marker_in == "unreached" else "marker without -O"
        stats.count("control:marker_no_refusal")
    expect_success(run, why, info)

    if not c.optimize:
        # --endian must not matter without -O
        if c.endian != "both":
            other = site.invoke(k, c.lang, False, None, "both", c.quiet)
            stats.evaluations += 1
            stats.count("endian:no-O")
            expect_success(other, "same invocation with --endian both", info)
            if other.texts != run.texts:
                bad = [n for n in sorted(set(other.texts) | set(run.texts)) if other.texts.get(n) != run.texts.get(n)]
                raise Violation(f"--endian {c.endian} changed the output {bad} although -O is absent ({run.what})", info, signature="endian-without-O")
        return

    # -O, c or go, no reachable marker
    parts = split_outputs(c.lang, run.texts, info)
    full_run = run
    if c.filt:
        full_run = site.invoke(k, c.lang, True, None, c.endian, c.quiet)
        stats.evaluations += 1
        expect_success(full_run, "same invocation without -F", info)
    full = split_outputs(c.lang, full_run.texts, info)
    names = {"c": ref.c_type_name, "go": ref.go_struct_name}[c.lang]
    check_function_set(c.lang, full, {names(m) for m in fmsgs}, f"-O without -F ({full_run.what})", info)
    check_declarations(c.lang, full, fmsgs, f"-O without -F ({full_run.what})", info)
    if c.filt:
        stats.count("filtered:" + c.lang)
        foreign_named = [n for n in c.filt if n not in own and any(m.name == n for f in c.unit.files for m in iter_messages(f))]
        if foreign_named:
            stats.exclude("exact function set not judged: filter names a message of an imported file (undocumented)")
        else:
            check_function_set(c.lang, parts, {names(m) for m in fmsgs if m.name in c.filt}, f"-O -F {','.join(c.filt)} ({run.what})", info)
        check_declarations(c.lang, parts, fmsgs, f"-O -F {','.join(c.filt)}", info)
        n = compare_filtered(c.lang, parts, full, f"-O -F {','.join(c.filt)} ({run.what})", info)
        stats.extra["functions_compared"] = stats.extra.get("functions_compared", 0) + n
    if c.endian != "both":
        both = site.invoke(k, c.lang, True, None, "both", c.quiet)
        stats.evaluations += 1
        expect_success(both, "same invocation with --endian both", info)
        bparts = split_outputs(c.lang, both.texts, info)
        if c.lang == "go":
            stats.count("endian:go-O")
            if both.texts != full_run.texts:
                raise Violation(f"--endian {c.endian} changed the Go -O output (documented: no effect on Go)", info, signature="endian-go")
        else:
            stats.count("endian:c-branch")
            if bparts["h"][0] != full["h"][0]:
                raise Violation(f"--endian {c.endian} changed the -O header ({first_diff(bparts['h'][0], full['h'][0])})", info, signature="endian-header")
            bk = srcscan.by_key(bparts["c"][1])
            for key, it in sorted(srcscan.by_key(full["c"][1]).items()):
                try:
                    want = srcscan.select_endian_branch(bk[key].text, c.endian)
                except srcscan.ScanError as e:
                    raise Violation(f"--endian both text of {key[0]}{key[1]}: {e}", info, signature="scan")
                if it.text != want:
                    raise Violation(f"--endian {c.endian}: {key[0]}{key[1]} is not the {c.endian} branch of the --endian both text ({first_diff(it.text, want)})", info, signature="endian-branch")
    if nontrivial:
        stats.mark_nontrivial(digest, c.marker_desc, k, optkey)
    if c.filt:
        stats.sample({"invocation": run.what, "compiled": c.unit.files[k].filename, "messages": sorted(own), "functions": sorted({it.kind + it.name for _t, its in parts.values() for it in its}), "files": site.texts if len(str(site.texts)) < 1200 else "(large)"})


def selftest() -> None:
    srcscan.selftest()


PARTS = [HypPart("invocations", lambda tier: strategy_(), run_case, {"quick": 2400, "thorough": 48000}, describe=describe)]
