"""C16 — JSON output is valid JSON that states the message's values."""

from __future__ import annotations

import json
from typing import Any, List

from hypothesis import strategies as st

from .. import cases, cexec, gen, pyexec, ref, strategies as S
from ..model import Enum, Message, TArray, TBase, resolve, unit_messages
from ..runner import HypPart, Stats, Violation
from .c03 import CONFIGS

ID = "C16"
LEVEL = "exploration"
RULE = (
    "Generated units x in-range values (zero/ones/min/max incl. negative extremes and 64-bit values >= 2^63, random; one-hot "
    "basis for messages <= 128 bits) x build drawn from {gcc -O0..-O3, clang -O2} x c.struct_packing_alignment {unset, 1, 2, 4, 8}. Python to_json() and to_dict(), and the "
    "generated C Json<Msg>() text (written into a fenced buffer), are parsed with json.loads (object_pairs_hook keeps key "
    "order and duplicate keys visible) and compared with the value tree computed from the model: keys = schema field names in "
    "field-number order, ints as numbers, bools as true/false, arrays and byte arrays as lists, nested messages as objects, "
    "enums as numbers; Python == C. evaluations = (message, value) comparisons. Non-trivial: message contains two of "
    "{negative signed value, value >= 2^63, nested message, array, bool, enum, byte array}; distinct by (schema digest, message, value)."
)
ASSUMPTIONS = [
    "json.loads of CPython is the JSON well-formedness oracle",
    "in-range values; C struct zero-initialised then assigned through documented member names",
    "LP64 target (the C formatter's %ld/%lu conversions are LP64-correct only; other data models are out of reach here)",
]
REQUIRED_LABELS = ["has_negative", "has_u64_big", "has_bytearray", "enum_leaf", "nested_value", "array_of_message"]


def expected(t: Any, v: Any) -> Any:
    t = resolve(t)
    if isinstance(t, TBase):
        return bool(v) if t.kind == "bool" else int(v)
    if isinstance(t, Enum):
        return int(v)
    if isinstance(t, TArray):
        return [expected(t.elem, x) for x in v]
    if isinstance(t, Message):
        return [(f.name, expected(f.type, v[f.name])) for f in t.sorted_fields()]
    raise TypeError(t)


def pairs_hook(pairs: List[Any]) -> Any:
    return [(k, v) for k, v in pairs]


def _strict_eq(a: Any, b: Any) -> bool:
    """Equality that distinguishes bool from int (JSON true != 1)."""
    if isinstance(a, bool) or isinstance(b, bool):
        return isinstance(a, bool) and isinstance(b, bool) and a == b
    if isinstance(a, (list, tuple)) and isinstance(b, (list, tuple)):
        return len(a) == len(b) and all(_strict_eq(x, y) for x, y in zip(a, b))
    if isinstance(a, float) or isinstance(b, float):
        return False
    return a == b


def dict_to_pairs(t: Any, d: Any) -> Any:
    """Python to_dict() output -> same shape as expected() (bytearrays element-wise)."""
    t = resolve(t)
    if isinstance(t, Message):
        if not isinstance(d, dict):
            return ("not-a-dict", repr(d))
        return [(k, dict_to_pairs(_ftype(t, k), x)) for k, x in d.items()]
    if isinstance(t, TArray):
        return [dict_to_pairs(t.elem, x) for x in list(d)]
    if isinstance(t, TBase) and t.kind == "bool":
        return d
    if isinstance(t, (TBase, Enum)):
        return int(d) if isinstance(d, int) and not isinstance(d, bool) else d
    return d


def _ftype(m: Message, name: str) -> Any:
    for f in m.fields():
        if f.name == name:
            return f.type
    return TBase("bool")


def value_labels(m: Message, v: Any) -> List[str]:
    labs = set()
    for lf in ref.leaves(m):
        x = ref.get_path(v, lf.path)
        if lf.kind == "int" and x < 0:
            labs.add("has_negative")
        if lf.kind == "uint" and x >= 1 << 63:
            labs.add("has_u64_big")
        if lf.kind == "bool":
            labs.add("has_bool")
        if lf.kind == "byte" and isinstance(lf.path[-1], int):
            labs.add("has_bytearray")
        if lf.kind == "enum":
            labs.add("has_enum")
    return sorted(labs)


def strategy(tier: str) -> Any:
    return cases.sv_cases(S.Features(), nrand=2, config=st.fixed_dictionaries({"cc_opt": st.sampled_from(CONFIGS), "build": cexec.build_variation(), "single_tu": st.booleans(), "align": st.sampled_from([0, 0, 0, 1, 2, 4, 8])}))


def run_case(case: cases.SVCase, stats: Stats) -> None:
    cc, opt = case.config.get("cc_opt", ("gcc", "-O0"))
    cfg = cexec.apply_variation(cexec.CConfig(cc=cc, opt=opt, single_tu=case.config.get("single_tu", False)), case.config.get("build", {}))
    if cfg.pre_includes or cfg.extra or cfg.lib_std:
        stats.count("cfg:build_variation")
    align = case.config.get("align", 0)
    if align:
        # documented option: packed structs with the given alignment (members then sit at addresses their type is not aligned for)
        for f in case.unit.files:
            if not any(o[0] == "c.struct_packing_alignment" for o in f.options):
                f.options.append(("c.struct_packing_alignment", align))
        stats.count("cfg:packed")
    with gen.Compiled(case.unit, case.style) as cu:
        try:
            cdir = cu.render_all("c")
            mods = cu.load_python()
        except Exception as e:
            raise Violation(f"valid schema could not be compiled: {type(e).__name__}: {e}", signature=f"compile:{type(e).__name__}")
        allm = unit_messages(case.unit)
        msgs = [m for m in allm if not ref.has_empty_enum(m)]
        if not msgs:
            return
        try:
            drv = cexec.CDriver(case.unit, cdir, msgs, cfg, with_json=True, workdir=cu.outdir("drv"))
        except cexec.CBuildError as e:
            raise Violation(f"generated C does not build ({cfg}): {e}", signature="cbuild")
        digest = cases.unit_digest(cu.texts)
        for lab in S.unit_labels(case.unit):
            stats.count(lab)
        index_of = {id(m): i for i, m in enumerate(allm)}
        ops: List[str] = []
        meta: List[Any] = []
        for k, m in enumerate(msgs):
            for vname, v in cases.vectors(case, index_of[id(m)], m, basis_limit_bits=128):
                want = expected(m, v)
                # Python
                obj = pyexec.new_message(mods, m)
                pyexec.set_value(mods, obj, m, v)
                try:
                    text = obj.to_json()
                except Exception as e:
                    raise Violation(f"Python {m.name}.to_json() raised {type(e).__name__}: {e} ({vname})", {"value": v}, signature=f"py-json-exc:{type(e).__name__}")
                try:
                    got = json.loads(text, object_pairs_hook=pairs_hook)
                except Exception as e:
                    raise Violation(f"Python {m.name}.to_json() is not well-formed JSON: {e}: {text[:300]}", {"value": v}, signature="py-json-malformed")
                if not _strict_eq(got, want):
                    raise Violation(f"Python {m.name}.to_json() states {str(got)[:600]} but the message holds {str(want)[:600]} ({vname})", {"value": v, "text": text[:2000]}, signature="py-json-value")
                try:
                    d = obj.to_dict()
                except Exception as e:
                    raise Violation(f"Python {m.name}.to_dict() raised {type(e).__name__}: {e}", {"value": v}, signature=f"py-dict-exc:{type(e).__name__}")
                gd = dict_to_pairs(m, d)
                if not _strict_eq(gd, want):
                    raise Violation(f"Python {m.name}.to_dict() gives {str(gd)[:600]} but the message holds {str(want)[:600]} ({vname})", {"value": v}, signature="py-dict-value")
                ops.append(cexec.op_json(k, m, v))
                meta.append((m, vname, v, want, got))
        try:
            resp = drv.run(ops)
        except cexec.Crash as c:
            m, vname, v, want, got = meta[min(c.op_index, len(meta) - 1)]
            raise Violation(f"C driver died ({cfg}) in Json{cexec.struct_name(m)} vector {vname}: {c}", {"value": v}, signature="crash")
        for line, (m, vname, v, want, pygot) in zip(resp, meta):
            stats.evaluations += 1
            r = cexec.JsonResp(line)
            if not r.fences_ok():
                raise Violation(f"Json{cexec.struct_name(m)} wrote outside its buffer/struct (struct={r.struct_canary} buf={r.buf_canary})", {"value": v}, signature="json-fence")
            if r.rc != len(r.text.encode("utf-8", "replace")):
                raise Violation(f"Json{cexec.struct_name(m)} returned {r.rc} but wrote {len(r.text)} characters", {"value": v}, signature="json-rc")
            try:
                cgot = json.loads(r.text, object_pairs_hook=pairs_hook)
            except Exception as e:
                raise Violation(f"C Json{cexec.struct_name(m)} ({cfg}) is not well-formed JSON: {e}: {r.text[:300]}", {"value": v}, signature="c-json-malformed")
            if not _strict_eq(cgot, want):
                raise Violation(f"C Json{cexec.struct_name(m)} ({cfg}) states {str(cgot)[:600]} but the message holds {str(want)[:600]} ({vname})", {"value": v, "text": r.text[:2000]}, signature="c-json-value")
            if not _strict_eq(cgot, pygot):
                raise Violation(f"C and Python JSON differ for {m.name} ({vname})", {"value": v}, signature="c-vs-py-json")
            vl = value_labels(m, v)
            for l in vl:
                stats.count(l)
            mlabs = set(S.message_labels(m))
            feats = set(vl) | ({"nested_value", "array"} & mlabs)
            if len(feats) >= 2:
                stats.mark_nontrivial(digest, m.name, v)
        if meta:
            m, vname, v, want, got = meta[-1]
            stats.sample({"build": cfg.tag(), "message": m.name, "json": json.dumps(v)[:600]})


PARTS = [
    HypPart("gen", strategy, run_case, {"quick": 480, "thorough": 9600}, describe=cases.describe),
]
