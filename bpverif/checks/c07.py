"""C07 — Encoding touches exactly its bytes, and each field exactly its bits."""

from __future__ import annotations

from dataclasses import dataclass, field
from typing import Any, Dict, List, Optional

from hypothesis import strategies as st

from .. import cases, cexec, gen, pyexec, ref, strategies as S
from ..model import Message, Unit, unit_messages
from ..runner import HypPart, Stats, Violation

ID = "C07"
LEVEL = "exploration"
RULE = (
    "Generated units x values INCLUDING out-of-range integers (part 'stride': the same on arrays of padded structs whose in-memory size crosses 64 KiB, c.struct_packing_alignment 4/8). Part 'c': per case a build drawn from {guard-page build gcc "
    "-O2 / -O0, ASan+UBSan build (alignment check excluded)} x {standard, optimization mode when the schema is traditional}; "
    "the driver encodes into an exactly sized buffer placed flush against a PROT_NONE page (both placements: before the "
    "upper guard, after the lower guard) and decodes from such a buffer into an exactly sized struct; integer leaves are "
    "loaded with arbitrary full-width storage patterns. Oracles: (1) BYTES_LENGTH_* macro, Python BYTES_LENGTH == "
    "ceil(N/8), Go BYTES_LENGTH_* constant and Size() == ceil(N/8); (2) no trap, no canary change, no sanitizer report, input buffer unchanged by decode; (3) containment: "
    "encode(v with leaves overdriven) == reference encode(v reduced mod 2^n). Part 'py': same containment for the Python "
    "encoder with arbitrary (huge / negative) integers. evaluations = fenced operations. Non-trivial: total bits not a "
    "multiple of 8, or last leaf reaches a word copy (width+offset >= 16), or an overdriven leaf that is not the last "
    "one; distinct by (schema digest, message, raw value, build, placement)."
)
ASSUMPTIONS = [
    "ref.py is the specification (value taken modulo 2^n is what 'low n bits' means)",
    "bool members hold 0/1 and enum members hold declared values (only integer leaves are overdriven, as the property states)",
    "x86-64, 4 KiB pages; ASan/UBSan of clang 14 / gcc 12; -fno-sanitize=alignment as the property excludes alignment",
    "Go BYTES_LENGTH_* constants and Size() literals are read from the parsed Go file (bpverif.gointerp parser)",
]
REQUIRED_LABELS = ["element_struct_ge_64KiB", "cfg:san", "cfg:guard", "cfg:opmode", "cfg:go-size", "overdriven", "total_not_mult8", "batch_array"]


@dataclass
class Case:
    unit: Unit
    raws: Dict[int, List[List[int]]]  # message index -> list of raw leaf vectors
    config: Dict[str, Any] = field(default_factory=dict)


def raw_leaf(lf: ref.Leaf) -> Any:
    if lf.kind == "bool":
        return st.sampled_from([0, 1])
    if lf.kind == "enum":
        return st.sampled_from(lf.enum.values())
    lo, hi = ref.leaf_range(lf)
    n = lf.bits
    inr = st.integers(lo, hi)
    return st.one_of(
        inr,
        st.tuples(inr, st.integers(-3, 3)).map(lambda t, n=n: t[0] + t[1] * (1 << n)),
        st.integers(-(1 << 63), (1 << 64) - 1),
        st.sampled_from([(1 << 64) - 1, 1 << n if n < 64 else 0, (1 << n) - 1, -1, 1 << 63, (1 << 63) - 1, 0xAAAAAAAAAAAAAAAA, 0x5555555555555555]),
    )


@st.composite
def c_cases(draw: Any, python_only: bool = False, stride: bool = False) -> Case:
    traditional = stride or draw(st.booleans())
    feat = S.Features(extensible=not traditional, ext_arrays=not traditional)
    sc = None
    if stride:
        # in-memory sizes at the 64 KiB line (see cases.stride_cases)
        sc = draw(cases.stride_cases())
        unit = sc.unit
    else:
        unit = draw(S.units(feat))
    raws: Dict[int, List[List[int]]] = {}
    for i, m in enumerate(unit_messages(unit)):
        if ref.has_empty_enum(m):
            continue
        lvs = ref.leaves(m)
        if len(lvs) > 600:
            if len(lvs) > 1500:
                import random as _random

                rnd = _random.Random(draw(st.integers(0, 2**32 - 1)))  # one drawn seed: a case has room for ~8k draws
            else:
                rnd = draw(st.randoms(use_true_random=False))
            vec = []
            for lf in lvs:
                if lf.kind == "bool":
                    vec.append(rnd.randint(0, 1))
                elif lf.kind == "enum":
                    vec.append(rnd.choice(lf.enum.values()))
                else:
                    vec.append(rnd.getrandbits(64))
            raws[i] = [vec]
        else:
            raws[i] = [[draw(raw_leaf(lf)) for lf in lvs] for _ in range(2)]
    cfg = {
        "traditional": traditional,
        "build": draw(st.sampled_from(["guard-O2", "guard-O0", "san-gcc", "san-clang", "guard-O3"])),
        "opmode": traditional and sc is None and draw(st.booleans()),  # (strides are a matter of the descriptor-driven standard mode)
        "endian": draw(st.sampled_from(["both", "little", "big"])),
        "align": draw(st.sampled_from([0, 0, 0, 1, 2, 4, 8])) if sc is None else sc.config["align"],
        "variation": draw(cexec.build_variation()),
    }
    if sc is not None:
        cfg["stride_bytes"] = sc.config["stride_bytes"]
    return Case(unit, raws, cfg)


def describe(case: Case) -> Any:
    from .. import render_bp

    msgs = unit_messages(case.unit)
    return {"files": render_bp.render_unit(case.unit), "raw_leaf_vectors": {msgs[i].name: v for i, v in case.raws.items()}, "config": case.config}


def _cfg(build: str) -> cexec.CConfig:
    if build == "guard-O2":
        return cexec.CConfig("gcc", "-O2")
    if build == "guard-O0":
        return cexec.CConfig("gcc", "-O0")
    if build == "guard-O3":
        return cexec.CConfig("gcc", "-O3")
    if build == "san-gcc":
        return cexec.CConfig("gcc", "-O1", sanitize=True)
    return cexec.CConfig("clang", "-O1", sanitize=True)


def _reduced_value(m: Message, raw: List[int]) -> Any:
    """Value tree with every integer leaf reduced to its declared range."""
    vals = []
    for lf, x in zip(ref.leaves(m), raw):
        if lf.kind == "bool":
            vals.append(bool(x))
        elif lf.kind == "enum":
            vals.append(x)
        else:
            y = x % (1 << lf.bits)
            if lf.kind == "int" and y >= 1 << (lf.bits - 1):
                y -= 1 << lf.bits
            vals.append(y)
    return S.build_value(m, vals)


def _nontrivial(m: Message, raw: List[int]) -> bool:
    lvs = ref.leaves(m)
    if not lvs:
        return False
    if ref.nbits(m) % 8:
        return True
    last = lvs[-1]
    if (last.offset % 8) + last.bits >= 16:
        return True
    for lf, x in zip(lvs[:-1], raw[:-1]):
        if lf.kind in ("uint", "int", "byte"):
            lo, hi = ref.leaf_range(lf)
            if not (lo <= x <= hi):
                return True
    return False


def run_c(case: Case, stats: Stats) -> None:
    cfg = cexec.apply_variation(_cfg(case.config["build"]), case.config.get("variation", {}))
    if cfg.pre_includes or cfg.extra or cfg.lib_std:
        stats.count("cfg:build_variation")
    if case.config.get("align"):
        for f in case.unit.files:
            if not any(o[0] == "c.struct_packing_alignment" for o in f.options):
                f.options.append(("c.struct_packing_alignment", case.config["align"]))
        stats.count("cfg:packed")
    if case.config.get("stride_bytes", 0) >= 65536:
        stats.count("element_struct_ge_64KiB")
    opmode = case.config["opmode"]
    if opmode and cfg.sanitize and any(len(v[0]) > 1500 for v in case.raws.values() if v):
        # thousands of unrolled statements: sanitizer instrumentation of one such function takes gcc minutes; the
        # guard-page build still traps every access outside the buffer and the struct
        cfg = cexec.apply_variation(_cfg("guard-O0"), case.config.get("variation", {}))
        stats.count("cfg:huge_unrolled->guard")
    stats.count("cfg:san" if cfg.sanitize else "cfg:guard")
    if opmode:
        stats.count("cfg:opmode")
    with gen.Compiled(case.unit) as cu:
        try:
            if opmode:
                cdir = cu.render_all("c", tag="c_O", optimize=True, endian=case.config["endian"])
            else:
                cdir = cu.render_all("c")
            mods = cu.load_python()
        except Exception as e:
            raise Violation(f"valid schema could not be compiled: {type(e).__name__}: {e}", signature=f"compile:{type(e).__name__}")
        allm = unit_messages(case.unit)
        msgs = [m for i, m in enumerate(allm) if i in case.raws]
        if not msgs:
            return
        try:
            drv = cexec.CDriver(case.unit, cdir, msgs, cfg, with_json=False, workdir=cu.outdir("drv"))
        except cexec.CBuildError as e:
            raise Violation(f"generated C does not build ({cfg}, opmode={opmode}): {e}", signature="cbuild")
        digest = cases.unit_digest(cu.texts)
        for lab in S.unit_labels(case.unit):
            stats.count(lab)
        ops: List[str] = []
        meta: List[Any] = []
        k = -1
        for i, m in enumerate(allm):
            if i not in case.raws:
                continue
            k += 1
            # (1) size constants
            pylen = pyexec.new_message(mods, m).BYTES_LENGTH
            if pylen != ref.nbytes(m):
                raise Violation(f"Python {m.name}.BYTES_LENGTH={pylen} != ceil(N/8)={ref.nbytes(m)}", signature="py-bytes-length")
            for raw in case.raws[i]:
                want = ref.encode(m, _reduced_value(m, raw))
                lvs = ref.leaves(m)
                if any(lf.kind in ("uint", "int", "byte") and not (ref.leaf_range(lf)[0] <= x <= ref.leaf_range(lf)[1]) for lf, x in zip(lvs, raw)):
                    stats.count("overdriven")
                for placement in (0, 3):
                    ops.append(cexec.op_encode_raw(k, raw, placement))
                    meta.append(("E", m, raw, want, placement))
                    ops.append(cexec.op_decode(k, want, placement))
                    meta.append(("D", m, raw, want, placement))
        try:
            resp = drv.run(ops)
        except cexec.Crash as c:
            kind, m, raw, want, placement = meta[min(c.op_index, len(meta) - 1)]
            raise Violation(
                f"C driver died ({cfg}, opmode={opmode}, endian={case.config['endian']}) in {kind} of {m.name} placement {placement}: trap/sanitizer report: {c}",
                {"raw": raw},
                signature="crash:" + ("asan" if "AddressSanitizer" in c.stderr else "ubsan" if "runtime error" in c.stderr else "signal"),
            )
        for line, (kind, m, raw, want, placement) in zip(resp, meta):
            stats.evaluations += 1
            if kind == "E":
                r = cexec.EncResp(line)
                if len(r.data) != ref.nbytes(m):
                    raise Violation(f"{cexec.size_macro(m)}={len(r.data)} != ceil(N/8)={ref.nbytes(m)}", signature="c-bytes-length")
                if not r.fences_ok():
                    raise Violation(f"C encode of {m.name} ({cfg}, opmode={opmode}) changed bytes outside the buffer/struct: canary offsets struct={r.struct_canary} buf={r.buf_canary}", {"raw": raw}, signature="fence-encode")
                if r.data != want:
                    raise Violation(
                        f"C encode of {m.name} ({cfg}, opmode={opmode}, endian={case.config['endian']}): an out-of-range integer leaked outside its field: got {r.data.hex()} want {want.hex()} (stream bits {gen.bit_diff(r.data, want)[:16]})",
                        {"raw": raw},
                        signature="containment-c",
                    )
            else:
                r2 = cexec.DecResp(line, m)
                if not r2.fences_ok():
                    raise Violation(f"C decode of {m.name} ({cfg}, opmode={opmode}) touched memory outside struct/buffer (struct={r2.struct_canary} buf={r2.buf_canary} input-unchanged={r2.buf_unchanged})", {"raw": raw}, signature="fence-decode")
                wantv = cexec.leaf_values(m, _reduced_value(m, raw))
                if r2.values != wantv:
                    raise Violation(f"C decode of {m.name} ({cfg}, opmode={opmode}, endian={case.config['endian']}) wrong leaves", {"raw": raw, "got": r2.values[:20], "want": wantv[:20]}, signature="decode-c")
            if _nontrivial(m, raw):
                stats.mark_nontrivial(digest, m.name, raw, kind, cfg.tag(), opmode, placement)
        stats.sample({"build": cfg.tag(), "opmode": opmode, "message": msgs[-1].name, "nbits": ref.nbits(msgs[-1]), "raw_leaves": [hex(x) for x in case.raws[[i for i in case.raws][-1]][0][:12]]})


def go_size_constants(src: str) -> Dict[str, Any]:
    """BYTES_LENGTH_* constants and Size() literals of a generated Go file (parsed, not executed)."""
    from ..gointerp import nodes as gn, parse_file

    f = parse_file(src)
    consts: Dict[str, int] = {}
    sizes: Dict[str, int] = {}
    for d in f.decls:
        if isinstance(d, gn.ConstSpec):
            for n, v in zip(d.names, d.values or []):
                name = n.name if hasattr(n, "name") else str(n)
                if name.startswith("BYTES_LENGTH_") and isinstance(v, gn.BasicLit):
                    consts[name] = int(v.value)
        elif isinstance(d, gn.FuncDecl) and d.recv is not None and (d.name.name if hasattr(d.name, "name") else str(d.name)) == "Size":
            t = d.recv.type
            while isinstance(t, (gn.StarExpr, gn.ParenExpr)):
                t = t.x
            rn = t.name if hasattr(t, "name") else str(t)
            st0 = d.body.stmts[0] if d.body and d.body.stmts else None
            if isinstance(st0, gn.ReturnStmt) and st0.results and isinstance(st0.results[0], gn.BasicLit):
                sizes[rn] = int(st0.results[0].value)
    return {"consts": consts, "sizes": sizes}


def check_go_sizes(case: Case, cu: Any, stats: Stats) -> None:
    import os

    godir = cu.render_all("go")
    for f in case.unit.files:
        info = go_size_constants(open(os.path.join(godir, f.base + "_bp.go")).read())
        from ..model import iter_messages

        for m in iter_messages(f):
            sn = ref.go_struct_name(m)
            cn = "BYTES_LENGTH_" + ref.upper_snake(sn)
            stats.evaluations += 1
            # Size() is compared only when its body is a literal (C19 executes it in any case)
            if info["consts"].get(cn) != ref.nbytes(m) or (sn in info["sizes"] and info["sizes"][sn] != ref.nbytes(m)):
                raise Violation(f"Go size constant {cn}={info['consts'].get(cn)} / {sn}.Size()={info['sizes'].get(sn)}, ceil(N/8)={ref.nbytes(m)}", signature="go-bytes-length")
    stats.count("cfg:go-size")


def run_py(case: Case, stats: Stats) -> None:
    with gen.Compiled(case.unit) as cu:
        try:
            mods = cu.load_python()
        except Exception as e:
            raise Violation(f"valid schema could not be compiled: {type(e).__name__}: {e}", signature=f"compile:{type(e).__name__}")
        check_go_sizes(case, cu, stats)
        digest = cases.unit_digest(cu.texts)
        allm = unit_messages(case.unit)
        for i, m in enumerate(allm):
            if i not in case.raws:
                continue
            lvs = ref.leaves(m)
            for raw in case.raws[i]:
                # Python ints are unbounded: widen the overdrive beyond 64 bits as well
                vals = []
                over = False
                for j, (lf, x) in enumerate(zip(lvs, raw)):
                    if lf.kind == "bool":
                        vals.append(bool(x))
                    elif lf.kind == "enum":
                        vals.append(x)
                    elif lf.kind == "byte" and isinstance(lf.path[-1], int):
                        vals.append(x % 256)  # element of a bytearray: the container enforces the range
                    else:
                        if j % 3 == 0 and x > (1 << 62):
                            x = x * (1 << 40) + 12345
                        lo, hi = ref.leaf_range(lf)
                        over = over or not (lo <= x <= hi)
                        vals.append(x)
                if over:
                    stats.count("overdriven")
                v = S.build_value(m, vals)
                want = ref.encode(m, _reduced_value(m, vals))
                obj = pyexec.new_message(mods, m)
                stats.evaluations += 1
                try:
                    pyexec.set_value(mods, obj, m, v)
                    got = bytes(obj.encode())
                except Exception as e:
                    raise Violation(f"Python {m.name}.encode() raised {type(e).__name__}: {e} with an out-of-range integer (the contract is containment, range checking is the user's job)", {"value": v}, signature=f"py-exc:{type(e).__name__}")
                if len(got) != ref.nbytes(m):
                    raise Violation(f"Python {m.name}.encode() returned {len(got)} bytes, ceil(N/8)={ref.nbytes(m)}", signature="py-length")
                if got != want:
                    raise Violation(
                        f"Python encode of {m.name}: an out-of-range integer leaked outside its field: got {got.hex()} want {want.hex()} (stream bits {gen.bit_diff(got, want)[:16]})",
                        {"value": v},
                        signature="containment-py",
                    )
                if _nontrivial(m, vals):
                    stats.mark_nontrivial(digest, m.name, vals, "py")
        stats.count("cfg:python")


PARTS = [
    HypPart("c", lambda tier: c_cases(), run_c, {"quick": 400, "thorough": 8000}, describe=describe),
    HypPart("py", lambda tier: c_cases(), run_py, {"quick": 600, "thorough": 12000}, describe=describe),
    HypPart("stride", lambda tier: c_cases(stride=True), run_c, {"quick": 16, "thorough": 160}, describe=describe),
]
