"""C15 — Generated API names follow the documented scheme."""

from __future__ import annotations

import copy
import dataclasses
import os
import subprocess
from dataclasses import dataclass
from typing import Any, Dict, List, Optional, Set, Tuple

from hypothesis import strategies as st

from .. import cases, cexec, env, gen, pyexec, ref, render_bp, strategies as S
from ..gointerp import parse_file as go_parse_file
from ..gointerp import nodes as gonodes
from ..model import Alias, Const, Enum, Field, File, Message, TArray, TBase, TRef, Unit, enclosing_messages, file_of, iter_enums, iter_messages, set_parents, unit_messages
from ..runner import HypPart, Stats, Violation

ID = "C15"
LEVEL = "exploration"
RULE = (
    "Generated units restricted to style-guide names (PascalCase alphabetic message/enum/alias names, lower_snake alphabetic "
    "field names, UPPER_SNAKE constants and enum members; nesting to depth 3, imports, files in sub-directories, a file name with extra dots/dashes such as `x.v2.bitproto` for the file nothing imports), with c.name_prefix = '<lower_snake>_' "
    "on a drawn subset of files. Expected names are computed from the model by the documented scheme and observed in: "
    "symbols of the compiled objects (nm: exactly Encode/Decode/Json<Name> per message besides Bp* internals), a generated C "
    "program that mentions every expected struct/typedef/macro/member/constant (must compile), attributes and dataclass "
    "fields of the imported Python modules, declarations of the Go file (parsed: type names, struct field names + json tags, "
    "methods Encode/Decode/Size, BYTES_LENGTH_* constants, enum members; where the documentation fixes no exact form - Go "
    "names of nested definitions, nested enum members - the observed name is compared with 'enclosing names then own name' "
    "modulo case and underscores), and the names of the files written (standard and -O). Prefix relation: compiling the same "
    "unit without the option gives byte-identical Python/Go output, identical sizeof/offsetof and identical encoded bytes, and "
    "the C names differ exactly by the prefix (PascalCase on types/functions, upper case on macros). evaluations = names "
    "checked. Non-trivial: unit has a nested definition, an import or the prefix; distinct by (unit digest, language)."
)
ASSUMPTIONS = [
    "style-guide names without digits or acronym runs (their case conversion is not fixed by the documentation; C10 covers that they compile)",
    "names of Bp*-prefixed internals are not API and are ignored",
    "shapes of recorded C10 findings are not generated",
]
REQUIRED_LABELS = ["nested_message", "nested_enum", "import", "prefix", "alias", "const", "opmode"]

PREFIXES = ["my_lib_", "ab_", "proto_ex_", "zed_"]  # no single-letter parts: acronym runs are not fixed by the docs


@dataclass
class Case:
    unit: Unit
    rand: Dict[int, List[Any]]


@st.composite
def strategy_(draw: Any) -> Case:
    traditional = draw(st.booleans())
    feat = S.Features(bits_budget=250, big=False, max_defs=6, extensible=not traditional, ext_arrays=not traditional, alias_foreign_enum=False, base_ne_proto=True, subdirs=True, odd_file_names=True, long_names=True)
    unit = draw(S.units(feat))
    for f in unit.files:
        if draw(st.booleans()):
            f.options.append(("c.name_prefix", draw(st.sampled_from(PREFIXES))))
    # like-named top-level definitions in two files are legal when their C prefixes differ (Python and Go
    # qualify by module / package): `lib.Vec` next to `Vec`
    from .. import scoping

    pref = {id(f): next((v for k, v in f.options if k == "c.name_prefix"), "") for f in unit.files}
    if len(unit.files) >= 2 and draw(st.integers(0, 2)) == 0:
        fa, fb = unit.files[0], unit.files[-1]
        if pref[id(fa)] and pref[id(fb)] and pref[id(fa)] != pref[id(fb)]:
            for kind in (Message, Enum, Alias):
                da = [x for x in fa.items if isinstance(x, kind)]
                db = [x for x in fb.items if isinstance(x, kind)]
                if da and db:
                    old_name = db[0].name
                    db[0].name = da[0].name
                    set_parents(unit)
                    if not (scoping.retext(unit) and scoping.names_unique(unit) and all(x.name != da[0].name for x in fb.items if x is not db[0]) and all(imp.name != da[0].name for imp in fb.imports())):
                        db[0].name = old_name
                        set_parents(unit)
                        scoping.retext(unit)
                    break
    rand = {}
    for i, m in enumerate(unit_messages(unit)):
        rand[i] = [draw(S.values(m))]
    return Case(unit, rand)


def describe(c: Case) -> Any:
    return {"files": render_bp.render_unit(c.unit)}


def pascal_prefix(p: str) -> str:
    return "".join(x[:1].upper() + x[1:] for x in p.split("_") if x)


def norm(s: str) -> str:
    return s.replace("_", "").lower()


def c_names(f: File) -> Dict[str, Any]:
    """Expected C names of file f."""
    p = cexec.c_prefix(f)
    pp, up = pascal_prefix(p), p.upper()
    out: Dict[str, Any] = {"structs": {}, "typedefs": [], "macros": [], "functions": [], "int_consts": [], "str_consts": [], "bool_consts": []}
    for it in f.items:
        if isinstance(it, Const):
            name = up + it.name
            if isinstance(it.value, bool):
                out["bool_consts"].append(name)
            elif isinstance(it.value, int):
                out["int_consts"].append(name)
            else:
                out["str_consts"].append(name)
        elif isinstance(it, Alias):
            out["typedefs"].append(pp + it.name)
    for e in iter_enums(f):
        encl = [m.name for m in enclosing_messages(e)]
        out["typedefs"].append(pp + "".join(encl + [e.name]))
        for mn, _ in e.members:
            out["macros"].append(up + "_".join([ref.upper_snake(x) for x in encl] + [mn]))
    for m in iter_messages(f):
        sn = pp + "".join([x.name for x in enclosing_messages(m)] + [m.name])
        out["structs"][sn] = [fl.name for fl in m.sorted_fields()]
        out["macros"].append("BYTES_LENGTH_" + ref.upper_snake(sn))
        out["functions"] += ["Encode" + sn, "Decode" + sn, "Json" + sn]
    return out


def _nm_defined(obj: str) -> Set[str]:
    r = subprocess.run(["nm", "--defined-only", "-g", obj], stdout=subprocess.PIPE, text=True)
    out = set()
    for l in r.stdout.splitlines():
        p = l.split()
        if len(p) == 3 and p[1] in "TDBR":
            out.add(p[2])
    return out


def check_c(unit: Unit, cu: gen.Compiled, cdir: str, optimize: bool, stats: Stats) -> None:
    for f in unit.files:
        exp = c_names(f)
        for ext in (".h", ".c"):
            if not os.path.exists(os.path.join(cdir, f.base + "_bp" + ext)):
                raise Violation(f"expected output file {f.base}_bp{ext} was not written (files: {sorted(os.listdir(cdir))})", signature="c-filename")
        obj = os.path.join(cdir, f.base + "_bp.o")
        r = subprocess.run(["gcc", "-c", "-std=gnu11", "-w", "-I", env.CLIB_DIR, "-I", cdir, os.path.join(cdir, f.base + "_bp.c"), "-o", obj], stdout=subprocess.PIPE, stderr=subprocess.STDOUT, text=True)
        if r.returncode != 0:
            raise Violation(f"generated C does not compile: {r.stdout[-800:]}", signature="c-compile")
        defined = {s for s in _nm_defined(obj) if not s.startswith("Bp")}
        want = set(exp["functions"]) if not optimize else {x for x in exp["functions"] if not x.startswith("Json")}
        stats.evaluations += len(want)
        if defined != want:
            raise Violation(
                f"{f.base}_bp.c ({'-O' if optimize else 'standard'}) exports {sorted(defined - want)[:6]} unexpectedly and lacks {sorted(want - defined)[:6]} (documented: Encode<Name>/Decode<Name>{'' if optimize else '/Json<Name>'} per message)",
                signature="c-symbols",
            )
        # a program that mentions every documented name
        lines = ['#include "%s_bp.h"' % g.base for g in unit.files] + ["int main(void) {", "  long long acc = 0; const char *s = 0; (void)s;"]
        for sn, fields in exp["structs"].items():
            lines.append(f"  {{ struct {sn} v; acc += (long long)sizeof(v);")
            for fn in fields:
                lines.append(f"    acc += (long long)sizeof(v.{fn});")
            lines.append("  }")
        for t in exp["typedefs"]:
            lines.append(f"  {{ {t} v; acc += (long long)sizeof(v); }}")
        for m in exp["macros"] + exp["int_consts"] + exp["bool_consts"]:
            lines.append(f"  acc += (long long)({m});")
        for m in exp["str_consts"]:
            lines.append(f"  s = {m};")
        lines += ["  return (int)(acc & 1);", "}"]
        prog = os.path.join(cdir, f.base + "_names.c")
        with open(prog, "w") as fh:
            fh.write("\n".join(lines) + "\n")
        r = subprocess.run(["gcc", "-c", "-std=gnu11", "-w", "-I", env.CLIB_DIR, "-I", cdir, prog, "-o", prog + ".o"], stdout=subprocess.PIPE, stderr=subprocess.STDOUT, text=True)
        stats.evaluations += len(exp["structs"]) + len(exp["typedefs"]) + len(exp["macros"]) + len(exp["int_consts"]) + len(exp["str_consts"]) + len(exp["bool_consts"]) + sum(len(v) for v in exp["structs"].values())
        if r.returncode != 0:
            raise Violation(f"a C program using the documented names of {f.base} does not compile: {r.stdout[-900:]}", signature="c-names")


def check_py(unit: Unit, mods: Dict[str, Any], pydir: str, stats: Stats) -> None:
    for f in unit.files:
        if not os.path.exists(os.path.join(pydir, f.base + "_bp.py")):
            raise Violation(f"expected output file {f.base}_bp.py was not written", signature="py-filename")
        mod = mods[f.base]
        for it in f.items:
            stats.evaluations += 1
            if isinstance(it, (Const, Alias)) and not hasattr(mod, it.name):
                raise Violation(f"{f.base}_bp.py lacks {'constant' if isinstance(it, Const) else 'alias'} {it.name}", signature="py-name")
        for e in iter_enums(f):
            encl = [m.name for m in enclosing_messages(e)]
            cn = "_".join(encl + [e.name])
            stats.evaluations += 1 + len(e.members)
            cls = getattr(mod, cn, None)
            if cls is None:
                raise Violation(f"{f.base}_bp.py lacks enum class {cn}", signature="py-name")
            member_names = {m for m in cls.__members__}
            for mn, val in e.members:
                if not encl:
                    if mn not in member_names or int(cls[mn]) != val or not hasattr(mod, mn):
                        raise Violation(f"{f.base}_bp.py: enum {cn} lacks member {mn} (has {sorted(member_names)})", signature="py-member")
                else:
                    want = norm("".join(encl) + mn)
                    if not any(norm(x) == want and int(cls[x]) == val for x in member_names):
                        raise Violation(f"{f.base}_bp.py: nested enum {cn} has members {sorted(member_names)}, expected enclosing names + {mn}", signature="py-member")
        for m in iter_messages(f):
            cn = ref.py_class_name(m)
            cls = getattr(mod, cn, None)
            stats.evaluations += 1
            if cls is None:
                raise Violation(f"{f.base}_bp.py lacks message class {cn}", signature="py-name")
            for attr in ("encode", "decode", "to_json", "to_dict", "BYTES_LENGTH"):
                if not hasattr(cls, attr):
                    raise Violation(f"{f.base}_bp.{cn} lacks {attr}", signature="py-api")
            flds = [x.name for x in dataclasses.fields(cls) if not x.name.startswith("_")]
            want = [fl.name for fl in m.sorted_fields()]
            stats.evaluations += len(want)
            if flds != want:
                raise Violation(f"{f.base}_bp.{cn} has fields {flds}, schema (number order) {want}", signature="py-fields")


def _go_decls(src: str) -> Dict[str, Any]:
    f = go_parse_file(src)
    out: Dict[str, Any] = {"types": {}, "consts": set(), "methods": {}, "package": f.package}
    for d in f.decls:
        if isinstance(d, gonodes.TypeSpec):
            name = d.name.name if hasattr(d.name, "name") else str(d.name)
            fields = None
            if isinstance(d.type, gonodes.StructType):
                fields = []
                for fl in d.type.fields:
                    for n in fl.names:
                        fields.append((n.name if hasattr(n, "name") else str(n), fl.tag))
            out["types"][name] = fields
        elif isinstance(d, gonodes.ConstSpec):
            for n in d.names:
                out["consts"].add(n.name if hasattr(n, "name") else str(n))
        elif isinstance(d, gonodes.FuncDecl) and d.recv is not None:
            t = d.recv.type
            while isinstance(t, (gonodes.StarExpr, gonodes.ParenExpr)):
                t = t.x
            rn = t.name if hasattr(t, "name") else str(t)
            out["methods"].setdefault(rn, set()).add(d.name.name if hasattr(d.name, "name") else str(d.name))
    return out


def check_go(unit: Unit, godir: str, optimize: bool, stats: Stats) -> None:
    for f in unit.files:
        path = os.path.join(godir, f.base + "_bp.go")
        if not os.path.exists(path):
            raise Violation(f"expected output file {f.base}_bp.go was not written", signature="go-filename")
        try:
            d = _go_decls(open(path).read())
        except Exception as e:
            raise Violation(f"{f.base}_bp.go does not parse: {e}", signature="go-parse")
        types, consts, methods = d["types"], d["consts"], d["methods"]

        def find_type(encl: List[str], own: str) -> Optional[str]:
            if not encl:
                return own if own in types else None
            for t in types:
                if norm(t) == norm("".join(encl) + own):
                    return t
            return None

        for it in f.items:
            stats.evaluations += 1
            if isinstance(it, Const) and it.name not in consts:
                raise Violation(f"{f.base}_bp.go lacks constant {it.name} (has {sorted(consts)[:8]})", signature="go-const")
            if isinstance(it, Alias) and it.name not in types:
                raise Violation(f"{f.base}_bp.go lacks alias type {it.name}", signature="go-type")
        for e in iter_enums(f):
            encl = [m.name for m in enclosing_messages(e)]
            stats.evaluations += 1 + len(e.members)
            if find_type(encl, e.name) is None:
                raise Violation(f"{f.base}_bp.go lacks enum type for {'.'.join(encl + [e.name])} (types {sorted(types)[:10]})", signature="go-type")
            for mn, _ in e.members:
                if not encl:
                    if mn not in consts:
                        raise Violation(f"{f.base}_bp.go lacks enum member {mn}", signature="go-member")
                elif not any(norm(c) == norm("".join(encl) + mn) for c in consts):
                    raise Violation(f"{f.base}_bp.go lacks nested enum member {'.'.join(encl)}.{mn}", signature="go-member")
        for m in iter_messages(f):
            encl = [x.name for x in enclosing_messages(m)]
            tn = find_type(encl, m.name)
            stats.evaluations += 1
            if tn is None or types[tn] is None:
                raise Violation(f"{f.base}_bp.go lacks struct for {'.'.join(encl + [m.name])} (types {sorted(types)[:10]})", signature="go-type")
            want = [(ref.go_field_name(fl.name), f'json:"{fl.name}"') for fl in m.sorted_fields()]
            got = [(n, (tag or "").strip("`")) for n, tag in types[tn]]
            stats.evaluations += len(want)
            if got != want:
                raise Violation(f"{f.base}_bp.go struct {tn} has fields/tags {got[:6]}, documented (PascalCase field, schema name as json tag, number order) {want[:6]}", signature="go-fields")
            if not {"Encode", "Decode", "Size"} <= methods.get(tn, set()):
                raise Violation(f"{f.base}_bp.go struct {tn} lacks Encode/Decode/Size (has {sorted(methods.get(tn, []))})", signature="go-methods")
            macro = "BYTES_LENGTH_" + ref.upper_snake("".join(encl) + m.name) if encl else "BYTES_LENGTH_" + ref.upper_snake(m.name)
            if not encl:
                if macro not in consts:
                    raise Violation(f"{f.base}_bp.go lacks {macro}", signature="go-size-const")
            elif not any(norm(c) == norm(macro) for c in consts):
                raise Violation(f"{f.base}_bp.go lacks size constant for nested {tn}", signature="go-size-const")


def strip_prefix(unit: Unit) -> Unit:
    u2 = copy.deepcopy(unit)
    for f in u2.files:
        f.options = [o for o in f.options if o[0] != "c.name_prefix"]
    set_parents(u2)
    return u2


def run_case(c: Case, stats: Stats) -> None:
    unit = c.unit
    set_parents(unit)
    has_prefix = any(cexec.c_prefix(f) for f in unit.files)
    for lab in S.unit_labels(unit):
        stats.count(lab)
    if has_prefix:
        stats.count("prefix")
    from ..evolve import ext_arrays

    traditional = not any(m.ext for m in unit_messages(unit)) and not ext_arrays(unit)
    nontrivial = has_prefix or bool({"nested_message", "nested_enum", "import"} & set(S.unit_labels(unit)))
    with gen.Compiled(unit) as cu:
        digest = cases.unit_digest(cu.texts)
        try:
            cdir = cu.render_all("c")
            godir = cu.render_all("go")
            mods = cu.load_python()
            pydir = cu.outdirs["py"]
        except Exception as e:
            raise Violation(f"style-guide schema failed to compile: {type(e).__name__}: {e}", signature="compile")
        check_c(unit, cu, cdir, False, stats)
        check_py(unit, mods, pydir, stats)
        check_go(unit, godir, False, stats)
        if traditional:
            stats.count("opmode")
            try:
                cdir_o = cu.render_all("c", tag="c_O", optimize=True)
                godir_o = cu.render_all("go", tag="go_O", optimize=True)
            except Exception as e:
                raise Violation(f"traditional schema refused in -O: {e}", signature="compile-O")
            check_c(unit, cu, cdir_o, True, stats)
            check_go(unit, godir_o, True, stats)
        for lang in ("c", "py", "go"):
            if nontrivial:
                stats.mark_nontrivial(digest, lang)
        if has_prefix:
            _prefix_relation(c, unit, cu, cdir, godir, pydir, mods, stats)
        stats.sample({"prefixes": {f.base: cexec.c_prefix(f) for f in unit.files}, "expected_c_names": {k: (list(v)[:6] if not isinstance(v, dict) else list(v)[:6]) for k, v in c_names(unit.main).items()}, "schema": cu.texts if len(str(cu.texts)) < 1500 else "(large)"})


def _prefix_relation(c: Case, unit: Unit, cu: gen.Compiled, cdir: str, godir: str, pydir: str, mods: Any, stats: Stats) -> None:
    tops = [x.name for f in unit.files for x in f.items if isinstance(x, (Message, Enum, Alias))]
    if len(tops) != len(set(tops)):
        # like-named definitions in two files are only distinct in C BECAUSE of their prefixes: the unprefixed
        # variant is not a legal C compilation unit, so the relation has no right-hand side here
        stats.exclude("prefix relation: names are distinct in C only through the prefixes")
        stats.count("same_name_two_files")
        return
    plain = strip_prefix(unit)
    msgs = unit_messages(unit)
    pmsgs = unit_messages(plain)
    with gen.Compiled(plain) as cp:
        pc = cp.render_all("c")
        pg = cp.render_all("go")
        pmods = cp.load_python()
        pp = cp.outdirs["py"]
        for f in unit.files:
            for d1, d2, ext in ((godir, pg, ".go"), (pydir, pp, ".py")):
                a = open(os.path.join(d1, f.base + "_bp" + ext)).read()
                b = open(os.path.join(d2, f.base + "_bp" + ext)).read()
                stats.evaluations += 1
                if a != b:
                    raise Violation(f"c.name_prefix changed the {ext} output of {f.base} (it must change C names only)", signature="prefix-leaks")
        try:
            d1 = cexec.CDriver(unit, cdir, msgs, cexec.CConfig("gcc", "-O0"), with_json=False, workdir=cu.outdir("drv"))
            d2 = cexec.CDriver(plain, pc, pmsgs, cexec.CConfig("gcc", "-O0"), with_json=False, workdir=cp.outdir("drv"))
        except cexec.CBuildError as e:
            raise Violation(f"driver using the documented (prefixed) names does not build: {e}", signature="prefix-names")
        ops1 = ["Z"]
        ops2 = ["Z"]
        for k, (m, pm) in enumerate(zip(msgs, pmsgs)):
            for v in c.rand.get(k, []):
                ops1.append(cexec.op_encode(k, m, v))
                ops2.append(cexec.op_encode(k, pm, v))
        r1, r2 = d1.run(ops1), d2.run(ops2)
        if cexec.parse_layout(r1) != cexec.parse_layout(r2):
            raise Violation("c.name_prefix changed sizeof/offsetof of a struct", signature="prefix-layout")
        e1 = [l for l in r1 if l.startswith("OK ") and len(l.split()) > 4]
        e2 = [l for l in r2 if l.startswith("OK ") and len(l.split()) > 4]
        stats.evaluations += len(e1)
        if [cexec.EncResp(l).data for l in e1] != [cexec.EncResp(l).data for l in e2]:
            raise Violation("c.name_prefix changed encoded bytes", signature="prefix-bytes")


# ---------------------------------------------------------------------------
# Part 'relations': names with letter/digit boundaries and one-word names, judged by RELATIONS between outputs only
# ---------------------------------------------------------------------------
# How a case converter splits `Vec3`, `Sha256Digest` or `Utf8Text` is not fixed by the documentation, so no absolute
# UPPER_SNAKE form is expected for such names.  Two relations the property states do not depend on it:
#  (n) a nested definition is named by its enclosing names followed by its own name: the size constant of `Hub > Port2`
#      is BYTES_LENGTH_ + <what a top-level `Hub` gets> + _ + <what a top-level `Port2` gets>;
#  (p) c.name_prefix puts the upper-cased prefix in front of every macro name and changes nothing else.

REL_WORDS = ["Vec3", "Port2", "Sha256Digest", "Imu9Dof", "Utf8Text", "Mode4", "Hub", "Link", "Frame", "X25519Key", "Crc32", "Gps"]
REL_PREFIXES = ["fl_", "my_lib_", "drv_"]


@st.composite
def relation_cases(draw: Any) -> Any:
    names = list(draw(st.permutations(REL_WORDS)))[: draw(st.integers(3, 6))]
    # a nesting chain of 2..4 names; the remaining names are further top-level messages
    depth = draw(st.integers(2, min(4, len(names))))
    return {"chain": names[:depth], "others": names[depth:], "prefix": draw(st.sampled_from(REL_PREFIXES)), "optimize": draw(st.booleans())}


def _relation_texts(c: Any, prefix: str, flat: bool) -> str:
    lines = ["proto rel" + ("flat" if flat else "nest"), ""]
    if prefix:
        lines += [f'option c.name_prefix = "{prefix}"', ""]
    k = 1
    if flat:
        for n in c["chain"] + c["others"]:
            lines += [f"message {n} {{", f"    uint{k} value = 1", "}", ""]
            k += 1
    else:
        ind = ""
        for n in c["chain"]:
            lines += [f"{ind}message {n} {{", f"{ind}    uint{k} value = 1"]
            ind += "    "
            k += 1
        for _ in c["chain"]:
            ind = ind[:-4]
            lines.append(f"{ind}}}")
        lines.append("")
        for n in c["others"]:
            lines += [f"message {n} {{", f"    uint{k} value = 1", "}", ""]
            k += 1
    return "\n".join(lines)


def _size_macros(header: str) -> List[str]:
    import re

    return re.findall(r"^#define (BYTES_LENGTH_\w+)", header, flags=re.M)


def run_relation(c: Any, stats: Stats) -> None:
    d = env.scratch_dir("rel")
    try:
        heads: Dict[Tuple[str, bool], List[str]] = {}
        for prefix in ("", c["prefix"]):
            for flat in (True, False):
                name = "relflat" if flat else "relnest"
                src = os.path.join(d, f"{name}_{'p' if prefix else 'n'}")
                os.makedirs(src)
                from .. import bpapi

                bpapi.write_files(src, {name + ".bitproto": _relation_texts(c, prefix, flat)})
                out = os.path.join(src, "out")
                os.makedirs(out)
                try:
                    proto = bpapi.parse(os.path.join(src, name + ".bitproto"), traditional_mode=c["optimize"])
                    bpapi.render(proto, "c", out, optimize=c["optimize"])
                except Exception as e:
                    raise Violation(f"style-guide schema failed to compile: {type(e).__name__}: {e}", signature="compile")
                heads[(prefix, flat)] = _size_macros(open(os.path.join(out, name + "_bp.h")).read())
                stats.evaluations += 1
        flat0 = heads[("", True)]
        want_n = len(c["chain"]) + len(c["others"])
        if len(flat0) != want_n or len(heads[("", False)]) != want_n:
            raise Violation(f"expected one BYTES_LENGTH_ macro per message, got {flat0} / {heads[('', False)]}", signature="macro-count")
        sfx = {n: m[len("BYTES_LENGTH_") :] for n, m in zip(c["chain"] + c["others"], flat0)}
        # (n) nested = enclosing names followed by the own name
        want_nested = ["BYTES_LENGTH_" + "_".join(sfx[x] for x in c["chain"][: k + 1]) for k in range(len(c["chain"]))] + ["BYTES_LENGTH_" + sfx[x] for x in c["others"]]
        if sorted(heads[("", False)]) != sorted(want_nested):
            raise Violation(
                f"size constants of nested messages are not 'enclosing names followed by the own name' in the form the same names get at top level: chain {c['chain']}: got {sorted(heads[('', False)])}, expected {sorted(want_nested)} (top-level forms {sfx})",
                signature="nested-macro-relation",
            )
        # (p) the prefix goes in front, upper-cased, and nothing else changes
        up = c["prefix"].upper()
        for flat in (True, False):
            want_p = sorted("BYTES_LENGTH_" + up + m[len("BYTES_LENGTH_") :] for m in heads[("", flat)])
            if sorted(heads[(c["prefix"], flat)]) != want_p:
                raise Violation(
                    f"c.name_prefix = {c['prefix']!r} does not simply put {up} in front of the size constants ({'flat' if flat else 'nested'} {c['chain']} + {c['others']}): got {sorted(heads[(c['prefix'], flat)])}, expected {want_p}",
                    signature="prefix-macro-relation",
                )
        stats.count("relations:digit_names" if any(ch.isdigit() for n in c["chain"] for ch in n) else "relations:plain_names")
        stats.mark_nontrivial("rel", tuple(c["chain"]), tuple(c["others"]), c["prefix"], c["optimize"])
        stats.sample({"chain": c["chain"], "others": c["others"], "prefix": c["prefix"], "macros_nested": heads[("", False)], "macros_prefixed": heads[(c["prefix"], False)]})
    finally:
        env.rmtree(d)


PARTS = [
    HypPart("gen", lambda tier: strategy_(), run_case, {"quick": 240, "thorough": 4800}, describe=describe),
    HypPart("relations", lambda tier: relation_cases(), run_relation, {"quick": 160, "thorough": 1600}, describe=lambda c: {"case": c, "nested_schema": _relation_texts(c, c["prefix"], False)}),
]
