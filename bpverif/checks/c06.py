"""C06 — The wire is little-endian whatever the host byte order."""

from __future__ import annotations

from typing import Any, List

from hypothesis import strategies as st

from .. import cases, cexec, rtcheck, strategies as S
from ..runner import FuncPart, HypPart, Stats, Violation
from . import c04

ID = "C06"
LEVEL = "exploration"
RULE = (
    "(a) optimization-mode big-endian branch: generated traditional units x vectors (zero/ones/min/max, one-hot basis over "
    "every leaf bit, random): the '-O --endian both' object compiled with -DBP_BIG_ENDIAN and the '-O --endian big' object "
    "must produce/consume exactly the bytes of the little-endian object and of the reference encoder (value-shift code, so "
    "running it on x86 is faithful). (b) runtime library built with -DBP_BIG_ENDIAN: COMPLETE enumeration of width 1..64 x "
    "bit offset 0..7 x basis values (0, all ones, every single bit, alternating, edges) x noise for BpEndecodeBaseType, "
    "standard-width BpEndecodeInt, and BpEndecodeArray (every element width x capacity {1..9, 12, 16, 17, 33} x offset, incl. the widths whose "
    "batch copy must be disabled), with storage laid out big-endian BY THE HARNESS; wire bytes must equal a bit-loop "
    "reference and the little-endian build's digests; decode must reproduce the big-endian storage. Built with gcc/clang at "
    "-O0/-O2 and with ASan+UBSan. Non-trivial: width > 8 (byte order matters) or offset != 0; counted by the harness."
)
ASSUMPTIONS = [
    "x86-64 host: native integers inside the runtime (16-bit extensible prefix, operand of non-standard-width sign "
    "extension) are little-endian, so extensible types and non-standard signed widths cannot be simulated under "
    "-DBP_BIG_ENDIAN and are excluded from (b); no emulator is available",
    "the harness's own bit loop (rt.c) and ref.py are the specification",
]
REQUIRED_LABELS = ["width_gt8", "straddle_byte", "rt:be", "std:be", "rt:announce:__big_endian__", "rt:announce:__LITTLE_ENDIAN__==0"]

BE_BUILDS = [
    ("O-little", True, "little", False),
    ("O-both-BE", True, "both", True),
    ("O-big", True, "big", False),
]


def run_a(case: cases.SVCase, stats: Stats) -> None:
    c04.run_builds(case, stats, BE_BUILDS, ID)


RT_JOBS = [
    ("gcc", "-O0", False, "BP_BIG_ENDIAN"),
    ("gcc", "-O2", False, "BP_BIG_ENDIAN"),
    ("clang", "-O2", False, "BP_BIG_ENDIAN"),
    ("gcc", "-O1", True, "BP_BIG_ENDIAN"),
    # every documented way a big-endian host is recognised selects the same paths
    ("gcc", "-O2", False, "__BYTE_ORDER__"),
    ("gcc", "-O2", False, "__ARM_BIG_ENDIAN"),
    ("gcc", "-O2", False, "__big_endian__"),
    ("clang", "-O2", False, "__BIG_ENDIAN__"),
    ("clang", "-O2", False, "__LITTLE_ENDIAN__==0"),
    ("clang", "-O1", True, "BP_BIG_ENDIAN"),
]


def rt_jobs(tier: str, seed: int) -> List[Any]:
    return RT_JOBS if tier == "thorough" else RT_JOBS[:9]


def run_rt_job(job: Any, stats: Stats) -> None:
    cc, opt, san, announce = job
    stats.count("rt:announce:" + announce)
    try:
        be = rtcheck.run_rt(cc, opt, True, san, announce)
        le = rtcheck.run_rt(cc, opt, False, san)
    except cexec.CBuildError as e:
        raise Violation(f"runtime does not build with -DBP_BIG_ENDIAN ({cc} {opt}): {e}", signature="rt-build")
    for name, r in (("big-endian build", be), ("little-endian build", le)):
        if r.returncode != 0 or not r.done:
            raise Violation(f"runtime harness ({name}, {cc} {opt} san={san}) died: rc={r.returncode} {r.stderr[-1500:]}", signature="rt-crash")
        if r.bad:
            raise Violation(f"runtime ({name}, {cc} {opt} san={san}) disagrees with the bit-loop reference: {r.bad[:5]}", {"bad": r.bad}, signature="rt-bad")
    for g in ("copybits", "base-enc", "array-batch-enc"):
        if be.sums.get(g) != le.sums.get(g):
            raise Violation(f"wire digests of group {g} differ between big- and little-endian builds ({cc} {opt})", signature="rt-sum")
    stats.count("rt:be")
    tot = 0
    for g, (n, nt) in be.counts.items():
        stats.evaluations += n
        stats.target(f"rt-be:{cc}{opt}{'-san' if san else ''}:{g}", n)
        tot += nt
    # distinct non-trivial runtime cases: enumerated points with width > 8 or offset != 0 (counted in rt.c), per build
    stats.add_distinct(tot)  # enumerated points are distinct by construction (per build configuration)
    stats.extra["runtime_part_exhaustive"] = True
    stats.sample({"runtime_enumeration": f"{cc} {opt} san={san}", "groups": {g: n for g, (n, nt) in be.counts.items()}})


def std_be_strategy(tier: str) -> Any:
    # what can be simulated on x86: no extensible types (native 16-bit prefix), signed widths 8/16/32/64 only
    feat = S.Features(extensible=False, ext_arrays=False, signed_nonstd=False, bits_budget=500, big=False, max_files=2)
    return cases.sv_cases(feat, nrand=2, config=st.fixed_dictionaries({"be_announce": st.sampled_from(sorted(cexec.BE_ANNOUNCE))}))


def run_std_be(case: cases.SVCase, stats: Stats) -> None:
    """(c) generated standard-mode C (descriptor tables) + runtime, both built with -DBP_BIG_ENDIAN, the driver laying
    every struct member out big-endian: wire bytes must equal the reference, decode must reproduce the big-endian storage."""
    from .. import gen, ref
    from ..model import unit_messages

    with gen.Compiled(case.unit, case.style) as cu:
        try:
            cdir = cu.render_all("c")
        except Exception as e:
            raise Violation(f"schema failed to compile: {type(e).__name__}: {e}", signature="compile")
        allm = unit_messages(case.unit)
        msgs = [m for m in allm if not ref.has_empty_enum(m)]
        if not msgs:
            return
        try:
            drv = cexec.CDriver(case.unit, cdir, msgs, cexec.CConfig("gcc", "-O1", big_endian=True, be_announce=case.config.get("be_announce", "BP_BIG_ENDIAN")), with_json=False, workdir=cu.outdir("drv"), be_storage=True)
        except cexec.CBuildError as e:
            raise Violation(f"standard-mode C does not build with -DBP_BIG_ENDIAN: {e}", signature="cbuild")
        digest = cases.unit_digest(cu.texts)
        index_of = {id(m): i for i, m in enumerate(allm)}
        ops, meta = [], []
        for k, m in enumerate(msgs):
            for vname, v in cases.vectors(case, index_of[id(m)], m, 256):
                want = ref.encode(m, v)
                ops.append(cexec.op_encode(k, m, v, 0)); meta.append(("E", m, vname, v, want))
                ops.append(cexec.op_decode(k, want, 0)); meta.append(("D", m, vname, v, want))
        try:
            resp = drv.run(ops)
        except cexec.Crash as c:
            kind, m, vname, v, want = meta[min(c.op_index, len(meta) - 1)]
            raise Violation(f"big-endian build of the runtime died in {kind} of {m.name} vector {vname}: {c}", {"value": v}, signature="crash")
        stats.count("std:be")
        for line, (kind, m, vname, v, want) in zip(resp, meta):
            stats.evaluations += 1
            if kind == "E":
                r = cexec.EncResp(line)
                if r.data != want or not r.fences_ok():
                    raise Violation(f"big-endian build, big-endian storage: Encode{cexec.struct_name(m)} vector {vname}: got {r.data.hex()} want {want.hex()} (stream bits {gen.bit_diff(r.data, want)[:16]})", {"value": v}, signature="std-be-encode")
            else:
                r2 = cexec.DecResp(line, m)
                wantv = cexec.leaf_values(m, v)
                if r2.values != wantv or not r2.fences_ok():
                    lvs = ref.leaves(m)
                    bad = [(lvs[i].path, f"{lvs[i].kind}{lvs[i].bits}@{lvs[i].offset}", r2.values[i], wantv[i]) for i in range(min(len(wantv), len(r2.values))) if r2.values[i] != wantv[i]][:5]
                    raise Violation(f"big-endian build, big-endian storage: Decode{cexec.struct_name(m)} vector {vname}: wrong leaves {bad}", {"value": v, "bytes": want.hex()}, signature="std-be-decode")
            if "width_gt8" in S.message_labels(m):
                stats.mark_nontrivial(digest, m.name, v, kind, "std-be")


PARTS = [
    HypPart("opmode", c04.strategy, run_a, {"quick": 160, "thorough": 3200}, describe=cases.describe),
    HypPart("std_be", std_be_strategy, run_std_be, {"quick": 240, "thorough": 4800}, describe=cases.describe),
    FuncPart("runtime", rt_jobs, run_rt_job),
]
