"""C06 — The wire is little-endian whatever the host byte order."""

from __future__ import annotations

from typing import Any, List

from .. import cases, cexec, rtcheck, strategies as S
from ..runner import FuncPart, HypPart, Stats, Violation
from . import c04

ID = "C06"
LEVEL = "exploration"
RULE = (
    "(a) optimization-mode big-endian branch: generated traditional units x vectors (zero/ones/min/max, one-hot basis over "
    "every leaf bit, random): the '-O --endian both' object compiled with -DBP_BIG_ENDIAN and the '-O --endian big' object "
    "must produce/consume exactly the bytes of the little-endian object and of the reference encoder (value-shift code, so "
    "running it on x86 is faithful). (b) runtime library built with -DBP_BIG_ENDIAN: COMPLETE enumeration of width 1..64 x "
    "bit offset 0..7 x basis values (0, all ones, every single bit, alternating, edges) x noise for BpEndecodeBaseType, "
    "standard-width BpEndecodeInt, and BpEndecodeArray (every element width x capacity {1..9, 12, 16, 17, 33} x offset, incl. the widths whose "
    "batch copy must be disabled), with storage laid out big-endian BY THE HARNESS; wire bytes must equal a bit-loop "
    "reference and the little-endian build's digests; decode must reproduce the big-endian storage. Built with gcc/clang at "
    "-O0/-O2 and with ASan+UBSan. Non-trivial: width > 8 (byte order matters) or offset != 0; counted by the harness."
)
ASSUMPTIONS = [
    "x86-64 host: native integers inside the runtime (16-bit extensible prefix, operand of non-standard-width sign "
    "extension) are little-endian, so extensible types and non-standard signed widths cannot be simulated under "
    "-DBP_BIG_ENDIAN and are excluded from (b); no emulator is available",
    "the harness's own bit loop (rt.c) and ref.py are the specification",
]
REQUIRED_LABELS = ["width_gt8", "straddle_byte", "rt:be"]

BE_BUILDS = [
    ("O-little", True, "little", False),
    ("O-both-BE", True, "both", True),
    ("O-big", True, "big", False),
]


def run_a(case: cases.SVCase, stats: Stats) -> None:
    c04.run_builds(case, stats, BE_BUILDS, ID)


RT_JOBS = [
    ("gcc", "-O0", False),
    ("gcc", "-O2", False),
    ("clang", "-O2", False),
    ("gcc", "-O1", True),
    ("clang", "-O1", True),
]


def rt_jobs(tier: str, seed: int) -> List[Any]:
    return RT_JOBS if tier == "thorough" else RT_JOBS[:4]


def run_rt_job(job: Any, stats: Stats) -> None:
    cc, opt, san = job
    try:
        be = rtcheck.run_rt(cc, opt, True, san)
        le = rtcheck.run_rt(cc, opt, False, san)
    except cexec.CBuildError as e:
        raise Violation(f"runtime does not build with -DBP_BIG_ENDIAN ({cc} {opt}): {e}", signature="rt-build")
    for name, r in (("big-endian build", be), ("little-endian build", le)):
        if r.returncode != 0 or not r.done:
            raise Violation(f"runtime harness ({name}, {cc} {opt} san={san}) died: rc={r.returncode} {r.stderr[-1500:]}", signature="rt-crash")
        if r.bad:
            raise Violation(f"runtime ({name}, {cc} {opt} san={san}) disagrees with the bit-loop reference: {r.bad[:5]}", {"bad": r.bad}, signature="rt-bad")
    for g in ("copybits", "base-enc", "array-batch-enc"):
        if be.sums.get(g) != le.sums.get(g):
            raise Violation(f"wire digests of group {g} differ between big- and little-endian builds ({cc} {opt})", signature="rt-sum")
    stats.count("rt:be")
    tot = 0
    for g, (n, nt) in be.counts.items():
        stats.evaluations += n
        stats.target(f"rt-be:{cc}{opt}{'-san' if san else ''}:{g}", n)
        tot += nt
    # distinct non-trivial runtime cases: enumerated points with width > 8 or offset != 0 (counted in rt.c), per build
    stats.add_distinct(tot)  # enumerated points are distinct by construction (per build configuration)
    stats.extra["runtime_part_exhaustive"] = True
    stats.sample({"runtime_enumeration": f"{cc} {opt} san={san}", "groups": {g: n for g, (n, nt) in be.counts.items()}})


PARTS = [
    HypPart("opmode", c04.strategy, run_a, {"quick": 160, "thorough": 3200}, describe=cases.describe),
    FuncPart("runtime", rt_jobs, run_rt_job),
]
