"""C12 — The wire format depends only on field numbers and resolved types."""

from __future__ import annotations

from dataclasses import dataclass, field
from typing import Any, Dict, List, Optional

from hypothesis import strategies as st

from .. import cases, cexec, gen, goexec, pyexec, ref, render_bp, rewrites, strategies as S
from ..model import Message, Unit, unit_messages
from ..runner import HypPart, Stats, Violation

ID = "C12"
LEVEL = "exploration"
RULE = (
    "Base unit + values from the common generator, then a generated SEQUENCE (1-5 steps) of rewrites on the model, each with "
    "the identity value mapping in canonical leaf order: rename (messages/fields/enums/aliases/constants/all); rename nested definitions of different parent messages to ONE shared short name (same identifier text, different scopes); permute field "
    "declarations keeping numbers; swap adjacent independent definitions; introduce an alias for an unnamed type / inline an "
    "alias; hoist a nested message/enum to file scope / nest a top-level one into a later message (references are re-derived "
    "by the documented scoping rules); move leading top-level definitions into a new imported file (with or without `as`); "
    "replace a capacity literal by a constant expression of equal value; renumber fields by a strictly increasing map into "
    "1..255; optionally re-render with different indentation, comments, blank lines, semicolons (none/all/mixed), hex "
    "literals, no trailing newline. Metamorphic oracle: Python encode() of the mapped value under the rewritten schema == "
    "bytes under the original schema (and == reference); on every other case also the C encoder of the rewritten schema in a drawn build (standard, -O little/both/big, -O both with -DBP_BIG_ENDIAN), on every third case the generated Go encoder of the rewritten schema (interpreted). Part alias_c: only alias introductions / inlinings (a field's type, an "
    "array's element type, the element type inside an alias definition), units traditional half of the time, the C encoder of the "
    "rewritten schema on EVERY case in a drawn build (standard little-/big-endian runtime, -O little/both/big, -O both as big-endian). "
    "evaluations = (message, value) pairs compared. Non-trivial: >= 2 different rewrite kinds applied and the message has >= 3 leaves; distinct by (original "
    "digest, rewritten digest, message, value)."
)
ASSUMPTIONS = [
    "a rewrite that is not applicable at the drawn position (would break declare-before-use) or would produce the shape of a "
    "recorded C10 finding (type nested in an imported file's message) is skipped and counted",
    "ref.py is the specification",
]
REQUIRED_LABELS = ["rw:rename:all", "rw:rename_collide", "rw:permute_fields", "rw:swap_defs", "rw:intro_alias", "rw:inline_alias", "rw:hoist_nested", "rw:nest_toplevel", "rw:move_to_import", "rw:cap_const_expr", "rw:renumber", "rw:style", "c_sample", "go_sample"]


@dataclass
class Case:
    unit: Unit
    msgs: List[Message]
    unit2: Unit
    msgs2: List[Message]
    applied: List[str]
    style2: Optional[render_bp.Style]
    rand: Dict[int, List[Any]]
    excluded: Dict[str, int] = field(default_factory=dict)
    with_c: bool = False
    c_build: str = "std"
    with_go: bool = False


@st.composite
def strategy_(draw: Any) -> Case:
    unit = draw(S.units(S.Features(max_defs=5, subdirs=True)))
    msgs = unit_messages(unit)
    rand: Dict[int, List[Any]] = {}
    for i, m in enumerate(msgs):
        if ref.has_empty_enum(m):
            continue
        rand[i] = [draw(S.values(m)) for _ in range(2)]
    unit2, msgs2, applied, style, excluded = rewrites.apply_sequence(draw, unit, msgs)
    return Case(unit, msgs, unit2, msgs2, applied, style, rand, excluded, draw(st.integers(0, 1)) == 0, draw(st.sampled_from(["std", "std", "O-both", "O-both-BE", "O-big", "O-little"])), draw(st.integers(0, 2)) == 0)


@st.composite
def alias_strategy_(draw: Any) -> Case:
    """Only alias introductions / inlinings (field types, array element types, element types inside alias definitions), on
    units that are traditional half of the time, so that every C build of the optimization mode is reachable; C on every case."""
    trad = draw(st.booleans())
    unit = draw(S.units(S.Features(max_defs=5, extensible=not trad, ext_arrays=not trad)))
    msgs = unit_messages(unit)
    rand: Dict[int, List[Any]] = {}
    for i, m in enumerate(msgs):
        if ref.has_empty_enum(m):
            continue
        rand[i] = [draw(S.values(m)) for _ in range(2)]
    unit2, msgs2, applied, style, excluded = rewrites.apply_sequence(draw, unit, msgs, max_steps=4, only=[rewrites.rw_intro_alias, rewrites.rw_inline_alias])
    applied = [a for a in applied if a != "style"]
    build = draw(st.sampled_from(["std", "std-BE", "O-both", "O-both-BE", "O-big", "O-little"]))
    return Case(unit, msgs, unit2, msgs2, applied, None, rand, excluded, True, build, draw(st.integers(0, 3)) == 0)


def describe(c: Case) -> Any:
    return {
        "original": render_bp.render_unit(c.unit),
        "rewritten": render_bp.render_unit(c.unit2, c.style2),
        "rewrites": c.applied,
        "random_values": {c.msgs[i].name: v for i, v in c.rand.items()},
    }


def run_case(c: Case, stats: Stats) -> None:
    for k, n in c.excluded.items():
        stats.exclude(k, n)
    if not c.applied:
        stats.exclude("no rewrite applicable")
        return
    for a in c.applied:
        stats.count("rw:" + a)
    with gen.Compiled(c.unit) as cu1, gen.Compiled(c.unit2, c.style2) as cu2:
        try:
            mods1 = cu1.load_python()
        except Exception as e:
            raise Violation(f"original schema failed to compile: {type(e).__name__}: {e}", signature="compile-original")
        try:
            mods2 = cu2.load_python()
        except Exception as e:
            raise Violation(f"schema after rewrites {c.applied} failed to compile although the original did: {type(e).__name__}: {e}", signature=f"compile-rewritten:{type(e).__name__}")
        d1, d2 = cases.unit_digest(cu1.texts), cases.unit_digest(cu2.texts)
        cops: List[str] = []
        cmeta: List[Any] = []
        kinds = {a.split(":")[0] for a in c.applied}
        for i, (m1, m2) in enumerate(zip(c.msgs, c.msgs2)):
            if i not in c.rand:
                continue
            lv1 = ref.leaves(m1)
            vecs = list(S.basis_values(m1, 256)) + [(f"rand{k}", v) for k, v in enumerate(c.rand[i])]
            for vname, v1 in vecs:
                leafvals = [ref.get_path(v1, lf.path) for lf in lv1]
                v2 = S.build_value(m2, leafvals)
                o1 = pyexec.new_message(mods1, m1)
                pyexec.set_value(mods1, o1, m1, v1)
                o2 = pyexec.new_message(mods2, m2)
                pyexec.set_value(mods2, o2, m2, v2)
                try:
                    b1 = bytes(o1.encode())
                    b2 = bytes(o2.encode())
                except Exception as e:
                    raise Violation(f"encode raised {type(e).__name__}: {e} ({m1.name} -> {m2.name}, rewrites {c.applied})", {"value": v1}, signature="encode-exc")
                stats.evaluations += 1
                if b1 != b2:
                    raise Violation(
                        f"rewrites {c.applied} changed the encoding of {m1.name} (now {m2.name}) for vector {vname}: {b1.hex()} -> {b2.hex()} (stream bits {gen.bit_diff(b1, b2)[:16]})",
                        {"value": v1},
                        signature="bytes-changed",
                    )
                want = ref.encode(m1, v1)
                if b1 != want:
                    raise Violation(f"original encoding of {m1.name} differs from the specification ({vname})", {"value": v1}, signature="orig-vs-ref")
                if len(kinds) >= 2 and len(lv1) >= 3:
                    stats.mark_nontrivial(d1, d2, m1.name, v1)
        if c.with_c:
            _c_sample(c, cu2, stats)
        if c.with_go:
            _go_sample(c, cu2, stats)
        stats.sample({"rewrites": c.applied, "original": cu1.texts if len(str(cu1.texts)) < 1500 else "(large)", "rewritten": cu2.texts if len(str(cu2.texts)) < 1500 else "(large)"})


def _c_sample(c: Case, cu2: gen.Compiled, stats: Stats) -> None:
    """C encoder of the rewritten schema against the reference bytes of the original."""
    idx = [i for i in c.rand]
    msgs2 = [c.msgs2[i] for i in idx]
    if not msgs2:
        return
    from ..evolve import ext_arrays

    build = c.c_build
    if build not in ("std", "std-BE") and (any(m.ext for m in unit_messages(c.unit2)) or ext_arrays(c.unit2)):
        build = "std"  # optimization mode needs a traditional schema
    if build == "std-BE":
        # what can be simulated on x86 (see C06 part std_be): no extensible types (native 16-bit prefix), signed widths 8/16/32/64 only
        nonstd = any(lf.kind == "int" and lf.bits not in (8, 16, 32, 64) for m in msgs2 for lf in ref.leaves(m))
        if nonstd or any(m.ext for m in unit_messages(c.unit2)) or ext_arrays(c.unit2):
            build = "std"
    stats.count("c_build:" + build)
    try:
        if build in ("std", "std-BE"):
            cdir = cu2.render_all("c")
        else:
            cdir = cu2.render_all("c", tag="c_" + build, optimize=True, endian={"O-both": "both", "O-both-BE": "both", "O-big": "big", "O-little": "little"}[build])
        drv = cexec.CDriver(c.unit2, cdir, msgs2, cexec.CConfig("gcc", "-O1", big_endian=(build in ("O-both-BE", "std-BE"))), with_json=False, workdir=cu2.outdir("drv"), be_storage=(build == "std-BE"))
    except cexec.CBuildError as e:
        raise Violation(f"rewritten schema's C does not build (rewrites {c.applied}): {e}", signature="cbuild")
    ops, meta = [], []
    for k, i in enumerate(idx):
        m1, m2 = c.msgs[i], c.msgs2[i]
        for v1 in [v for _, v in S.basis_values(m1, 0)] + list(c.rand[i]):
            leafvals = [ref.get_path(v1, lf.path) for lf in ref.leaves(m1)]
            v2 = S.build_value(m2, leafvals)
            ops.append(cexec.op_encode(k, m2, v2))
            meta.append((m1, v1, ref.encode(m1, v1)))
    try:
        resp = drv.run(ops)
    except cexec.Crash as cr:
        raise Violation(f"C driver died on rewritten schema: {cr}", signature="crash")
    for line, (m1, v1, want) in zip(resp, meta):
        r = cexec.EncResp(line)
        stats.evaluations += 1
        stats.count("c_sample")
        if r.data != want:
            raise Violation(f"C encoder of the rewritten schema ({c.applied}) gives {r.data.hex()}, original/reference {want.hex()} for {m1.name}", {"value": v1}, signature="c-bytes-changed")


def _go_sample(c: Case, cu2: gen.Compiled, stats: Stats) -> None:
    """Generated Go encoder of the rewritten schema (interpreted) against the reference bytes of the original."""
    idx = [i for i in c.rand]
    if not idx:
        return
    try:
        gou = goexec.GoUnit(c.unit2, cu2.render_all("go"))
    except goexec.GoUnsupported as e:
        stats.inconclusive_(f"go interpreter: {str(e)[:80]}")
        return
    except (goexec.GoCompileError, goexec.GoSyntaxError) as e:
        # whether generated Go is accepted by the toolchain is C10's subject (recorded findings D10 / N8 live there)
        why = "unused import (recorded C10 finding D10)" if "not used" in str(e) else "other: " + str(e)[:160]
        stats.inconclusive_("generated Go of the rewritten schema rejected by the Go checker (C10's subject): " + why)
        return
    stats.count("go_unit")
    for i in idx:
        m1, m2 = c.msgs[i], c.msgs2[i]
        for v1 in [v for _, v in S.basis_values(m1, 0)] + list(c.rand[i]):
            leafvals = [ref.get_path(v1, lf.path) for lf in ref.leaves(m1)]
            v2 = S.build_value(m2, leafvals)
            want = ref.encode(m1, v1)
            try:
                got = gou.encode(m2, v2)
            except goexec.GoUnsupported as e:
                stats.inconclusive_(f"go interpreter: {str(e)[:80]}")
                return
            except goexec.GoPanic as e:
                raise Violation(f"Go encoder of the rewritten schema ({c.applied}) panics for {m1.name}: {e}", {"value": v1}, signature="go-panic")
            stats.evaluations += 1
            stats.count("go_sample")
            if got != want:
                raise Violation(f"Go encoder of the rewritten schema ({c.applied}) gives {got.hex()}, original/reference {want.hex()} for {m1.name}", {"value": v1}, signature="go-bytes-changed")


PARTS = [
    HypPart("rewrite", lambda tier: strategy_(), run_case, {"quick": 800, "thorough": 16000}, describe=describe),
    HypPart("alias_c", lambda tier: alias_strategy_(), run_case, {"quick": 480, "thorough": 9600}, describe=describe),
]
