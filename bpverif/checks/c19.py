"""C19 — Go standard-mode output describes the same messages as the Python output."""

from __future__ import annotations

from typing import Any, Dict, List, Tuple

from .. import cases, env, gen, goexec, pyexec, ref, strategies as S
from ..model import Alias, Enum, Message, TArray, TBase, TRef, resolve, unit_messages
from ..runner import FuncPart, HypPart, Stats, Violation

ID = "C19"
LEVEL = "exploration"
TECHNIQUE = "property-based testing; generated Go executed by a Go-subset interpreter against model and Python output; exhaustive helper domains"
RULE = (
    "Generated units (all features minus the recorded Go findings' shapes) compiled to Go standard mode and Python; the Go "
    "files plus <repo>/lib/go/bitproto.go are loaded into the Go-subset interpreter. Per message: (1) struct fields in "
    "field-number order with the smallest covering Go integer type (from the model); (2) BYTES_LENGTH_* constant and Size() == "
    "Python BYTES_LENGTH == ceil(N/8); (3) the processor tree obtained by EXECUTING (&M{}).BpProcessor() equals node for node "
    "(kind, field number, width, capacity, extensible flag, nesting) the tree from Python's M().bp_processor() and the tree "
    "derived from the model; (4) accessors: Go Encode() of zero/ones/min/max/one-hot/random values == reference bytes and Go "
    "Decode(reference bytes) into a zero struct == value, which requires BpSetByte/BpGetByte/BpGetAccessor/BpProcessInt to "
    "address exactly that field at the right array depth with the right conversion and sign extension. (5) helpers "
    "getNbitsToCopy, getMask, smartShift, min, Bool2byte, Byte2bool evaluated on their WHOLE argument domain against the "
    "Python runtime's. evaluations = comparisons. Non-trivial: message has a signed non-standard width, an array of alias, a "
    "nested message accessor or an enum; distinct by (schema digest, message, value) plus helper points (distinct by construction)."
)
ASSUMPTIONS = [
    "bpverif.gointerp implements Go semantics faithfully for the subset it accepts (own self-test of 1098 assertions runs first); "
    "anything outside the subset is counted inconclusive, never a violation",
    "shapes of recorded findings D7/N3/N3b/D10 (Go names that do not resolve, unused imports) are not generated here (C10 owns them)",
    "ref.py is the specification",
]
REQUIRED_LABELS = ["signed_nonstd", "array_2d", "nested_value", "enum_leaf", "ext_message", "ext_array", "import"]

FEAT = dict(prune_unused_imports=True, alias_foreign_enum=False, bits_budget=320, big=False)


def selftest() -> None:
    from ..gointerp.selftest import run_selftest

    run_selftest()


def strategy(tier: str) -> Any:
    return cases.sv_cases(S.Features(**FEAT), nrand=2)


def go_int_type(t: TBase) -> str:
    if t.kind == "bool":
        return "bool"
    if t.kind == "byte":
        return "byte"
    n = 8 if t.bits <= 8 else 16 if t.bits <= 16 else 32 if t.bits <= 32 else 64
    return ("uint" if t.kind == "uint" else "int") + str(n)


def expected_go_type(t: Any) -> str:
    if isinstance(t, TBase):
        return go_int_type(t)
    if isinstance(t, TArray):
        return f"[{t.cap}]" + expected_go_type(t.elem)
    if isinstance(t, TRef):
        d = t.target
        if isinstance(d, Message):
            return ref.go_struct_name(d)
        if isinstance(d, Enum):
            return ref.go_enum_name(d)
        return d.name
    raise TypeError(t)


def strip_qual(s: str) -> str:
    """[2]base.Color -> [2]Color"""
    out = []
    i = 0
    while i < len(s):
        j = i
        while j < len(s) and (s[j].isalnum() or s[j] == "_"):
            j += 1
        if j < len(s) and s[j] == "." and j > i:
            i = j + 1
            continue
        out.append(s[i : max(j, i + 1)])
        i = max(j, i + 1)
    return "".join(out)


def model_tree(t: Any) -> Any:
    if isinstance(t, TBase):
        return (t.kind,) if t.kind in ("bool", "byte") else (t.kind, t.bits)
    if isinstance(t, TArray):
        return ("array", t.ext, t.cap, model_tree(t.elem))
    if isinstance(t, TRef):
        d = t.target
        if isinstance(d, Alias):
            return ("alias", model_tree(d.type))
        if isinstance(d, Enum):
            return ("enum", d.bits)
        return model_tree(d)
    if isinstance(t, Message):
        return ("msg", t.ext, ref.nbits(t), [(f.number, model_tree(f.type)) for f in t.sorted_fields()])
    raise TypeError(t)


def go_tree(d: Any) -> Any:
    ty = d.get("$type", "")
    if ty.endswith("MessageProcessor"):
        return ("msg", d["extensible"], d["nbits"], [(fd["fieldNumber"], go_tree(fd["typeProcessor"])) for fd in (d["fieldDescriptors"] or [])])
    if ty.endswith("Array"):
        return ("array", d["extensible"], d["capacity"], go_tree(d["elementProcessor"]))
    if ty.endswith("EnumProcessor"):
        return ("enum", d["ut"]["nbits"])
    if ty.endswith("AliasProcessor"):
        return ("alias", go_tree(d["to"]))
    if ty.endswith("Bool"):
        return ("bool",)
    if ty.endswith("Byte"):
        return ("byte",)
    if ty.endswith("Uint"):
        return ("uint", d["nbits"])
    if ty.endswith("Int"):
        return ("int", d["nbits"])
    return ("unknown", ty)


def py_tree(p: Any) -> Any:
    n = type(p).__name__
    if n == "MessageProcessor":
        return ("msg", p.extensible, p.nbits, [(fp.field_number, py_tree(fp.type_processor)) for fp in p.field_processors])
    if n == "Array":
        return ("array", p.extensible, p.capacity, py_tree(p.element_processor))
    if n == "EnumProcessor":
        return ("enum", p.ut.nbits)
    if n == "AliasProcessor":
        return ("alias", py_tree(p.to))
    if n == "Bool":
        return ("bool",)
    if n == "Byte":
        return ("byte",)
    if n == "Uint":
        return ("uint", p.nbits)
    if n == "Int":
        return ("int", p.nbits)
    return ("unknown", n)


def run_case(case: cases.SVCase, stats: Stats) -> None:
    with gen.Compiled(case.unit, case.style) as cu:
        try:
            godir = cu.render_all("go")
            mods = cu.load_python()
        except Exception as e:
            raise Violation(f"valid schema could not be compiled: {type(e).__name__}: {e}", signature="compile")
        try:
            gu = goexec.GoUnit(case.unit, godir)
        except goexec.GoUnsupported as e:
            stats.inconclusive_("interpreter: " + str(e)[:80])
            return
        except (goexec.GoCompileError, goexec.GoSyntaxError) as e:
            raise Violation(f"generated Go is rejected by the Go type checker: {e}", signature="go-compile")
        digest = cases.unit_digest(cu.texts)
        for lab in S.unit_labels(case.unit):
            stats.count(lab)
        for idx, m in enumerate(unit_messages(case.unit)):
            if ref.has_empty_enum(m):
                continue
            mlabs = set(S.message_labels(m))
            nontrivial = bool(mlabs & {"signed_nonstd", "array_2d", "nested_value", "enum_leaf", "alias_use"})
            sn = gu.struct_name(m)
            # (1) struct shape
            try:
                info = gu.prog.type_info(gu.pkg(m), sn)
            except Exception as e:
                raise Violation(f"Go output has no struct {sn}: {e}", signature="go-struct-missing")
            got = [strip_qual(f["type"]) for f in info["fields"]]
            want = [expected_go_type(f.type) for f in m.sorted_fields()]
            stats.evaluations += 1
            if got != want:
                raise Violation(f"Go struct {sn} field types {got} != smallest covering types in field-number order {want}", signature="go-struct-types")
            # (2) sizes
            pylen = pyexec.new_message(mods, m).BYTES_LENGTH
            cval, ctype = gu.size_const(m)
            size = gu.size(m)
            stats.evaluations += 1
            if not (pylen == cval == size == ref.nbytes(m)):
                raise Violation(f"{sn}: Python BYTES_LENGTH={pylen}, Go constant={cval}, Go Size()={size}, ceil(N/8)={ref.nbytes(m)}", signature="go-size")
            # (3) processor trees
            try:
                gt = go_tree(gu.prog.describe(gu.prog.call_method(gu.new(m), "BpProcessor")))
            except goexec.GoUnsupported as e:
                stats.inconclusive_("interpreter: " + str(e)[:80])
                continue
            pt = py_tree(pyexec.new_message(mods, m).bp_processor())
            mt = model_tree(m)
            stats.evaluations += 1
            if gt != pt or gt != mt:
                raise Violation(f"{sn}: processor trees differ: Go {str(gt)[:500]} Python {str(pt)[:500]} model {str(mt)[:500]}", signature="go-tree")
            # (4) accessors by execution
            for vname, v in cases.vectors(case, idx, m, 256):
                want_b = ref.encode(m, v)
                try:
                    gb = gu.encode(m, v)
                    back = gu.decode(m, want_b)
                except goexec.GoUnsupported as e:
                    stats.inconclusive_("interpreter: " + str(e)[:80])
                    break
                except goexec.GoPanic as e:
                    raise Violation(f"Go {sn} Encode/Decode panics for vector {vname}: {e}", {"value": v}, signature="go-panic")
                stats.evaluations += 2
                if gb != want_b:
                    bits = gen.bit_diff(gb, want_b)
                    raise Violation(f"Go {sn}.Encode() differs from the specification for vector {vname}: got {gb.hex()} want {want_b.hex()} (stream bits {bits[:12]})", {"value": v}, signature="go-encode")
                if back != v:
                    bad = [(lf.path, f"{lf.kind}{lf.bits}", ref.get_path(back, lf.path), ref.get_path(v, lf.path)) for lf in ref.leaves(m) if ref.get_path(back, lf.path) != ref.get_path(v, lf.path)][:5]
                    raise Violation(f"Go {sn}.Decode() of the specified bytes gives wrong fields for vector {vname}: {bad}", {"value": v}, signature="go-decode")
                if nontrivial:
                    stats.mark_nontrivial(digest, m.name, v)
            if nontrivial:
                stats.sample({"message": sn, "go_field_types": got, "processor_tree": str(gt)[:400]})


# ---- (5) helpers on their whole domain -------------------------------------------------


def helper_jobs(tier: str, seed: int) -> List[Any]:
    return ["getNbitsToCopy", "getMask", "smartShift", "min", "bool"]


def run_helper(job: str, stats: Stats) -> None:
    env.pin()
    from bitprotolib import bp as pybp

    prog = goexec.Program({goexec.RUNTIME_IMPORT_PATH: [goexec.runtime_source()]})
    RT = goexec.RUNTIME_IMPORT_PATH
    n = 0
    if job == "getNbitsToCopy":
        for i in range(0, 128):
            for nn in range(1, 65):
                for j in range(0, nn):
                    g = prog.call_func(RT, "getNbitsToCopy", i, j, nn)
                    p = pybp.get_nbits_to_copy(i, j, nn)
                    w = min(nn - j, 8 - j % 8, 8 - i % 8)
                    n += 1
                    if not (g == p == w):
                        raise Violation(f"getNbitsToCopy({i},{j},{nn}): Go {g} Python {p} specified {w}", signature="helper-nbits")
    elif job == "getMask":
        for k in range(0, 8):
            for c in range(0, 9 - k):
                g = prog.call_func(RT, "getMask", k, c)
                p = pybp.get_mask(k, c)
                w = ((1 << c) - 1) << k
                n += 1
                if not (g == p == w):
                    raise Violation(f"getMask({k},{c}): Go {g} Python {p} specified {w}", signature="helper-mask")
    elif job == "smartShift":
        for b in range(256):
            for k in range(-7, 8):
                g = prog.call_func(RT, "smartShift", b, k)
                p = pybp.smart_shift(b, k) & 0xFF
                w = (b >> k if k > 0 else b << -k) & 0xFF
                n += 1
                if not (g == p == w):
                    raise Violation(f"smartShift({b},{k}): Go {g} Python(&255) {p} specified {w}", signature="helper-shift")
    elif job == "min":
        for a in range(-3, 70):
            for b in range(-3, 70):
                g = prog.call_func(RT, "min", a, b)
                n += 1
                if g != min(a, b):
                    raise Violation(f"min({a},{b}) = {g}", signature="helper-min")
    else:
        for b in range(256):
            g = prog.call_func(RT, "Byte2bool", b)
            n += 1
            if g != (b > 0):
                raise Violation(f"Byte2bool({b}) = {g}", signature="helper-bool")
        for v in (False, True):
            g = prog.call_func(RT, "Bool2byte", v)
            n += 1
            if g != int(v):
                raise Violation(f"Bool2byte({v}) = {g}", signature="helper-bool")
    stats.evaluations += n
    stats.add_distinct(n)
    stats.target("helper:" + job, n)
    stats.extra["helper_domains_exhaustive"] = True
    stats.sample({"helper": job, "points": n})


PARTS = [
    HypPart("gen", strategy, run_case, {"quick": 320, "thorough": 6400}, describe=cases.describe),
    FuncPart("helpers", helper_jobs, run_helper),
]
