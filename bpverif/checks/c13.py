"""C13 — Constants evaluate arithmetically and reach every target language intact."""

from __future__ import annotations

import os
import re
import subprocess
import warnings
from dataclasses import dataclass, field
from typing import Any, Dict, List, Optional, Sequence, Tuple

from hypothesis import strategies as st

from .. import bpapi, constexpr as CE, env, pyexec, ref
from ..gointerp import GoSyntaxError, Program, RUNTIME_IMPORT_PATH, tokenize
from ..model import Field, Message, TArray, TBase
from ..runner import FuncPart, HypPart, Stats, Violation

ID = "C13"
LEVEL = "exploration"
TECHNIQUE = "generated constant expressions / strings vs. an independent evaluator; emitted literals read back in Python, compiled C, Go lexer"
RULE = (
    "Units of 1-3 files (later files import earlier ones, with and without `as`; two-hop references b.c.K). Per file 2-9 "
    "constants: integer EXPRESSION TREES over non-negative decimal (also with leading zeros) / hexadecimal (any case, leading "
    "zeros) literals and references to earlier integer constants (own file, imp.K, as-name.K, two hops), built from random "
    "trees and from templates for every associativity / precedence / grouping shape (a-b-c, a/b/c, a-b+c, a/b*c, a+b*c, "
    "(a+b)*c, a-(b-c), a/(b/c), ...), rendered with exactly the parentheses the ordinary rules require plus redundant ones, "
    "and random spacing (none, blanks, tabs); booleans in the four spellings; strings over the lexer's alphabet (printable "
    "ASCII, raw tab / apostrophe / control characters / non-ASCII, each of the six escapes \\t \\r \\n \\\\ \\' \\\"); plain copies "
    "`const X = Y` of constants of every kind; a constant may be followed on its line by a comment containing quotes or (after `;`) by the next constant. Constants are then USED: as array capacities (own, imported), as `option "
    "max_bytes` of messages sized exactly at / below the limit (accepted) and one byte above it (separate file, must be "
    "rejected), as `option c.struct_packing_alignment` (0,1,2,4,8 accepted and observed through _Alignof in compiled C; "
    "> 8 or < 0 must be rejected), as `option go.package_path` (string). Oracle: own evaluator on the tree (every division "
    "has dividend >= 0 and divisor > 0; all intermediates within +-(2^63-1)); the renderer is cross-checked on every case by "
    "a second reader of the token sequence and by Python's expression grammar. Observations: Constant.value and its kind in "
    "the parsed schema; capacity / nbytes in the parsed schema, BYTES_LENGTH of the generated Python class, sizeof-derived "
    "element count in C; emitted constant in Python (module attribute, type and value), C (a program including the generated "
    "header prints integers with %lld, booleans, and the bytes of each string) and Go (literal after `=` decoded with the Go "
    "lexer and range-checked against the declared type; additionally type-checked by the Go interpreter for files without "
    "imports). evaluations = individual comparisons. Non-trivial constant: expression mixing two precedence levels or "
    "containing a reference; string containing an escape or a character that needs one in a target language; distinct by "
    "(kind, right-hand-side text, referenced values). Labels `sens:*` count expressions whose value would differ under a "
    "named wrong semantics (right associativity, swapped / flat precedence, float or ceiling division)."
)
ASSUMPTIONS = [
    "negative RESULTS are in the domain: docs/language.rst says 'constants can be integers' and gives `A - B` as example; only "
    "literals are non-negative. A negative operand of a division is never generated (floor vs truncation would differ)",
    "a decimal literal with leading zeros is decimal (lexer token [0-9]+; the statement names only decimal and hexadecimal)",
    "integer constants and all intermediates are kept within +-(2^63-1) (what Go `int`, C `long long` and Python all hold); "
    "INT64_MIN itself is not generated (its C spelling -9223372036854775808 is not a long long literal). About 2 % of the "
    "integer constants are deliberately beyond int64 (2^63, 2^64-1, 2^64, 10^20; literal or sum): they are judged in the parsed "
    "schema and in Python, never used as operands, and their C / Go emission is excluded by rule and counted (Go `const X int = "
    "18446744073709551615` cannot compile: the generated Go type is not part of the statement)",
    "a C string constant denotes the UTF-8 bytes of the declared value; NUL, U+FEFF and `??` are not generated (NUL terminates C "
    "strings, Go rejects NUL/BOM in source, trigraphs depend on the C dialect); a raw CR cannot be written in a schema FILE "
    "(universal newlines) and is generated through \\r only",
    "recorded finding D2 is attributed only if the string contains a character that needs escaping in that target language "
    "(constexpr.needs_escape) AND the failure is confined to it: gcc errors all lie on the #define lines / driver lines of such "
    "constants, the Python SyntaxError lies in a module that (transitively) contains one, the Go lexer error lies at or after "
    "the first such constant; everything else in those files that can still be read is checked strictly",
    "recorded finding D1: one deliberate probe per run; no zero divisor is generated otherwise",
    "option values outside the accepted set that would only break the C build (alignment 3,5,6,7: recorded N6) are not generated",
    "file base name == proto name (D11 out of scope); constant names are upper case already (naming is C15)",
    "trusted: gcc, bpverif.gointerp lexer, CPython's parser",
]
REQUIRED_LABELS = [
    "chain:--", "chain://", "chain:-+", "chain:/*", "prec:tighter_right", "prec:tighter_left", "group:left", "group:right",
    "par_redundant_expr", "par_redundant_atom", "lit_hex", "lit_dec", "lit_dec_leading_zero", "lit_gt_2p53", "div_inexact",
    "div_dividend_gt_2p53", "ref", "ref_import", "ref_as", "ref_two_hop", "value_negative", "beyond_int64",
    "sens:right_assoc_addsub", "sens:right_assoc_muldiv", "sens:swapped_precedence", "sens:flat_precedence", "sens:float_division",
    "bool:true", "bool:false", "bool:yes", "bool:no",
    "str_esc:\\t", "str_esc:\\r", "str_esc:\\n", "str_esc:\\\\", "str_esc:\\'", "str_esc:\\\"", "str_raw_tab", "str_raw_control",
    "str_non_ascii", "str_empty", "copy:int", "copy:bool", "copy:str",
    "use:capacity", "use:capacity_import", "use:max_bytes_eq", "use:max_bytes_zero", "use:max_bytes_reject", "use:alignment",
    "use:alignment_reject", "use:go_package_path", "emit:py", "emit:c", "emit:go", "emit:go_typed",
]

NAME_WORDS = [
    "ALPHA", "BRAVO", "CHARLIE", "DELTA", "ECHO", "FOXTROT", "GOLF", "HOTEL", "INDIA", "JULIET", "KILO", "LIMA", "MIKE",
    "NOVEMBER", "OSCAR", "PAPA", "QUEBEC", "ROMEO", "SIERRA", "TANGO", "UNIFORM", "VICTOR", "WHISKEY", "XRAY", "YANKEE", "ZULU",
]
MSG_WORDS = ["Abbey", "Acorn", "Agate", "Amber", "Anvil", "Aspen", "Atlas", "Badge", "Basil", "Birch", "Brick", "Cabin", "Cedar", "Chalk"]
PROTOS = ["basis", "common", "shared", "navi", "telem", "ctrl"]
AS_NAMES = ["ba", "cm", "sh", "nv", "tm", "ct"]

# ---------------------------------------------------------------------------
# Case model
# ---------------------------------------------------------------------------


@dataclass
class CDef:
    name: str
    kind: str  # int | bool | str
    value: Any
    text: str  # right-hand side as written
    labels: List[str] = field(default_factory=list)
    nontrivial: bool = False
    ref_values: Tuple[int, ...] = ()
    pre: str = " "  # spacing around '='
    post: str = " "
    semi: str = ""
    tail: str = ""  # trailing comment on the same line (may contain quotes)
    join: bool = False  # the next statement follows on the SAME line after the `;`


@dataclass
class COpt:
    name: str
    ref_text: str
    value: Any


@dataclass
class CMsg:
    msg: Message  # model message (layout through ref.py)
    max_bytes: Optional[Tuple[str, int]] = None  # (reference text, value)
    caps: List[Tuple[str, int, str]] = field(default_factory=list)  # (field, capacity, reference text)
    align_probe: bool = False


@dataclass
class CFile:
    proto: str
    imports: List[Tuple[int, Optional[str]]] = field(default_factory=list)
    items: List[Any] = field(default_factory=list)

    @property
    def base(self) -> str:
        return self.proto

    @property
    def filename(self) -> str:
        return self.proto + ".bitproto"

    def consts(self) -> List[CDef]:
        return [x for x in self.items if isinstance(x, CDef)]

    def msgs(self) -> List[CMsg]:
        return [x for x in self.items if isinstance(x, CMsg)]

    def opts(self) -> List[COpt]:
        return [x for x in self.items if isinstance(x, COpt)]


@dataclass
class Reject:
    file: int
    suffix: str  # appended to that file's text
    kind: str  # max_bytes | alignment
    why: str


@dataclass
class Case:
    files: List[CFile]
    rejects: List[Reject] = field(default_factory=list)


def imp_name(files: List[CFile], imp: Tuple[int, Optional[str]]) -> str:
    return imp[1] or files[imp[0]].proto


def render_msg(m: CMsg) -> List[str]:
    lines = [f"message {m.msg.name} {{"]
    if m.max_bytes is not None:
        lines.append(f"    option max_bytes = {m.max_bytes[0]}")
    for f in m.msg.fields():
        lines.append(f"    {f.type.text()} {f.name} = {f.number}")
    lines.append("}")
    return lines


def render_file(files: List[CFile], f: CFile) -> str:
    lines = [f"proto {f.proto}", ""]
    for imp in f.imports:
        lines.append(("import " + (imp[1] + " " if imp[1] else "")) + f'"{files[imp[0]].filename}"')
    joined = False
    for it in f.items:
        if isinstance(it, CDef):
            text = f"const {it.name}{it.pre}={it.post}{it.text}{it.semi}"
            if joined:
                lines[-1] += " " + text
            else:
                lines.append(text)
            lines[-1] += it.tail
            joined = it.join and not it.tail
            continue
        joined = False
        if isinstance(it, CDef):
            pass
        elif isinstance(it, COpt):
            lines.append(f"option {it.name} = {it.ref_text}")
        else:
            lines.append("")
            lines.extend(render_msg(it))
    return "\n".join(lines) + "\n"


def render_case(c: Case) -> Dict[str, str]:
    return {f.filename: render_file(c.files, f) for f in c.files}


def describe(c: Case) -> Any:
    return {
        "files": render_case(c),
        "expected": {f.proto: {d.name: d.value for d in f.consts()} for f in c.files},
        "must_be_rejected": [{"file": c.files[r.file].filename, "appended": r.suffix, "why": r.why} for r in c.rejects],
    }


# ---------------------------------------------------------------------------
# Strategy
# ---------------------------------------------------------------------------


class _Gen:
    def __init__(self, draw: Any):
        self.draw = draw
        self.files: List[CFile] = []
        self.used_names: set = set()
        self.rejects: List[Reject] = []

    def name(self, prefix: str) -> str:
        d = self.draw
        k = d(st.integers(0, len(NAME_WORDS) - 1))
        n = 0
        while True:
            w = prefix + NAME_WORDS[(k + n) % len(NAME_WORDS)] + (str(n // len(NAME_WORDS) + 1) if n >= len(NAME_WORDS) else "")
            if w not in self.used_names:
                self.used_names.add(w)
                return w
            n += 1

    def msg_name(self) -> str:
        k = self.draw(st.integers(0, len(MSG_WORDS) - 1))
        n = 0
        while True:
            w = MSG_WORDS[(k + n) % len(MSG_WORDS)] + ("X" * (n // len(MSG_WORDS)))
            if w not in self.used_names:
                self.used_names.add(w)
                return w
            n += 1

    # -- what a file can see ------------------------------------------------

    def visible(self, f: CFile, kind: str) -> List[Tuple[str, Any, Any]]:
        """[(reference text, value, CDef)] of the constants of `kind` visible at the END of f so far."""
        out: List[Tuple[str, Any, Any]] = [(d.name, d.value, d) for d in f.consts() if d.kind == kind]
        for imp in f.imports:
            g = self.files[imp[0]]
            n1 = imp_name(self.files, imp)
            out.extend((f"{n1}.{d.name}", d.value, d) for d in g.consts() if d.kind == kind)
            for imp2 in g.imports:
                h = self.files[imp2[0]]
                n2 = imp_name(self.files, imp2)
                out.extend((f"{n1}.{n2}.{d.name}", d.value, d) for d in h.consts() if d.kind == kind)
        if kind == "int":
            out = [r for r in out if abs(r[1]) <= CE.INT64_MAX]  # constants beyond int64 are never operands
        return out

    def ref_labels(self, f: CFile, text: str) -> List[str]:
        labs = []
        parts = text.split(".")
        if len(parts) >= 2:
            labs.append("ref_import")
            for imp in f.imports:
                if imp[1] == parts[0]:
                    labs.append("ref_as")
        if len(parts) >= 3:
            labs.append("ref_two_hop")
        return labs

    # -- constants ------------------------------------------------------------

    def deco(self, d: CDef) -> CDef:
        dr = self.draw
        sp = dr(st.integers(0, 5))
        d.pre, d.post = [(" ", " "), ("", ""), ("  ", " "), ("\t", "\t"), (" ", ""), ("", " ")][sp]
        d.semi = ";" if dr(st.integers(0, 4)) == 0 else ""
        r = dr(st.integers(0, 11))
        if r == 7:
            # what follows a value on its line is not part of it: a comment with quotes in it ...
            d.tail = dr(st.sampled_from([' // a.k.a. "hi"', ' // the "default" one', '// "', " // it's 'x'", ' // ends with a backslash \\', '\t// K = "3" ;', ' // "" ""']))
        elif r == 5:
            # ... or the next statement after the optional semicolon
            d.semi = ";"
            d.join = True
        return d

    def int_const_from(self, f: CFile, e: Any, extra: Sequence[str] = ()) -> CDef:
        sp = self.draw(CE.spacing())
        v = CE.self_check(e)
        assert abs(v) <= CE.INT64_MAX and CE.max_abs_intermediate(e) <= CE.INT64_MAX
        text = CE.render(e, sp)
        labs = set(CE.shape_labels(e)) | {"sens:" + s for s in CE.sensitivity(e)} | set(extra)
        refvals = []
        for kind, t, val in CE.tokens(e):
            if kind == "ref":
                labs.update(self.ref_labels(f, t))
                refvals.append(val)
        d = CDef(self.name("K_"), "int", v, text, sorted(labs), CE.is_nontrivial(e), tuple(refvals))
        return self.deco(d)

    def int_const(self, f: CFile, size: str = "any") -> CDef:
        b = CE.ExprBuilder(self.draw, self.visible(f, "int"), size=size)
        return self.int_const_from(f, b.build())

    def fitted_const(self, f: CFile, target: int) -> CDef:
        b = CE.ExprBuilder(self.draw, self.visible(f, "int"), size="small" if self.draw(st.booleans()) else "any")
        d = self.int_const_from(f, b.fitted(target), ["fitted"])
        assert d.value == target
        f.items.append(d)
        return d

    def big_const(self, f: CFile) -> CDef:
        """An integer beyond int64 (fits uint64 or not): judged in the parsed schema and in Python only."""
        d = self.draw
        v = d(st.sampled_from([(1 << 63), (1 << 64) - 1, (1 << 64), (1 << 63) + 12345, 10**20]))
        form = d(st.integers(0, 2))
        if form == 0:
            e: Any = CE.Lit(v, str(v))
        elif form == 1:
            e = CE.Lit(v, "0x%X" % v)
        else:
            a = d(st.integers(1, 1 << 20))
            e = CE.Bin("+", CE.Lit(v - a, str(v - a)), CE.Lit(a, "0x%x" % a))
        assert CE.self_check(e) == v
        text = CE.render(e, d(CE.spacing()))
        return self.deco(CDef(self.name("K_"), "int", v, text, ["beyond_int64"] + CE.shape_labels(e), False))

    def bool_const(self, f: CFile) -> CDef:
        sp = self.draw(st.sampled_from(["true", "false", "yes", "no"]))
        return self.deco(CDef(self.name("B_"), "bool", sp in ("true", "yes"), sp, ["bool:" + sp], False))

    def str_const(self, f: CFile, plain_only: bool) -> CDef:
        s = self.draw(CE.string_constant(plain_only=plain_only))
        nt = any(l.startswith("str_esc:") or l.startswith("str_needs_escape:") for l in s.labels)
        return self.deco(CDef(self.name("S_"), "str", s.value, s.source, list(s.labels), nt))

    def copy_const(self, f: CFile) -> Optional[CDef]:
        kind = self.draw(st.sampled_from(["int", "bool", "str"]))
        vis = self.visible(f, kind)
        if not vis:
            return None
        t, v, _ = vis[self.draw(st.integers(0, len(vis) - 1))]
        labs = ["copy:" + kind] + self.ref_labels(f, t)
        if kind == "str":
            labs += ["str_needs_escape:" + lang for lang in ("c", "go", "py") if CE.needs_escape(lang, v)]
        prefix = {"int": "K_", "bool": "B_", "str": "S_"}[kind]
        return self.deco(CDef(self.name(prefix), kind, v, t, labs, True, (v,) if kind == "int" else ()))

    # -- uses -------------------------------------------------------------------

    def pick_int(self, f: CFile, lo: int, hi: int) -> Optional[Tuple[str, int, Any]]:
        c = [r for r in self.visible(f, "int") if lo <= r[1] <= hi]
        if not c:
            return None
        return c[self.draw(st.integers(0, len(c) - 1))]

    def cap_message(self, f: CFile) -> None:
        d = self.draw
        m = Message(self.msg_name())
        cm = CMsg(m)
        nfields = d(st.integers(1, 3))
        budget = 60000
        for k in range(nfields):
            elem = d(st.sampled_from([TBase("byte"), TBase("bool"), TBase("uint", 3), TBase("uint", 12), TBase("int", 24), TBase("uint", 64), TBase("int", 7)]))
            hi = min(65535, budget // (elem.bits * (nfields - k)))
            r = self.pick_int(f, 1, hi) if d(st.integers(0, 9)) < 8 else None
            if r is None:
                target = d(st.sampled_from([1, 2, 3, 5, 8, 17, 255, 256, min(hi, 1000), hi if elem.bits == 1 and k == nfields - 1 else 4]))
                target = max(1, min(target, hi))
                c = self.fitted_const(f, target)
                r = (c.name, c.value, c)
            ext = d(st.integers(0, 5)) == 0
            t = TArray(elem, r[1], ext, cap_text=r[0])
            budget -= r[1] * elem.bits + (16 if ext else 0)
            m.items.append(Field(f"f{k + 1}", t, k + 1))
            cm.caps.append((f"f{k + 1}", r[1], r[0]))
        f.items.append(cm)

    def max_bytes_message(self, f: CFile, fi: int) -> None:
        d = self.draw
        mode = d(st.sampled_from(["eq", "eq", "lt", "zero", "reject", "reject"]))
        if mode == "zero":
            r = self.pick_int(f, 0, 0)
            if r is None:
                c = self.fitted_const(f, 0)
                r = (c.name, 0, c)
            n = d(st.integers(1, 40))
        else:
            r = self.pick_int(f, 2, 8000) if d(st.booleans()) else None
            if r is None:
                c = self.fitted_const(f, d(st.sampled_from([2, 3, 4, 7, 16, 100, 1000, 8191])))
                r = (c.name, c.value, c)
            n = r[1]
        K = r[1]
        m = Message(self.msg_name())
        if mode == "lt":
            n = d(st.integers(1, K - 1))
        # message of exactly n bytes; half of the time with a ragged last byte
        if n >= 2 and d(st.booleans()):
            m.items.append(Field("body", TArray(TBase("byte"), n - 1), 1))
            m.items.append(Field("tail", TBase("uint", d(st.integers(1, 8))), 2))
        else:
            m.items.append(Field("body", TArray(TBase("byte"), n), 1))
        assert ref.nbytes(m) == n
        if mode == "reject":
            # twin in the main file is exactly at the limit (accepted); the variant is one BIT over the byte limit
            f.items.append(CMsg(m, max_bytes=(r[0], K)))
            m2 = Message("RejectProbe")
            m2.items.append(Field("body", TArray(TBase("byte"), K), 1))
            m2.items.append(Field("over", TBase("bool"), 2))
            assert ref.nbytes(m2) == K + 1
            self.rejects.append(Reject(fi, "\n" + "\n".join(render_msg(CMsg(m2, max_bytes=(r[0], K)))) + "\n", "max_bytes", f"message of {K + 1} bytes with max_bytes = {r[0]} (= {K})"))
        else:
            f.items.append(CMsg(m, max_bytes=(r[0], K)))

    def alignment(self, f: CFile, fi: int) -> None:
        d = self.draw
        if d(st.integers(0, 2)) == 0:
            # must be rejected: any visible constant outside 0..8
            c = [r for r in self.visible(f, "int") if not (0 <= r[1] <= 8)]
            if c:
                r = c[d(st.integers(0, len(c) - 1))]
            else:
                k = self.fitted_const(f, d(st.sampled_from([9, 16, 64, -1])))
                r = (k.name, k.value, k)
            self.rejects.append(Reject(fi, f"\noption c.struct_packing_alignment = {r[0]}\n", "alignment", f"c.struct_packing_alignment = {r[0]} (= {r[1]}) is outside 0..8"))
            return
        target = d(st.sampled_from([0, 1, 2, 4, 8]))
        r = self.pick_int(f, target, target)
        if r is None or d(st.booleans()):
            k = self.fitted_const(f, target)
            r = (k.name, k.value, k)
        f.items.append(COpt("c.struct_packing_alignment", r[0], r[1]))
        m = Message(self.msg_name())
        m.items.append(Field("a", TBase("byte"), 1))
        m.items.append(Field("w", TBase("uint", 32), 2))
        f.items.append(CMsg(m, align_probe=True))

    def package_path(self, f: CFile) -> None:
        vis = self.visible(f, "str")
        if not vis:
            d = self.str_const(f, plain_only=True)
            f.items.append(d)
            vis = [(d.name, d.value, d)]
        r = vis[self.draw(st.integers(0, len(vis) - 1))]
        f.items.append(COpt("go.package_path", r[0], r[1]))

    # -- files --------------------------------------------------------------------

    def file(self, fi: int, nfiles: int, protos: List[str], asn: List[str]) -> CFile:
        d = self.draw
        f = CFile(protos[fi])
        self.files.append(f)
        if fi > 0:
            # import a non-empty subset of the earlier files (the previous one always: chains give two hops)
            for j in range(fi):
                if j == fi - 1 or d(st.booleans()):
                    f.imports.append((j, asn[j] if d(st.booleans()) else None))
        allow_d2 = d(st.integers(0, 99)) < 30
        n = d(st.integers(2, 9 if nfiles == 1 else 6))
        small_file = d(st.integers(0, 3)) == 0
        for _ in range(n):
            k = d(st.integers(0, 99))
            if k < 56:
                f.items.append(self.int_const(f, "small" if small_file or d(st.integers(0, 3)) == 0 else "any"))
            elif k < 58:
                f.items.append(self.big_const(f))
            elif k < 68:
                f.items.append(self.bool_const(f))
            elif k < 90:
                f.items.append(self.str_const(f, plain_only=not allow_d2))
            else:
                c = self.copy_const(f)
                f.items.append(c if c is not None else self.int_const(f))
        uses = d(st.integers(0, 15))
        if uses & 1:
            self.cap_message(f)
        if uses & 2:
            self.max_bytes_message(f, fi)
        if uses & 4 and not any(r.file == fi and r.kind == "alignment" for r in self.rejects):
            self.alignment(f, fi)
        if uses & 8 and fi == nfiles - 1:
            self.package_path(f)
        return f


@st.composite
def strategy_(draw: Any) -> Case:
    g = _Gen(draw)
    nfiles = draw(st.sampled_from([1, 1, 2, 2, 3]))
    k = draw(st.integers(0, len(PROTOS) - 1))
    protos = [PROTOS[(k + i) % len(PROTOS)] for i in range(nfiles)]
    asn = [AS_NAMES[(k + i) % len(AS_NAMES)] for i in range(nfiles)]
    for fi in range(nfiles):
        g.file(fi, nfiles, protos, asn)
    # at most one rejection variant per kind (each costs a full parse)
    rej: List[Reject] = []
    for r in g.rejects:
        if not any(x.kind == r.kind for x in rej):
            rej.append(r)
    return Case(g.files, rej)


# ---------------------------------------------------------------------------
# Observation helpers
# ---------------------------------------------------------------------------


def is_big(d: CDef) -> bool:
    return d.kind == "int" and abs(d.value) > CE.INT64_MAX


def same(kind: str, got: Any, want: Any) -> bool:
    if kind == "bool":
        return type(got) is bool and got == want
    if kind == "int":
        return type(got) is int and got == want
    return type(got) is str and got == want


def d2_shaped(f: CFile, lang: str) -> List[CDef]:
    return [d for d in f.consts() if d.kind == "str" and CE.needs_escape(lang, d.value)]


def closure(files: List[CFile], fi: int) -> List[int]:
    """fi and everything it imports, transitively."""
    out = [fi]
    for j, _ in files[fi].imports:
        for x in closure(files, j):
            if x not in out:
                out.append(x)
    return out


def swallower(f: CFile, item: Any, lang: str) -> Optional[CDef]:
    """The first string constant declared BEFORE item in f whose value contains a double quote: emitted verbatim it
    can open a (triple-quoted / raw) string literal that swallows later definitions (part of D2's shape)."""
    for it in f.items:
        if it is item:
            return None
        if isinstance(it, CDef) and it.kind == "str" and '"' in it.value:
            return it
    return None


def d2_what(d: CDef, lang: str) -> str:
    return f"const {d.name} = {d.text} ({lang}: needs escaping {CE.needs_escape(lang, d.value)!r})"


# -- Python ---------------------------------------------------------------------


def check_python(c: Case, outdir: str, stats: Stats) -> None:
    with pyexec.PyModules(outdir) as pm:
        for fi, f in enumerate(c.files):
            try:
                with warnings.catch_warnings():
                    warnings.simplefilter("ignore")  # SyntaxWarning: invalid escape sequence (D2-shaped strings)
                    mod = pm.load(f.base + "_bp")
            except Exception as e:
                # D2 only if the failure lies at / after the assignment of a string that needs escaping in Python, in the
                # generated module that holds it: SyntaxError position, or innermost generated-module frame of a run-time error
                if isinstance(e, SyntaxError):
                    fn, ln = os.path.basename(e.filename or ""), e.lineno or 0
                else:
                    fn, ln = "", 0
                    tb = e.__traceback__
                    while tb is not None:
                        if os.path.dirname(os.path.abspath(tb.tb_frame.f_code.co_filename)) == os.path.abspath(outdir):
                            fn, ln = os.path.basename(tb.tb_frame.f_code.co_filename), tb.tb_lineno
                        tb = tb.tb_next
                owner = [j for j in closure(c.files, fi) if c.files[j].base + "_bp.py" == fn]
                sh = d2_shaped(c.files[owner[0]], "py") if owner else []
                if sh:
                    with open(os.path.join(outdir, fn), newline="") as fh:
                        lines = re.split(r"\r\n|\r|\n", fh.read())
                    first = [k + 1 for k, l in enumerate(lines) if l.startswith(f"{sh[0].name}: str = ")]
                    runtime_ok = isinstance(e, SyntaxError) or any('"' in d.value for d in sh)  # only an unescaped quote can end the literal and leave code behind it
                    if first and ln >= first[0] and runtime_ok:
                        stats.known_finding("D2", "generated Python is not importable: " + d2_what(sh[0], "py") + f" -> {type(e).__name__}: {getattr(e, 'msg', e)}")
                        stats.count("py_module_lost_to_D2")
                        continue
                if isinstance(e, SyntaxError):
                    raise Violation(f"generated Python module {f.base}_bp does not compile: {e}", signature="py-syntax")
                raise Violation(f"generated Python module {f.base}_bp cannot be imported: {type(e).__name__}: {e}", signature=f"py-import:{type(e).__name__}")
            stats.target("python modules read")
            for d in f.consts():
                stats.evaluations += 1
                stats.count("emit:py")
                if not hasattr(mod, d.name):
                    sw = swallower(f, d, "py")
                    if sw is not None:
                        stats.known_finding("D2", d2_what(sw, "py") + f": the unescaped quote opens a string that swallows the later definition of {d.name}")
                        continue
                    raise Violation(f"Python module {f.base}_bp has no attribute {d.name}", signature="py-missing")
                got = getattr(mod, d.name)
                if same(d.kind, got, d.value):
                    continue
                if d.kind == "str" and CE.needs_escape("py", d.value):
                    stats.known_finding("D2", d2_what(d, "py") + f": Python value {got!r} != declared {d.value!r}")
                    continue
                raise Violation(f"Python constant {f.base}_bp.{d.name} = {got!r} ({type(got).__name__}); declared `{d.text}` denotes {d.value!r}", signature=f"py-value:{d.kind}")
            for m in f.msgs():
                cls = getattr(mod, m.msg.name, None)
                if cls is None:
                    sw = swallower(f, m, "py")
                    if sw is not None:
                        stats.known_finding("D2", d2_what(sw, "py") + f": the unescaped quote opens a string that swallows the later class {m.msg.name}")
                        continue
                    raise Violation(f"Python module {f.base}_bp has no class {m.msg.name}", signature="py-missing-class")
                stats.evaluations += 1
                if getattr(cls, "BYTES_LENGTH", None) != ref.nbytes(m.msg):
                    raise Violation(f"{m.msg.name}.BYTES_LENGTH = {getattr(cls, 'BYTES_LENGTH', '(missing)')}, capacities {m.caps} give {ref.nbytes(m.msg)}", signature="py-bytes-length")


# -- C ----------------------------------------------------------------------------

_GCC_LOC = re.compile(r"^(?P<file>[^:\s]+):(?P<line>\d+):(?:\d+:)? (?:fatal )?error: (?P<msg>.*)$")


def c_driver(f: CFile) -> Tuple[str, Dict[int, Optional[CDef]]]:
    """Driver text and, per driver line (1-based), the constant that line reads."""
    lines = [
        "#include <stdio.h>",
        f'#include "{f.base}_bp.h"',
        "static void hx(const char *s, size_t n) { size_t i; for (i = 0; i < n; i++) printf(\"%02x\", (unsigned char)s[i]); }",
        "int main(void) {",
    ]
    owner: Dict[int, Optional[CDef]] = {}
    for d in f.consts():
        if is_big(d):
            continue
        if d.kind == "int":
            lines.append(f'    printf("I {d.name} %lld\\n", (long long)({d.name}));')
        elif d.kind == "bool":
            lines.append(f'    printf("B {d.name} %d\\n", (int)({d.name}));')
        else:
            lines.append(f'    {{ static const char s[] = {d.name}; printf("S {d.name} "); hx(s, sizeof(s) - 1); printf("\\n"); }}')
        owner[len(lines)] = d
    for m in f.msgs():
        sn = m.msg.name
        for fname, cap, _ in m.caps:
            lines.append(f'    printf("C {sn}.{fname} %zu\\n", sizeof(((struct {sn} *)0)->{fname}) / sizeof(((struct {sn} *)0)->{fname}[0]));')
        if m.align_probe:
            lines.append(f'    printf("A {sn} %zu %zu\\n", (size_t)_Alignof(struct {sn}), (size_t)_Alignof(uint32_t));')
    lines += ["    return 0;", "}"]
    return "\n".join(lines) + "\n", owner


def define_spans(header: str, consts: List[CDef]) -> Dict[str, Tuple[int, int]]:
    """name -> (first, last) 1-based line of its #define in the header text."""
    hl = re.split(r"\r\n|\r|\n", header)  # physical lines as gcc counts them (LF, CR LF and a lone CR end a line)
    out: Dict[str, Tuple[int, int]] = {}
    for d in consts:
        for k, l in enumerate(hl):
            if l.startswith(f"#define {d.name} "):
                out[d.name] = (k + 1, k + 1 + d.value.count("\n") + d.value.count("\r"))
                break
    return out


def check_c(c: Case, fi: int, outdir: str, work: str, stats: Stats) -> None:
    f = c.files[fi]
    drv, owner = c_driver(f)
    path = os.path.join(work, f"drv_{f.base}.c")
    with open(path, "w") as fh:
        fh.write(drv)
    exe = os.path.join(work, f"drv_{f.base}")
    r = subprocess.run(["gcc", "-std=gnu11", "-w", "-O0", "-I", outdir, "-I", env.CLIB_DIR, path, "-o", exe], stdout=subprocess.PIPE, stderr=subprocess.STDOUT, text=True)
    if r.returncode != 0:
        # attribute to D2 only if EVERY error lies on the #define of a string that needs escaping in C or on a driver line reading one
        spans: Dict[str, Dict[str, Tuple[int, int]]] = {}
        for j in closure(c.files, fi):
            g = c.files[j]
            hp = os.path.join(outdir, g.base + "_bp.h")
            if os.path.exists(hp):
                with open(hp, newline="") as fh:
                    spans[g.base + "_bp.h"] = define_spans(fh.read(), d2_shaped(g, "c"))
        errs = [m for m in (_GCC_LOC.match(l) for l in r.stdout.splitlines()) if m]

        def where(m: Any) -> Tuple[str, Optional[str]]:
            fn, ln = os.path.basename(m.group("file")), int(m.group("line"))
            if fn in spans:
                hit = [n for n, (a, b) in spans[fn].items() if a <= ln <= b]
                if hit:
                    return "define", hit[0]
            if fn == os.path.basename(path) and owner.get(ln) is not None and owner[ln].kind == "str" and CE.needs_escape("c", owner[ln].value):
                return "use", owner[ln].name
            return "other", None

        # Signature: the FIRST error lies inside the #define of a string that needs escaping (a broken directive leaves
        # the rest of the header unparsable, so later errors are consequences), or ALL errors lie on driver statements
        # that read such strings (the header itself was fine; driver statements are independent of each other).
        first: Optional[str] = None
        ok = False
        if errs:
            k0, n0 = where(errs[0])
            if k0 == "define":
                ok, first = True, n0
            elif k0 == "use" and all(where(m)[0] in ("use", "define") for m in errs):
                ok, first = True, n0
        if ok and first:
            d = [d for j in closure(c.files, fi) for d in d2_shaped(c.files[j], "c") if d.name == first][0]
            stats.known_finding("D2", "generated C header does not compile: " + d2_what(d, "c") + " -> " + errs[0].group("msg")[:120])
            stats.count("c_file_lost_to_D2")
            return
        raise Violation(f"C program reading the constants of {f.base}_bp.h does not compile:\n{r.stdout[-1500:]}", {"driver": drv}, signature="c-build")
    rr = subprocess.run([exe], stdout=subprocess.PIPE, stderr=subprocess.PIPE, timeout=60)
    if rr.returncode != 0:
        raise Violation(f"C program reading the constants of {f.base}_bp.h died with {rr.returncode}", signature="c-run")
    stats.target("C programs compiled and run (gcc)")
    got: Dict[str, List[str]] = {}
    for line in rr.stdout.decode("ascii").splitlines():
        parts = line.split(" ")
        got[parts[0] + " " + parts[1]] = parts[2:]
    for d in f.consts():
        if is_big(d):
            stats.exclude("integer constant beyond int64: C emission not judged (no C integer type is implied by the statement)")
            continue
        stats.evaluations += 1
        stats.count("emit:c")
        if d.kind == "int":
            g = int(got["I " + d.name][0])
            if g != d.value:
                raise Violation(f"C constant {d.name} prints {g}; declared `{d.text}` denotes {d.value}", signature="c-value:int")
        elif d.kind == "bool":
            g = int(got["B " + d.name][0])
            if g != int(d.value):
                raise Violation(f"C constant {d.name} is {g}; declared `{d.text}`", signature="c-value:bool")
        else:
            hx = got["S " + d.name][0] if got["S " + d.name] else ""
            gb = bytes.fromhex(hx)
            if gb != d.value.encode("utf-8"):
                if CE.needs_escape("c", d.value):
                    stats.known_finding("D2", d2_what(d, "c") + f": C bytes {gb!r} != declared {d.value.encode('utf-8')!r}")
                    continue
                raise Violation(f"C string constant {d.name} holds bytes {gb!r}; declared {d.text} denotes {d.value.encode('utf-8')!r}", signature="c-value:str")
    for m in f.msgs():
        for fname, cap, rtext in m.caps:
            stats.evaluations += 1
            g = int(got[f"C {m.msg.name}.{fname}"][0])
            if g != cap:
                raise Violation(f"C struct {m.msg.name}.{fname} has {g} elements; capacity `{rtext}` denotes {cap}", signature="c-capacity")
        if m.align_probe:
            a, nat = (int(x) for x in got[f"A {m.msg.name}"])
            k = [o.value for o in f.opts() if o.name == "c.struct_packing_alignment"][0]
            want = k if k > 0 else nat
            stats.evaluations += 1
            if a != want:
                raise Violation(f"_Alignof(struct {m.msg.name}) = {a}; option c.struct_packing_alignment = {k} (0: attribute unset, natural alignment {nat})", signature="c-alignment")


# -- Go ----------------------------------------------------------------------------

GO_TYPES = {"int": ("int", -(1 << 63), (1 << 63) - 1), "bool": ("bool", 0, 0), "str": ("string", 0, 0)}


def go_const_tokens(toks: List[Any], names: Sequence[str]) -> Dict[str, Tuple[str, List[Any]]]:
    """name -> (declared type, tokens of the initialiser) for `const NAME T = ...;`"""
    out: Dict[str, Tuple[str, List[Any]]] = {}
    want = set(names)
    k = 0
    while k + 3 < len(toks):
        t = toks[k]
        if t.kind == "KEYWORD" and t.text == "const" and toks[k + 1].kind == "IDENT" and toks[k + 1].text in want and toks[k + 2].kind == "IDENT" and toks[k + 3].kind == "OP" and toks[k + 3].text == "=":
            name = toks[k + 1].text
            j = k + 4
            init = []
            while j < len(toks) and not (toks[j].kind == "OP" and toks[j].value == ";") and toks[j].kind != "EOF":
                init.append(toks[j])
                j += 1
            if name in out:
                raise Violation(f"Go constant {name} declared twice", signature="go-duplicate")
            out[name] = (toks[k + 2].text, init)
            k = j
        else:
            k += 1
    return out


def go_literal_value(kind: str, init: List[Any]) -> Tuple[bool, Any]:
    """(is a literal of the right kind, value)"""
    if kind == "int":
        neg = False
        ts = list(init)
        if len(ts) == 2 and ts[0].kind == "OP" and ts[0].text == "-":
            neg = True
            ts = ts[1:]
        if len(ts) == 1 and ts[0].kind == "INT":
            return True, -ts[0].value if neg else ts[0].value
        return False, None
    if kind == "bool":
        if len(init) == 1 and init[0].kind == "IDENT" and init[0].text in ("true", "false"):
            return True, init[0].text == "true"
        return False, None
    if len(init) == 1 and init[0].kind == "STRING":
        return True, init[0].value
    return False, None


_RUNTIME_SRC: Dict[str, str] = {}


def go_runtime() -> str:
    p = os.path.join(env.GOLIB_DIR, "bitproto.go")
    if p not in _RUNTIME_SRC:
        with open(p) as fh:
            _RUNTIME_SRC[p] = fh.read()
    return _RUNTIME_SRC[p]


def check_go(c: Case, fi: int, outdir: str, stats: Stats) -> None:
    f = c.files[fi]
    with open(os.path.join(outdir, f.base + "_bp.go"), newline="") as fh:
        src = fh.read()
    shaped = d2_shaped(f, "go")
    consts = f.consts()
    lost_after: Optional[int] = None
    try:
        toks = tokenize(src)
    except GoSyntaxError as e:
        # D2 only if the lexical error lies at or after the first constant that needs escaping; what precedes it is still read
        first_line = None
        if shaped:
            for k, l in enumerate(src.split("\n")):
                if l.startswith(f"const {shaped[0].name} "):
                    first_line = k + 1
                    break
        if first_line is None or e.line < first_line:
            raise Violation(f"generated Go {f.base}_bp.go is not lexically valid: {e}", signature="go-lex")
        stats.known_finding("D2", "generated Go is not lexically valid: " + d2_what(shaped[0], "go") + f" -> {e.msg}")
        stats.count("go_file_tail_lost_to_D2")
        toks = tokenize("\n".join(src.split("\n")[: first_line - 1]) + "\n")
        lost_after = consts.index(shaped[0])
        consts = consts[:lost_after]
    stats.target("Go files lexed")
    decl = go_const_tokens(toks, [d.name for d in consts])
    for d in consts:
        if is_big(d):
            stats.exclude("integer constant beyond int64: Go emission not judged (`const X int` cannot hold it)")
            continue
        stats.evaluations += 1
        stats.count("emit:go")
        if d.name not in decl:
            sw = swallower(f, d, "go")
            if sw is not None:
                stats.known_finding("D2", d2_what(sw, "go") + f": the unescaped quote garbles the tokens up to the declaration of {d.name}")
                continue
            raise Violation(f"generated Go has no `const {d.name} <type> = ...`", signature="go-missing")
        typ, init = decl[d.name]
        want_type, lo, hi = GO_TYPES[d.kind]
        if typ != want_type:
            raise Violation(f"Go constant {d.name} declared as {typ}, expected {want_type}", signature="go-type")
        is_lit, got = go_literal_value(d.kind, init)
        if is_lit and same(d.kind, got, d.value):
            if d.kind == "int" and not (lo <= got <= hi):
                raise Violation(f"Go constant {d.name} = {got} overflows {typ}", signature="go-overflow")
            continue
        if d.kind == "str" and CE.needs_escape("go", d.value):
            stats.known_finding("D2", d2_what(d, "go") + f": Go initialiser tokens {[t.text for t in init]!r}")
            continue
        raise Violation(f"Go constant {d.name} initialiser {[t.text for t in init]!r} does not denote {d.value!r} (declared `{d.text}`)", signature=f"go-value:{d.kind}")
    if not f.imports and lost_after is None and not shaped and not any(is_big(d) for d in f.consts()):
        # full type check by the Go interpreter (files with imports: recorded finding D10, an import used only by constants is unused)
        try:
            prog = Program({RUNTIME_IMPORT_PATH: go_runtime(), f.base + "_bp": src})
        except GoSyntaxError as e:
            raise Violation(f"generated Go {f.base}_bp.go is rejected by the Go type checker: {e}", signature="go-compile")
        stats.target("Go files type-checked by gointerp")
        for d in consts:
            v, t = prog.const(f.base + "_bp", d.name)
            stats.evaluations += 1
            stats.count("emit:go_typed")
            if t != GO_TYPES[d.kind][0] or not same(d.kind, v, d.value):
                raise Violation(f"Go constant {d.name} is {v!r} of type {t}; declared `{d.text}` denotes {d.value!r}", signature="go-typed-value")


# ---------------------------------------------------------------------------
# The case
# ---------------------------------------------------------------------------


AST_KIND = {"int": "IntegerConstant", "bool": "BooleanConstant", "str": "StringConstant"}


def _mro_names(e: BaseException) -> List[str]:
    return [k.__name__ for k in type(e).__mro__]


def run_case(c: Case, stats: Stats) -> None:
    texts = render_case(c)
    work = env.scratch_dir("k")
    try:
        _run(c, texts, work, stats)
    finally:
        env.rmtree(work)


def _run(c: Case, texts: Dict[str, str], work: str, stats: Stats) -> None:
    src = os.path.join(work, "src")
    os.makedirs(src)
    bpapi.write_files(src, texts)
    protos: List[Any] = []
    for fi, f in enumerate(c.files):
        try:
            proto = bpapi.parse(os.path.join(src, f.filename))
        except Exception as e:
            raise Violation(f"valid constants file {f.filename} not accepted: {type(e).__name__}: {e}", signature=f"parse:{type(e).__name__}")
        protos.append(proto)
        # -- parse-level oracle: value and kind of every constant
        for d in f.consts():
            stats.evaluations += 1
            for lab in d.labels:
                stats.count(lab)
            stats.count("const:" + d.kind)
            node = proto.members.get(d.name)
            if node is None or not hasattr(node, "value") or type(node).__name__ not in AST_KIND.values():
                raise Violation(f"{f.filename}: constant {d.name} not found in the parsed schema ({node!r})", signature="ast-missing")
            if type(node).__name__ != AST_KIND[d.kind]:
                raise Violation(f"{f.filename}: const {d.name} = {d.text} is a {type(node).__name__} in the parsed schema, declared value is of kind {d.kind}", signature="ast-kind")
            if not same(d.kind, node.value, d.value):
                raise Violation(
                    f"{f.filename}: const {d.name} = {d.text} evaluates to {node.value!r} ({type(node).__name__}); {'ordinary arithmetic gives' if d.kind == 'int' else 'the declared value is'} {d.value!r}",
                    {"labels": d.labels},
                    signature=f"ast-value:{d.kind}",
                )
            if d.nontrivial:
                stats.mark_nontrivial(d.kind, d.text, d.ref_values)
        # -- uses: capacities, options
        for m in f.msgs():
            node = proto.members.get(m.msg.name)
            if node is None:
                raise Violation(f"{f.filename}: message {m.msg.name} not in the parsed schema", signature="ast-missing-msg")
            fields = {x.name: x for x in node.fields()}
            for fname, cap, rtext in m.caps:
                stats.evaluations += 1
                stats.count("use:capacity")
                if "." in rtext:
                    stats.count("use:capacity_import")
                if fields[fname].type.cap != cap:
                    raise Violation(f"{f.filename}: {m.msg.name}.{fname} has capacity {fields[fname].type.cap}; `{rtext}` denotes {cap}", signature="ast-capacity")
            stats.evaluations += 1
            if node.nbytes() != ref.nbytes(m.msg):
                raise Violation(f"{f.filename}: {m.msg.name} occupies {node.nbytes()} bytes, expected {ref.nbytes(m.msg)}", signature="ast-nbytes")
            if m.max_bytes is not None:
                stats.evaluations += 1
                k = m.max_bytes[1]
                stats.count("use:max_bytes_zero" if k == 0 else ("use:max_bytes_eq" if k == ref.nbytes(m.msg) else "use:max_bytes_lt"))
                got = node.get_option_as_int_or_raise("max_bytes")
                if got != k:
                    raise Violation(f"{f.filename}: {m.msg.name} option max_bytes is {got}; `{m.max_bytes[0]}` denotes {k}", signature="ast-max-bytes")
        for o in f.opts():
            stats.evaluations += 1
            stats.count("use:alignment" if o.name == "c.struct_packing_alignment" else "use:go_package_path")
            opt = proto.options_as_dict().get(o.name)
            got = opt.value if opt is not None else None
            if not same("int" if isinstance(o.value, int) else "str", got, o.value):
                raise Violation(f"{f.filename}: option {o.name} is {got!r}; `{o.ref_text}` denotes {o.value!r}", signature="ast-option")
    stats.count(f"files:{len(c.files)}")

    # -- rejection variants (one byte over max_bytes; alignment outside 0..8)
    for k, r in enumerate(c.rejects):
        f = c.files[r.file]
        vname = f"{f.base}_variant{k}.bitproto"
        bpapi.write_files(src, {vname: texts[f.filename] + r.suffix})
        stats.evaluations += 1
        stats.count("use:max_bytes_reject" if r.kind == "max_bytes" else "use:alignment_reject")
        want = "MessageSizeOverflows" if r.kind == "max_bytes" else "InvalidOptionValue"
        try:
            bpapi.parse(os.path.join(src, vname))
        except bpapi.ParserError as e:
            if want not in _mro_names(e):
                raise Violation(f"{r.why}: rejected, but as {type(e).__name__}: {e}", {"appended": r.suffix}, signature=f"reject-kind:{type(e).__name__}")
        except Exception as e:
            raise Violation(f"{r.why}: {type(e).__name__}: {e}", {"appended": r.suffix}, signature=f"reject-exc:{type(e).__name__}")
        else:
            raise Violation(f"{r.why}: accepted (the option did not receive the constant's value)", {"appended": r.suffix}, signature="reject-accepted")

    # -- emission
    outs = {}
    for lang in ("py", "c", "go"):
        outs[lang] = os.path.join(work, "out_" + lang)
        for f, proto in zip(c.files, protos):
            try:
                bpapi.render(proto, lang, outs[lang])
            except Exception as e:
                raise Violation(f"rendering {f.filename} for {lang} raised {type(e).__name__}: {e}", signature=f"render:{lang}:{type(e).__name__}")
    check_python(c, outs["py"], stats)
    for fi in range(len(c.files)):
        check_c(c, fi, outs["c"], work, stats)
        check_go(c, fi, outs["go"], stats)
    main = c.files[-1]
    if len(c.files) >= 2 and sum(1 for d in main.consts() if "mixed_precedence" in d.labels and "ref" in d.labels) >= 1 and any(d.kind == "str" and d.nontrivial for d in main.consts()):
        stats.sample({"files": {k: (t if len(t) < 1200 else t[:1200] + "...") for k, t in texts.items()}, "expected": {f.proto: {d.name: d.value for d in f.consts()} for f in c.files}})


# ---------------------------------------------------------------------------
# Deliberate probe of recorded finding D1 (division by a zero-valued expression)
# ---------------------------------------------------------------------------

D1_SHAPES = [
    "const K_A = 1 / 0",
    "const K_A = 7 / 0x0",
    "const K_Z = 0\nconst K_A = 12 / K_Z",
    "const K_T = 2\nconst K_A = 9 / (K_T - 2)",
    "const K_A = 8 / (3 / 4)",
    "const K_A = 0 / 0",
]


def probe_jobs(tier: str, seed: int) -> List[Any]:
    return [("d1", D1_SHAPES)]


def run_probe(job: Any, stats: Stats) -> None:
    _, shapes = job
    work = env.scratch_dir("p")
    try:
        for k, body in enumerate(shapes):
            p = os.path.join(work, f"zero{k}.bitproto")
            with open(p, "w") as fh:
                fh.write(f"proto zero{k}\n{body}\n")
            stats.evaluations += 1
            stats.count("probe:zero_divisor")
            try:
                bpapi.parse(p)
            except bpapi.ParserError:
                stats.count("probe:zero_divisor_clean_error")
            except ZeroDivisionError as e:
                stats.known_finding("D1", f"`{body.splitlines()[-1]}` -> ZeroDivisionError: {e}")
            except Exception as e:
                raise Violation(f"`{body}`: {type(e).__name__}: {e}", signature=f"zero-div:{type(e).__name__}")
            else:
                raise Violation(f"`{body}` (division by a zero-valued expression) was accepted", signature="zero-div-accepted")
        stats.add_distinct(len(shapes))
    finally:
        env.rmtree(work)


def selftest() -> None:
    """The oracle side must be sane before anything it says is believed."""
    E = CE
    a, b, c_ = E.Lit(20, "20"), E.Lit(6, "0x6"), E.Lit(4, "4")
    t = E.Bin("-", E.Bin("-", a, b), c_)
    assert E.self_check(t) == 10 and E.render(t, [" "]) == "20 - 0x6 - 4"
    t = E.Bin("-", a, E.Bin("-", b, c_))
    assert E.self_check(t) == 18 and E.render(t, [""]) == "20-(0x6-4)"
    t = E.Bin("/", E.Bin("/", a, b), c_)
    assert E.self_check(t) == 0 and E.render(t, [" "]) == "20 / 0x6 / 4"
    t = E.Bin("*", E.Bin("/", a, b), c_)
    assert E.self_check(t) == 12
    t = E.Bin("/", a, E.Bin("*", b, c_))
    assert E.self_check(t) == 0 and E.render(t, [" "]) == "20 / ( 0x6 * 4 )"
    t = E.Bin("+", a, E.Bin("*", b, c_))
    assert E.self_check(t) == 44 and E.render(t, [" "]) == "20 + 0x6 * 4"
    t = E.Bin("*", E.Bin("+", a, b), c_)
    assert E.self_check(t) == 104 and E.render(t, [" "]) == "( 20 + 0x6 ) * 4"
    assert set(E.sensitivity(E.Bin("-", E.Bin("-", a, b), c_))) >= {"right_assoc_addsub"}
    assert "float_division" in E.sensitivity(E.Bin("/", E.Lit((1 << 62) + 1, str((1 << 62) + 1)), E.Lit(1, "1")))
    assert E.unescape_reference('"a\\tb\\\\c\\"d\\\'e\\nf\\rg"') == "a\tb\\c\"d'e\nf\rg"
    assert E.needs_escape("go", "a\rb") == [] and E.needs_escape("c", "a\rb") == ["\r"] and E.needs_escape("py", 'a"') == ['"']


PARTS = [
    FuncPart("d1_probe", probe_jobs, run_probe),
    HypPart("gen", lambda tier: strategy_(), run_case, {"quick": 2400, "thorough": 48000}, describe=describe),
]
