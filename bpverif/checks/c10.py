"""C10 — Every accepted schema yields code the target toolchains accept."""

from __future__ import annotations

import ast
import builtins
import copy
import os
import shutil
import subprocess
from dataclasses import dataclass, field
from typing import Any, Dict, List, Optional, Set, Tuple

from hypothesis import strategies as st

from .. import bpapi, cases, cexec, env, gen, pyexec, ref, render_bp, scoping, strategies as S
from ..gointerp import parse_file as go_parse_file, static_check as go_static_check
from ..gointerp import nodes as gonodes
from ..model import Alias, Const, Enum, Field, File, Import, Message, TArray, TBase, TRef, Unit, enclosing_messages, file_of, iter_enums, iter_messages, resolve, set_parents, unit_messages
from ..runner import FuncPart, HypPart, Stats, Violation

ID = "C10"
LEVEL = "exploration"
RULE = (
    "Generated compilation units composing: nesting, imports with/without `as` and chains, types nested in messages of "
    "imported files, two-hop import paths, aliases/arrays of named types, empty messages and empty enums, file names "
    "different from proto names, message names ending in digits / starting with 'Array' with colliding field numbers, field "
    "named `type`, files in sub-directories imported by relative paths, a file name with extra dots/dashes for the file nothing imports, schema text with comment text that is special in a target language (`*/`, trailing backslash, quotes, triple quotes, backslash-u ...), trailing comments, `;`-joined statements, no final newline, options c.name_prefix, c.struct_packing_alignment over its whole accepted range 0..8, py.module_name; each "
    "hazardous family is switched on independently with low probability so most cases are hazard-free and judged strictly. "
    "Every file of the unit is compiled for {c, c -O (traditional units), c -O -F subset, py, go}. Oracles: gcc -c accepts "
    "every generated .c; a C driver and a C++ driver (g++, same generated header) link against the C objects and print "
    "sizeof/offsetof of every struct, which must be equal; Python: every module imports, every message class instantiates "
    "with defaults, every name loaded anywhere in the module resolves (static scope walk); Go: token/AST-level static check "
    "(balanced brackets, imports first, every identifier declared or qualified by an import that exports it, every import "
    "used, no duplicate declaration). evaluations = (file, target) acceptance decisions. Non-trivial: unit uses >= 2 of "
    "{import, nested type used from another scope, alias/array position of a named type, empty message/enum, adversarial "
    "names, prefix/alignment/module option}; distinct by (unit digest, target)."
)
ASSUMPTIONS = [
    "gcc/g++ 12, CPython 3.12; Go: static check by bpverif.gointerp only (no Go toolchain), as the property states",
    "identifiers come from a vocabulary that avoids reserved words and stays distinct after flattening, as the property presupposes; "
    "the adversarial pool (A, A1, A12, ArrayA ...) is distinct after flattening too",
    "a failure is attributed to a recorded finding only if the unit has that finding's exact shape (computed from the model) AND the "
    "failure text matches its signature; hazard-free units must pass every target",
]
REQUIRED_LABELS = ["import", "nested_message", "opt:prefix", "opt:align", "lang:c-O-F", "lang:go", "lang:py", "hazard-free"]


# ---------------------------------------------------------------------------
# case
# ---------------------------------------------------------------------------


@dataclass
class Case:
    unit: Unit
    hazards: List[str]
    filter_pick: int = 0
    style: Any = None  # how the schema text is written (comments with text that is special in a target language, ...)


ADV_NAMES = ["Ab", "Ab1", "Ab12", "ArrayAb", "Ab2", "ArrayAb1"]
ADV_NUMBERS = [1, 2, 11, 12, 21, 112]


@st.composite
def strategy_(draw: Any) -> Case:
    hz: List[str] = []

    def flip(name: str, p10: int) -> bool:
        on = draw(st.integers(0, 9)) < p10
        if on:
            hz.append(name)
        return on

    feat = S.Features(
        xfile_nested=flip("xfile_nested", 1),
        transitive_ref=flip("transitive_ref", 1),
        empty_enum=flip("empty_enum", 1),
        base_ne_proto=flip("base_ne_proto", 1),
        subdirs=True,
        odd_file_names=True,
        long_names=True,
        extensible=draw(st.booleans()),
        bits_budget=300,
        big=False,
        max_defs=5,
    )
    feat.ext_arrays = feat.extensible
    unit = draw(S.units(feat))
    set_parents(unit)
    if flip("prefix", 3):
        for f in unit.files:
            if draw(st.booleans()):
                f.options.append(("c.name_prefix", draw(st.sampled_from(["pre_", "my_lib_", "x_"])) + ("" if len(unit.files) == 1 else f.proto[:2] + "_")))
    if flip("align", 3):
        for f in unit.files:
            if draw(st.booleans()):
                f.options.append(("c.struct_packing_alignment", draw(st.integers(0, 8))))
    if flip("module_name", 1):
        for f in unit.files[:-1]:
            if draw(st.booleans()):
                f.options.append(("py.module_name", "mod_" + f.proto))
    if flip("adversarial_names", 2):
        tops = [it for f in unit.files for it in f.items if isinstance(it, Message)]
        names = draw(st.permutations(ADV_NAMES))
        for m, n in zip(tops, names):
            m.name = n
            flds = m.fields()
            nums = draw(st.permutations(ADV_NUMBERS))
            if len(flds) <= len(nums):
                for fl, k in zip(flds, nums):
                    fl.number = k
        # an ALIAS whose name is a message name + `_` + the number of one of that message's array fields (`Ab1_21` next to
        # message Ab1 with an array numbered 21): distinct from every other name in every documented case form (`Ab121`, `AB1_21`)
        taken = {it.name.replace("_", "").lower() for f in unit.files for it in f.items if hasattr(it, "name")}
        for m in tops[: len(names)]:
            arrs = [fl for fl in m.fields() if isinstance(fl.type, TArray)]
            if not arrs or not draw(st.booleans()):
                continue
            fl = arrs[draw(st.integers(0, len(arrs) - 1))]
            an = f"{m.name}_{fl.number}"
            if an.replace("_", "").lower() in taken:
                continue
            taken.add(an.replace("_", "").lower())
            a = Alias(an, TArray(TBase("byte"), draw(st.integers(1, 4))))
            f = file_of(m)
            f.items.insert([k for k, x in enumerate(f.items) if x is m][0], a)
            free = [k for k in range(1, 256) if all(x.number != k for x in m.fields())]
            if free and len(m.fields()) < 200:
                m.items.append(Field("adv_alias", TRef(an, a), free[0]))
            hz.append("alias_named_message_number")
        set_parents(unit)
        if not scoping.retext(unit):
            raise AssertionError("rename broke references")
    if flip("type_field", 1):
        for m in unit_messages(unit):
            fl = m.fields()
            if fl and draw(st.booleans()):
                fl[0].name = "type"
    style = None
    if flip("comments", 3):
        from ..rewrites import draw_style

        style = draw_style(draw)
        style.comments = True
    return Case(unit, hz, draw(st.integers(0, 1000)), style)


def describe(c: Case) -> Any:
    return {"files": render_bp.render_unit(c.unit, c.style), "hazard_families_on": c.hazards}


# ---------------------------------------------------------------------------
# shape predicates of recorded findings (model only)
# ---------------------------------------------------------------------------


def _trefs(unit: Unit) -> List[Tuple[Any, TRef]]:
    from ..rewrites import _all_trefs

    return _all_trefs(unit)


def shape_d7(unit: Unit) -> bool:
    """A type nested in a message of an imported file is used from another file."""
    return any(file_of(t.target) is not file_of(o) and enclosing_messages(t.target) for o, t in _trefs(unit))


def shape_n3(unit: Unit) -> bool:
    """A type written through two import hops (`a.b.X`): the output qualifies it by the INNER
    import name `b`, which resolves in the using file only if that file itself imports X's
    file under the very same name."""
    for o, t in _trefs(unit):
        of = file_of(o)
        tf = file_of(t.target)
        if tf is of:
            continue
        parts = t.text_.split(".")
        imps = {imp.name: imp.file for imp in of.imports()}
        first = imps.get(parts[0])
        if first is None:
            continue
        inner = {imp.name: imp.file for imp in first.imports()}
        if len(parts) >= 3 and parts[1] in inner and inner[parts[1]] is tf:
            if imps.get(parts[1]) is not tf:
                return True
    return False


def _alias_chain_foreign(unit: Unit) -> bool:
    """Imported alias whose element chain names an enum/alias nested in a message or of a
    third file (Go casts bytes to that type by a name that does not resolve in the user)."""
    def hazard(a: Alias) -> bool:
        t = a.type
        while isinstance(t, TArray):
            t = t.elem
        if not isinstance(t, TRef) or isinstance(t.target, Message):
            return False
        tgt = t.target
        if file_of(tgt) is not file_of(a) or enclosing_messages(tgt):
            return True
        return isinstance(tgt, Alias) and hazard(tgt)

    def elem_alias(t: Any) -> Optional[Alias]:
        while isinstance(t, TArray):
            t = t.elem
        if isinstance(t, TRef) and isinstance(t.target, Alias):
            return t.target
        return None

    for o, t in _trefs(unit):
        if isinstance(t.target, Alias) and file_of(t.target) is not file_of(o) and hazard(t.target):
            return True
    return False


def shape_n13(unit: Unit) -> bool:
    """A message has a field named like an import name of its file and, later in field-number order, a field whose
    type is written through that import: the Python class body has bound the name to the field's default by then."""
    for f in unit.files:
        names = {i.name for i in f.imports()}
        if not names:
            continue
        for m in iter_messages(f):
            flds = m.sorted_fields()
            for k, fl in enumerate(flds):
                if fl.name not in names:
                    continue
                for g in flds[k + 1 :]:
                    t = g.type
                    while isinstance(t, TArray):
                        t = t.elem
                    if isinstance(t, TRef) and t.text_.split(".")[0] == fl.name and "." in t.text_:
                        return True
    return False


def shape_empty_enum(unit: Unit) -> bool:
    return any(not e.members for f in unit.files for e in iter_enums(f))


def shape_d11(unit: Unit) -> bool:
    """An imported file whose base name differs from its proto name."""
    imported = {id(imp.file) for f in unit.files for imp in f.imports()}
    return any(f.base != f.proto and id(f) in imported for f in unit.files)


def shape_d10(f: File) -> bool:
    """File f has an import none of whose uses is a type."""
    used = set()
    for it in f.items:
        if isinstance(it, Alias):
            for t in _walk(it.type):
                used.add(id(file_of(t.target)))
    for m in iter_messages(f):
        for fl in m.fields():
            for t in _walk(fl.type):
                used.add(id(file_of(t.target)))
    return any(id(imp.file) not in used for imp in f.imports())


def _walk(t: Any) -> List[TRef]:
    out = []
    while isinstance(t, TArray):
        t = t.elem
    if isinstance(t, TRef):
        out.append(t)
    return out


def shape_d12(m: Message) -> bool:
    """Struct that (transitively, by value) contains a message without fields."""
    def has_empty(t: Any) -> bool:
        t = resolve(t)
        if isinstance(t, Message):
            return not t.fields() or any(has_empty(f.type) for f in t.fields())
        if isinstance(t, TArray):
            return has_empty(t.elem)
        return False

    return has_empty(m)


def shape_n6(f: File) -> bool:
    return f.option("c.struct_packing_alignment", 0) in (3, 5, 6, 7)


def c_helper_names(unit: Unit) -> List[str]:
    """Names of the internal C helpers, by the generator's patterns (used only to attribute D9)."""
    names: List[str] = []
    for f in unit.files:
        for it in f.items:
            if isinstance(it, Alias):
                an = ref.c_type_name(it, cexec.c_prefix(f))
                names.append("Process" + an)
                if isinstance(it.type, TArray):
                    names.append("ProcessArray" + an)
        for m in iter_messages(f):
            sn = cexec.struct_name(m)
            names.append("Process" + sn)
            for fl in m.fields():
                if isinstance(fl.type, TArray):
                    names.append(f"ProcessArray{sn}{fl.number}")
    return names


def shape_d9(unit: Unit) -> bool:
    n = c_helper_names(unit)
    return len(n) != len(set(n))


def shape_n8(f: File) -> bool:
    """go -O inlines the leaves of every message reachable by value and casts each leaf to
    its declared enum/alias type, qualified the way the file that DECLARES the field would
    qualify it.  Shape: some leaf reachable from a message of f, declared in another file g,
    has an enum/alias type D whose emitted name does not resolve in f: D is nested in a
    message, or the qualifier (the import name under which D's file is known on the path
    from f to g) is not an import name of f for that same file."""
    f_imports = {imp.name: imp.file for imp in f.imports()}

    def import_name(g: File, target: File) -> Optional[str]:
        for imp in g.imports():
            if imp.file is target:
                return imp.name
        return None

    seen: Set[Tuple[int, Optional[str]]] = set()

    def named_bad(d: Any, g: File, gname: Optional[str]) -> bool:
        if g is f:
            return False  # written in f itself: standard-mode rules (D7/N3 shapes are separate findings)
        q = gname if file_of(d) is g else import_name(g, file_of(d))
        if enclosing_messages(d):
            return True
        return q is None or f_imports.get(q) is not file_of(d)

    def walk(t: Any, g: File, gname: Optional[str]) -> bool:
        if isinstance(t, TArray):
            return walk(t.elem, g, gname)
        if isinstance(t, TRef):
            d = t.target
            if isinstance(d, (Enum, Alias)) and named_bad(d, g, gname):
                return True
            m = file_of(d)
            sub = gname if m is g else import_name(g, m)
            if isinstance(d, Alias):
                return walk(d.type, m, sub)
            if isinstance(d, Message):
                key = (id(d), sub)
                if key in seen:
                    return False
                seen.add(key)
                return any(walk(fl.type, m, sub) for fl in d.fields())
        return False

    return any(walk(fl.type, f, None) for m in iter_messages(f) for fl in m.fields())


def shape_n7(f: File) -> bool:
    return bool(f.imports())


# ---------------------------------------------------------------------------
# Python static name resolution
# ---------------------------------------------------------------------------


class _PyNames(ast.NodeVisitor):
    def __init__(self, tree: ast.Module):
        self.module_names: Set[str] = set(dir(builtins))
        for node in tree.body:
            self._bind(node, self.module_names)
        self.undefined: List[Tuple[str, int]] = []
        self.scopes: List[Set[str]] = []

    def _bind(self, node: ast.AST, into: Set[str]) -> None:
        if isinstance(node, (ast.FunctionDef, ast.ClassDef, ast.AsyncFunctionDef)):
            into.add(node.name)
        elif isinstance(node, ast.Import):
            for a in node.names:
                into.add((a.asname or a.name).split(".")[0])
        elif isinstance(node, ast.ImportFrom):
            for a in node.names:
                into.add(a.asname or a.name)
        elif isinstance(node, (ast.Assign, ast.AnnAssign, ast.AugAssign)):
            targets = node.targets if isinstance(node, ast.Assign) else [node.target]
            for t in targets:
                for n in ast.walk(t):
                    if isinstance(n, ast.Name):
                        into.add(n.id)
        elif isinstance(node, (ast.For, ast.With, ast.If, ast.While, ast.Try)):
            for n in ast.walk(node):
                if isinstance(n, ast.Name) and isinstance(n.ctx, ast.Store):
                    into.add(n.id)

    def visit_ClassDef(self, node: ast.ClassDef) -> None:
        for b in node.bases + node.decorator_list:
            self.visit(b)
        local: Set[str] = set()
        for st_ in node.body:
            self._bind(st_, local)
        self.scopes.append(local)
        # class-level names are visible to class-level expressions (not to nested function bodies)
        for st_ in node.body:
            if isinstance(st_, (ast.FunctionDef, ast.AsyncFunctionDef)):
                self.scopes.pop()
                self.visit(st_)
                self.scopes.append(local)
            else:
                self.visit(st_)
        self.scopes.pop()

    def visit_FunctionDef(self, node: ast.FunctionDef) -> None:
        for d in node.decorator_list:
            self.visit(d)
        args = node.args
        for a in args.defaults + [d for d in args.kw_defaults if d is not None]:
            self.visit(a)
        for a in args.posonlyargs + args.args + args.kwonlyargs + ([args.vararg] if args.vararg else []) + ([args.kwarg] if args.kwarg else []):
            if a.annotation is not None:
                self.visit(a.annotation)
        if node.returns is not None:
            self.visit(node.returns)
        local = {a.arg for a in args.posonlyargs + args.args + args.kwonlyargs}
        if args.vararg:
            local.add(args.vararg.arg)
        if args.kwarg:
            local.add(args.kwarg.arg)
        for n in ast.walk(node):
            if isinstance(n, ast.Name) and isinstance(n.ctx, ast.Store):
                local.add(n.id)
            if isinstance(n, (ast.FunctionDef, ast.ClassDef)) and n is not node:
                local.add(n.name)
        self.scopes.append(local)
        for st_ in node.body:
            self.visit(st_)
        self.scopes.pop()

    def visit_Lambda(self, node: ast.Lambda) -> None:
        local = {a.arg for a in node.args.args}
        for n in ast.walk(node.body):
            if isinstance(n, ast.Name) and isinstance(n.ctx, ast.Store):
                local.add(n.id)
        self.scopes.append(local)
        self.visit(node.body)
        self.scopes.pop()

    def _comp(self, node: Any) -> None:
        local: Set[str] = set()
        for g in node.generators:
            for n in ast.walk(g.target):
                if isinstance(n, ast.Name):
                    local.add(n.id)
        self.scopes.append(local)
        self.generic_visit(node)
        self.scopes.pop()

    visit_ListComp = visit_SetComp = visit_GeneratorExp = visit_DictComp = _comp

    def visit_Name(self, node: ast.Name) -> None:
        if isinstance(node.ctx, ast.Load):
            if node.id in self.module_names or any(node.id in s for s in self.scopes):
                return
            self.undefined.append((node.id, node.lineno))


def py_undefined_names(src: str) -> List[Tuple[str, int]]:
    tree = ast.parse(src)
    v = _PyNames(tree)
    v.visit(tree)
    return v.undefined


# ---------------------------------------------------------------------------
# Go helpers
# ---------------------------------------------------------------------------

_go_rt_names: Optional[Set[str]] = None


def go_toplevel_names(src: str) -> Set[str]:
    f = go_parse_file(src)
    out: Set[str] = set()
    for d in f.decls:
        if isinstance(d, (gonodes.ConstSpec, gonodes.VarSpec)):
            for n in d.names:
                out.add(n.name if hasattr(n, "name") else str(n))
        elif isinstance(d, gonodes.TypeSpec):
            out.add(d.name.name if hasattr(d.name, "name") else str(d.name))
        elif isinstance(d, gonodes.FuncDecl) and d.recv is None:
            out.add(d.name.name if hasattr(d.name, "name") else str(d.name))
    return out


def go_runtime_names() -> Set[str]:
    global _go_rt_names
    if _go_rt_names is None:
        from .. import goexec

        _go_rt_names = go_toplevel_names(goexec.runtime_source())
    return _go_rt_names


# ---------------------------------------------------------------------------
# the check
# ---------------------------------------------------------------------------


def _gcc(args: List[str]) -> Tuple[int, str]:
    r = subprocess.run(args, stdout=subprocess.PIPE, stderr=subprocess.STDOUT, text=True)
    return r.returncode, r.stdout


def run_case(c: Case, stats: Stats) -> None:
    unit = c.unit
    set_parents(unit)
    for h in c.hazards:
        stats.count("family:" + h)
    if any(o[0] == "c.name_prefix" for f in unit.files for o in f.options):
        stats.count("opt:prefix")
    if any(o[0] == "c.struct_packing_alignment" for f in unit.files for o in f.options):
        stats.count("opt:align")
    for lab in S.unit_labels(unit):
        stats.count(lab)
    d7, n3, ee, d11, d9 = shape_d7(unit), shape_n3(unit), shape_empty_enum(unit), shape_d11(unit), shape_d9(unit)
    chainf = _alias_chain_foreign(unit)
    traditional = not any(m.ext for m in unit_messages(unit)) and not _has_ext_array(unit)
    hazard_free = not (d7 or n3 or ee or d11 or d9 or chainf or any(shape_n6(f) or shape_d10(f) for f in unit.files) or any(shape_d12(m) for m in unit_messages(unit)))
    if hazard_free:
        stats.count("hazard-free")
    nt_feats = {"import", "nested_message", "nested_enum", "alias_use", "array_of_message", "empty_message", "dotted_ref"} & set(S.unit_labels(unit))
    nontrivial = len(nt_feats) + (1 if c.hazards else 0) >= 2

    if c.style is not None and c.style.spicy_comments:
        stats.count("style:spicy_comments")
    with gen.Compiled(unit, c.style) as cu:
        digest = cases.unit_digest(cu.texts)

        def known(fid: str, what: str) -> None:
            stats.known_finding(fid, what)

        # ---- render every file for every language; internal errors are violations unless attributed
        rendered: Dict[str, str] = {}
        for lang, tag, optimize in [("c", "c", False), ("py", "py", False), ("go", "go", False)] + ([("c", "c_O", True), ("go", "go_O", True)] if traditional else []):
            try:
                rendered[tag] = cu.render_all(lang, tag=tag, optimize=optimize)
            except Exception as e:
                if lang == "py" and ee and isinstance(e, IndexError):
                    known("D3", f"empty enum used as a Python field: IndexError in the renderer")
                    continue
                raise Violation(f"rendering accepted schema for {tag} raised {type(e).__name__}: {e}", signature=f"render:{tag}:{type(e).__name__}")
            stats.evaluations += len(unit.files)

        # ---- C
        for tag in ("c", "c_O"):
            if tag not in rendered:
                continue
            stats.count("lang:" + tag.replace("_", "-"))
            _check_c(c, unit, cu, rendered[tag], tag, stats, digest, nontrivial, d11, d9, known)
        if "c_O" in rendered:
            _check_c_filter(c, unit, cu, stats, known, d11, d9)

        # ---- Python
        if "py" in rendered:
            stats.count("lang:py")
            _check_py(unit, cu, rendered["py"], stats, d7, n3, ee, d11, known)
            if nontrivial:
                stats.mark_nontrivial(digest, "py")

        # ---- Go
        for tag in ("go", "go_O"):
            if tag not in rendered:
                continue
            stats.count("lang:go")
            _check_go(unit, rendered[tag], tag, stats, d7, n3, chainf, known)
            if nontrivial:
                stats.mark_nontrivial(digest, tag)
        stats.sample({"hazard_families_on": c.hazards, "hazard_free": hazard_free, "files": cu.texts if len(str(cu.texts)) < 1800 else "(large)"})


def _has_ext_array(unit: Unit) -> bool:
    from ..evolve import ext_arrays

    return bool(ext_arrays(unit))


def _check_c(c: Case, unit: Unit, cu: gen.Compiled, cdir: str, tag: str, stats: Stats, digest: str, nontrivial: bool, d11: bool, d9: bool, known: Any) -> None:
    ok_all = True
    for f in unit.files:
        rc, out = _gcc(["gcc", "-c", "-std=gnu11", "-I", env.CLIB_DIR, "-I", cdir, os.path.join(cdir, f.base + "_bp.c"), "-o", os.path.join(cdir, f.base + "_bp.o")])
        stats.evaluations += 1
        if rc != 0:
            ok_all = False
            if shape_n6(f) and "alignment" in out and "power of" in out:
                known("N6", f"c.struct_packing_alignment = {f.option('c.struct_packing_alignment')} accepted but gcc rejects the attribute")
                continue
            if any(shape_n6(g) for g in unit.files) and "power of" in out:
                known("N6", "imported header carries a non power-of-two alignment")
                continue
            if d11 and "No such file or directory" in out and "_bp.h" in out:
                known("D11", "#include uses the proto name, the generated header is named after the source file")
                continue
            if d9 and ("redefinition of" in out or "conflicting types" in out) and "BpXXX" in out:
                known("D9", "two internal C helpers share a name: " + _first_line(out, "redefinition"))
                continue
            raise Violation(f"gcc rejects generated {f.base}_bp.c ({tag}): {out[-1500:]}", signature=f"gcc:{tag}")
    if not ok_all:
        return
    msgs = [m for m in unit_messages(unit)]
    if not msgs:
        return
    # link C driver and C++ driver against the C objects; compare layouts
    layouts = {}
    for cxx in (False, True):
        try:
            drv = cexec.CDriver(unit, cdir, msgs, cexec.CConfig("gcc", "-O0", cxx_driver=cxx), with_json=(tag == "c"), workdir=cu.outdir(f"drv_{tag}_{int(cxx)}"), size_from_model=True)
        except cexec.CBuildError as e:
            txt = str(e)
            if d9 and ("multiple definition" in txt or "redefinition" in txt) and "BpXXX" in txt:
                known("D9", "two internal C helpers share a name (link): " + _first_line(txt, "multiple definition"))
                return
            raise Violation(f"{'C++' if cxx else 'C'} program using the generated header/API ({tag}) does not build: {txt[-1500:]}", signature=f"link:{tag}:{'cxx' if cxx else 'c'}")
        try:
            out = drv.run(["Z"])
        except cexec.Crash as cr:
            raise Violation(f"layout program crashed: {cr}", signature="layout-crash")
        layouts[cxx] = cexec.parse_layout(out)
        stats.evaluations += 1
    for k, m in enumerate(msgs):
        if layouts[False].get(k) != layouts[True].get(k):
            if shape_d12(m):
                known("D12", f"struct {cexec.struct_name(m)} contains an empty struct: sizeof/offsets differ between C {layouts[False].get(k)} and C++ {layouts[True].get(k)}")
                continue
            raise Violation(f"struct {cexec.struct_name(m)} has different size/offsets in C {layouts[False].get(k)} and C++ {layouts[True].get(k)} ({tag})", signature="layout")
    if nontrivial:
        stats.mark_nontrivial(digest, tag)


def _first_line(out: str, key: str) -> str:
    for l in out.splitlines():
        if key in l:
            return l.strip()[:200]
    return ""


def _check_c_filter(c: Case, unit: Unit, cu: gen.Compiled, stats: Stats, known: Any, d11: bool, d9: bool) -> None:
    """-O -F subset: the header and source still compile, and a program using the filtered messages links."""
    main = unit.main
    msgs = [m for m in iter_messages(main)]
    if not msgs:
        return
    pick = [m for i, m in enumerate(msgs) if (c.filter_pick >> (i % 10)) & 1] or msgs[:1]
    out = cu.outdir("c_OF")
    stats.count("lang:c-O-F")
    try:
        for f in unit.files[:-1]:
            bpapi.render(cu.parse(f, traditional=True), "c", out, optimize=True)
        bpapi.render(cu.parse(main, traditional=True), "c", out, optimize=True, filter_messages=[_filter_name(m) for m in pick])
    except Exception as e:
        raise Violation(f"rendering c -O -F raised {type(e).__name__}: {e}", signature="render:c-O-F")
    for f in unit.files:
        rc, o = _gcc(["gcc", "-c", "-std=gnu11", "-I", env.CLIB_DIR, "-I", out, os.path.join(out, f.base + "_bp.c"), "-o", os.path.join(out, f.base + "_bp.o")])
        stats.evaluations += 1
        if rc != 0:
            if (shape_n6(f) or any(shape_n6(g) for g in unit.files)) and "power of" in o:
                known("N6", "non power-of-two alignment")
                continue
            if d11 and "No such file or directory" in o:
                known("D11", "#include uses the proto name")
                continue
            if d9 and "BpXXX" in o:
                known("D9", "helper name collision")
                continue
            raise Violation(f"gcc rejects generated {f.base}_bp.c (c -O -F {[m.name for m in pick]}): {o[-1500:]}", signature="gcc:c-O-F")


def _filter_name(m: Message) -> str:
    """Name form the -F option takes: the message's schema name."""
    return m.name


def _check_py(unit: Unit, cu: gen.Compiled, pydir: str, stats: Stats, d7: bool, n3: bool, ee: bool, d11: bool, known: Any) -> None:
    # honour py.module_name the way a user must: the generated file becomes that module
    for f in unit.files:
        mn = f.option("py.module_name", "")
        if mn:
            shutil.copy(os.path.join(pydir, f.base + "_bp.py"), os.path.join(pydir, mn + ".py"))
    # static: every loaded name resolves
    for f in unit.files:
        path = os.path.join(pydir, f.base + "_bp.py")
        src = open(path).read()
        stats.evaluations += 1
        try:
            undefined = py_undefined_names(src)
        except SyntaxError as e:
            if ee and any(not e2.members for e2 in iter_enums(f)):
                known("N2", f"empty enum renders an empty class body: {e.msg} at line {e.lineno}")
                continue
            if ee:
                known("N2", "module imports a module with an empty enum class body")
                continue
            raise Violation(f"generated {f.base}_bp.py is not valid Python: {e}", signature="py-syntax")
        if undefined:
            names = sorted({n for n, _ in undefined})
            if (d7 or n3) and _unqualified_explained(unit, f, names):
                known("D7" if d7 else "N3", f"{f.base}_bp.py mentions {names[:4]} which it neither defines nor imports")
                continue
            raise Violation(f"generated {f.base}_bp.py mentions names it neither defines nor imports: {undefined[:6]}", signature="py-undefined-name")
    # dynamic: import + instantiate
    with pyexec.PyModules(pydir) as pm:
        for f in unit.files:
            stats.evaluations += 1
            try:
                mod = pm.load(f.base + "_bp")
            except Exception as e:
                txt = f"{type(e).__name__}: {e}"
                if ee and isinstance(e, (SyntaxError, IndentationError)):
                    known("N2", "empty enum: " + txt[:120])
                    continue
                if d11 and isinstance(e, ModuleNotFoundError):
                    known("D11", "import uses the proto name, the generated module is named after the source file: " + txt[:120])
                    continue
                if (d7 or n3) and isinstance(e, (NameError, AttributeError)):
                    known("D7" if d7 else "N3", "unqualified/misqualified cross-file type name: " + txt[:160])
                    continue
                if isinstance(e, AttributeError) and "object has no attribute" in txt and shape_n13(unit):
                    known("N13", "field named like an import name hides the module in the class body: " + txt[:160])
                    continue
                if ee and isinstance(e, (NameError, AttributeError, IndexError)):
                    known("N2", "import chain with empty enum: " + txt[:120])
                    continue
                raise Violation(f"import of generated {f.base}_bp.py failed: {txt}", signature=f"py-import:{type(e).__name__}")
            for m in iter_messages(f):
                try:
                    obj = getattr(mod, ref.py_class_name(m))()
                    obj.bp_processor()
                except Exception as e:
                    txt = f"{type(e).__name__}: {e}"
                    if (d7 or n3) and isinstance(e, (NameError, AttributeError)):
                        known("D7" if d7 else "N3", "unqualified/misqualified cross-file type name at instantiation: " + txt[:160])
                        continue
                    raise Violation(f"{f.base}_bp.{ref.py_class_name(m)}() with defaults failed: {txt}", signature=f"py-instantiate:{type(e).__name__}")


def _unqualified_explained(unit: Unit, f: File, names: List[str]) -> bool:
    """Are all unresolved names the flattened names of types of OTHER files, or import
    names of other files (the D7 / N3 signature)?"""
    foreign: Set[str] = set()
    for g in unit.files:
        if g is f:
            continue
        for m in iter_messages(g):
            foreign.add(ref.py_class_name(m))
            foreign.add("bp_processor_" + ref.py_class_name(m))
        for e in iter_enums(g):
            foreign.add(ref.py_class_name(e))
            foreign.add("bp_processor_" + ref.py_class_name(e))
        for it in g.items:
            if isinstance(it, Alias):
                foreign.add(it.name)
                foreign.add("bp_processor_" + it.name)
                foreign.add("bp_default_factory_" + it.name)
        for imp in g.imports():
            foreign.add(imp.name)
    return all(n in foreign for n in names)


def _check_go(unit: Unit, godir: str, tag: str, stats: Stats, d7: bool, n3: bool, chainf: bool, known: Any) -> None:
    from .. import goexec

    srcs = {f.base: open(os.path.join(godir, f.base + "_bp.go")).read() for f in unit.files}
    exported: Dict[str, Set[str]] = {goexec.RUNTIME_IMPORT_PATH: go_runtime_names(), "strconv": {"FormatInt"}, "encoding/json": {"Marshal"}}
    for f in unit.files:
        try:
            exported[goexec.go_pkg_path(f)] = go_toplevel_names(srcs[f.base])
        except Exception:
            exported[goexec.go_pkg_path(f)] = set()
    for f in unit.files:
        stats.evaluations += 1
        problems = go_static_check(srcs[f.base], exported)
        rest = []
        for p in problems:
            if tag == "go_O" and shape_n7(f) and "imports must appear before other declarations" in p:
                known("N7", "go -O output places the import of a child proto after var declarations")
                continue
            if shape_d10(f) and "imported" in p and "not used" in p:
                known("D10", "Go import of a proto none of whose types is used: " + p[:120])
                continue
            if tag == "go_O" and shape_n8(f) and "undefined" in p:
                known("N8", "go -O casts an inlined leaf of an imported message to a type name that does not resolve here: " + p[:140])
                continue
            if (d7 or n3 or chainf) and ("undefined" in p or "undeclared" in p or "not declared" in p or "not exported" in p or "unknown" in p or ("imported" in p and "not used" in p)):
                known("D7" if d7 else ("N3" if n3 else "N3b"), "Go output mentions a cross-file type under a name that does not resolve: " + p[:160])
                continue
            rest.append(p)
        if rest:
            raise Violation(f"generated {f.base}_bp.go ({tag}) fails the static Go check: {rest[:5]}", signature="go-static")


PARTS = [HypPart("gen", lambda tier: strategy_(), run_case, {"quick": 224, "thorough": 4480}, describe=describe)]


# ---------------------------------------------------------------------------
# deliberate probes: one minimal unit per recorded finding (prints the KNOWN-FINDING
# line while the defect exists; must simply pass once it is repaired)
# ---------------------------------------------------------------------------


def _unit(*files: File) -> Unit:
    u = Unit(list(files))
    set_parents(u)
    assert scoping.retext(u), "probe unit invalid"
    return u


def probe_units() -> List[Tuple[str, Case]]:
    out: List[Tuple[str, Case]] = []
    B = TBase
    # D3 + N2: empty enum, used as a field / unused
    e = Enum("Empty", 3, [])
    out.append(("D3", Case(_unit(File("pa", "pa", [e, Message("Holder", False, [Field("e", TRef("Empty", e), 1)])])), ["empty_enum"])))
    out.append(("N2", Case(_unit(File("pb", "pb", [Enum("Hollow", 3, []), Message("Other", False, [Field("alt", B("bool"), 1)])])), ["empty_enum"])))
    # N13: a field named like the import name, followed (in number order) by a field typed through that import
    lib = File("libn", "libn", [Message("Token", False, [Field("ok", B("bool"), 1)])])
    tok = lib.items[0]
    usr = File("usern", "usern", [Import(lib, None), Message("Holder", False, [Field("libn", B("uint", 3), 1), Field("token", TRef("libn.Token", tok), 2)])])
    out.append(("N13", Case(_unit(lib, usr), ["field_named_like_import"])))
    # D7: nested type of an imported file
    inner = Message("Inner", False, [Field("ok", B("bool"), 1)])
    fa = File("pc", "pc", [Message("Point", False, [inner, Field("inn", TRef("Inner", inner), 1)])])
    fb = File("pd", "pd", [Import(fa), Message("Topm", False, [Field("pin", TRef("pc.Point.Inner", inner), 1)])])
    out.append(("D7", Case(_unit(fa, fb), ["xfile_nested"])))
    # N3: two import hops
    en = Enum("Color", 3, [("EV_RED", 0)])
    f0 = File("pe", "pe", [en])
    f1 = File("pf", "pf", [Import(f0), Message("Mid", False, [Field("c", TRef("pe.Color", en), 1)])])
    f2 = File("pg", "pg", [Import(f1), Message("Far", False, [Field("c", TRef("pf.pe.Color", en), 1)])])
    out.append(("N3", Case(_unit(f0, f1, f2), ["transitive_ref"])))
    # N3b: imported alias of an array of a third file's enum
    en2 = Enum("Shade", 3, [("EV_DARK", 0)])
    g0 = File("ph", "ph", [en2])
    al = Alias("Shades", TArray(TRef("ph.Shade", en2), 2))
    g1 = File("pi", "pi", [Import(g0), al, Message("Uses", False, [Field("s", TRef("Shades", al), 1)])])
    g2 = File("pj", "pj", [Import(g1), Message("Third", False, [Field("s", TRef("pi.Shades", al), 1)])])
    out.append(("N3b", Case(_unit(g0, g1, g2), ["alias_chain"])))
    # D9: helper name collision
    out.append(("D9", Case(_unit(File("pk", "pk", [Message("Ab1", False, [Field("xs", TArray(B("byte"), 2), 2)]), Message("Ab", False, [Field("ys", TArray(B("byte"), 2), 12)])])), ["adversarial_names"])))
    # D10: import used for a constant only
    k = Const("K_CAP", 3)
    h0 = File("pl", "pl", [k, Message("Cfg", False, [Field("alt", B("bool"), 1)])])
    h1 = File("pm", "pm", [Import(h0), Message("Usr", False, [Field("xs", TArray(B("uint", 3), 3, False, "pl.K_CAP", k), 1)])])
    out.append(("D10", Case(_unit(h0, h1), [])))
    # D11: file base name differs from proto name
    en3 = Enum("Tone", 3, [("EV_LOW", 0)])
    i0 = File("pn", "pn_file", [en3])
    i1 = File("po", "po", [Import(i0), Message("Snd", False, [Field("t", TRef("pn.Tone", en3), 1)])])
    out.append(("D11", Case(_unit(i0, i1), ["base_ne_proto"])))
    # D12: empty message contained by value
    em = Message("Nothing", False, [])
    out.append(("D12", Case(_unit(File("pp", "pp", [em, Message("Box", False, [Field("n", TRef("Nothing", em), 1), Field("after", B("uint", 9), 2)])])), [])))
    # N6: alignment 3
    fn6 = File("pq", "pq", [Message("Pack", False, [Field("alt", B("uint", 9), 1)])])
    fn6.options.append(("c.struct_packing_alignment", 3))
    out.append(("N6", Case(_unit(fn6), ["align"])))
    # N8: go -O inlines a nested enum of an imported message
    ne = Enum("Mood", 2, [("EV_CALM", 0)])
    k0 = File("pt", "pt", [Message("Zoo", False, [ne, Field("mood", TRef("Mood", ne), 1)])])
    k1 = File("pu", "pu", [Import(k0), Message("Visit", False, [Field("zoo", TRef("pt.Zoo", k0.items[0]), 1)])])
    out.append(("N8", Case(_unit(k0, k1), [])))
    # N7: go -O with an import
    en4 = Enum("Kind", 3, [("EV_ONE", 0)])
    j0 = File("pr", "pr", [en4])
    j1 = File("ps", "ps", [Import(j0), Message("Opt", False, [Field("k", TRef("pr.Kind", en4), 1)])])
    out.append(("N7", Case(_unit(j0, j1), [])))
    return out


def probe_jobs(tier: str, seed: int) -> List[Any]:
    return [p for p in probe_units()]


def run_probe(job: Any, stats: Stats) -> None:
    fid, case = job
    stats.count("probe:" + fid)
    run_case(case, stats)


PARTS.append(FuncPart("probes", probe_jobs, run_probe, describe=lambda job: {"finding": job[0], **describe(job[1])}))
