"""C04 — Optimization mode (-O) changes how, never what, is encoded (C and Go)."""

from __future__ import annotations

from typing import Any, Dict, List, Optional, Tuple

from hypothesis import strategies as st

from .. import cases, cexec, gen, ref, strategies as S
from ..model import unit_messages
from ..runner import HypPart, Stats, Violation

ID = "C04"
LEVEL = "exploration"
RULE = (
    "Generated traditional units (no extensible marker; messages <= ~600 bits, some up to 4096) x vectors zero/all-ones/"
    "min/max, the one-hot basis over every bit of every leaf (the generated-input counterpart of 'every bit of every field'), "
    "random. C: five executables per schema - standard mode; -O --endian both compiled plain and with -DBP_BIG_ENDIAN; "
    "-O --endian little; -O --endian big - must all produce the reference bytes for every vector and decode the reference "
    "bytes into a zeroed struct to the same leaves. Go: the -O Go file is executed by the Go interpreter. evaluations = "
    "(message, value, build, direction). Non-trivial: schema has a leaf crossing a byte boundary and one of: signed "
    "non-standard width, width 63, storage wider than ceil(n/8) bytes (17..24, 33..56 bits), bool/alias-to-bool, nested "
    "message, array; distinct by (schema digest, message, value, build, direction)."
)
ASSUMPTIONS = [
    "ref.py is the specification; standard mode is additionally run so the comparison is also mode-vs-mode",
    "the big-endian branch is value-shift code, so executing it on x86 is faithful",
    "zeroed decode target, in-range values",
    "Go statements are executed by bpverif.gointerp (a Go-subset interpreter, trusted for the subset it implements; anything else is inconclusive)",
]
REQUIRED_LABELS = ["signed_nonstd", "straddle_byte", "storage_wider", "array", "nested_value", "alias_use"]

BUILDS = [
    ("std", False, "both", False),
    ("O-both", True, "both", False),
    ("O-both-BE", True, "both", True),
    ("O-little", True, "little", False),
    ("O-big", True, "big", False),
]


def strategy(tier: str) -> Any:
    feat = S.Features(extensible=False, ext_arrays=False, bits_budget=500, big=False, max_files=2)
    return cases.sv_cases(feat, nrand=2, config=st.fixed_dictionaries({"cc_opt": st.sampled_from([("gcc", "-O0"), ("gcc", "-O2"), ("gcc", "-O3"), ("clang", "-O2")]), "be_announce": st.sampled_from(sorted(cexec.BE_ANNOUNCE))}))


def extra_labels(m: Any) -> List[str]:
    labs = set()
    for lf in ref.leaves(m):
        if lf.kind in ("uint", "int") and (17 <= lf.bits <= 24 or 33 <= lf.bits <= 56):
            labs.add("storage_wider")
        if lf.bits == 63:
            labs.add("width63")
        if lf.kind == "bool":
            labs.add("bool")
    return sorted(labs)


def run_builds(case: cases.SVCase, stats: Stats, builds: List[Tuple[str, bool, str, bool]], prop: str) -> None:
    cc, opt = case.config.get("cc_opt", ("gcc", "-O2"))
    with gen.Compiled(case.unit, case.style) as cu:
        allm = unit_messages(case.unit)
        msgs = [m for m in allm if not ref.has_empty_enum(m) and ref.nbits(m) <= 4096]
        if not msgs:
            return
        digest = cases.unit_digest(cu.texts)
        for lab in S.unit_labels(case.unit):
            stats.count(lab)
        index_of = {id(m): i for i, m in enumerate(allm)}
        ops: List[str] = []
        meta: List[Any] = []
        for k, m in enumerate(msgs):
            for l in extra_labels(m):
                stats.count(l)
            for vname, v in cases.vectors(case, index_of[id(m)], m):
                want = ref.encode(m, v)
                ops.append(cexec.op_encode(k, m, v, 0))
                meta.append(("E", m, vname, v, want))
                ops.append(cexec.op_decode(k, want, 0))
                meta.append(("D", m, vname, v, want))
        for tag, optimize, endian, be in builds:
            try:
                if optimize:
                    cdir = cu.render_all("c", tag="c_" + tag, optimize=True, endian=endian)
                else:
                    cdir = cu.render_all("c", tag="c_" + tag)
            except Exception as e:
                raise Violation(f"traditional schema refused/failed for C {tag}: {type(e).__name__}: {e}", signature=f"compile:{type(e).__name__}")
            cfg = cexec.CConfig(cc=cc, opt=opt, big_endian=be, be_announce=case.config.get("be_announce", "BP_BIG_ENDIAN"))
            if be and cfg.be_announce != "BP_BIG_ENDIAN":
                stats.count("cfg:big_endian_announced_by_toolchain_macro")
            try:
                drv = cexec.CDriver(case.unit, cdir, msgs, cfg, with_json=False, workdir=cu.outdir("drv_" + tag))
            except cexec.CBuildError as e:
                raise Violation(f"generated C ({tag}, {cfg}) does not build: {e}", signature="cbuild")
            try:
                resp = drv.run(ops)
            except cexec.Crash as c:
                kind, m, vname, v, want = meta[min(c.op_index, len(meta) - 1)]
                raise Violation(f"C driver died ({tag}, {cfg}) in {kind} of {m.name} vector {vname}: {c}", {"value": v}, signature="crash")
            stats.target("c:" + tag, len(resp))
            for line, (kind, m, vname, v, want) in zip(resp, meta):
                stats.evaluations += 1
                if kind == "E":
                    r = cexec.EncResp(line)
                    if r.data != want or not r.fences_ok():
                        raise Violation(
                            f"{tag} ({cfg}) Encode{cexec.struct_name(m)} vector {vname}: got {r.data.hex()} want {want.hex()} (stream bits {gen.bit_diff(r.data, want)[:16]}; fences ok={r.fences_ok()})",
                            {"value": v, "build": tag},
                            signature=f"{tag}-encode",
                        )
                else:
                    r2 = cexec.DecResp(line, m)
                    wantv = cexec.leaf_values(m, v)
                    if r2.values != wantv or not r2.fences_ok():
                        lvs = ref.leaves(m)
                        bad = [(lvs[i].path, f"{lvs[i].kind}{lvs[i].bits}@{lvs[i].offset}", r2.values[i], wantv[i]) for i in range(min(len(wantv), len(r2.values))) if r2.values[i] != wantv[i]][:5]
                        raise Violation(f"{tag} ({cfg}) Decode{cexec.struct_name(m)} vector {vname}: wrong leaves {bad} (fences ok={r2.fences_ok()})", {"value": v, "bytes": want.hex(), "build": tag}, signature=f"{tag}-decode")
                mlabs = set(S.message_labels(m)) | set(extra_labels(m))
                if "straddle_byte" in mlabs and mlabs & {"signed_nonstd", "width63", "storage_wider", "bool", "nested_value", "array"}:
                    stats.mark_nontrivial(digest, m.name, v, tag, kind)
        m = msgs[-1]
        stats.sample({"builds": [b[0] for b in builds], "cc": cc + opt, "message": m.name, "nbits": ref.nbits(m), "schema": cu.texts if len(str(cu.texts)) < 2500 else "(large)"})


def run_case(case: cases.SVCase, stats: Stats) -> None:
    run_builds(case, stats, BUILDS, ID)


def go_strategy(tier: str) -> Any:
    # shapes of recorded Go findings are not generated (C10 owns them): unused imports (D10), names of imported
    # aliases' foreign elements (N3b), go -O casts to types of imported messages' nested/foreign enums (N8)
    feat = S.Features(extensible=False, ext_arrays=False, bits_budget=500, big=False, max_files=2, prune_unused_imports=True, alias_foreign_enum=False)
    return cases.sv_cases(feat, nrand=2)


def run_go(case: cases.SVCase, stats: Stats) -> None:
    from .. import goexec
    from .c10 import shape_n8

    if any(shape_n8(f) for f in case.unit.files):
        stats.exclude("recorded finding N8 shape (go -O casts to a type name of an imported file)")
        return
    with gen.Compiled(case.unit, case.style) as cu:
        try:
            gdir = cu.render_all("go", tag="go_O", optimize=True)
            sdir = cu.render_all("go", tag="go_std")
        except Exception as e:
            raise Violation(f"traditional schema refused/failed for go -O: {type(e).__name__}: {e}", signature="compile-go")
        try:
            gu = goexec.GoUnit(case.unit, gdir)
            su = goexec.GoUnit(case.unit, sdir)
        except goexec.GoUnsupported as e:
            stats.inconclusive_("interpreter: " + str(e)[:80])
            return
        except (goexec.GoCompileError, goexec.GoSyntaxError) as e:
            raise Violation(f"generated go -O output is rejected by the Go type checker: {e}", signature="go-compile")
        digest = cases.unit_digest(cu.texts)
        for lab in S.unit_labels(case.unit):
            stats.count(lab)
        for idx, m in enumerate(unit_messages(case.unit)):
            if ref.has_empty_enum(m) or ref.nbits(m) > 4096:
                continue
            for l in extra_labels(m):
                stats.count(l)
            mlabs = set(S.message_labels(m)) | set(extra_labels(m))
            nt = "straddle_byte" in mlabs and bool(mlabs & {"signed_nonstd", "width63", "storage_wider", "bool", "nested_value", "array"})
            for vname, v in cases.vectors(case, idx, m):
                want = ref.encode(m, v)
                try:
                    gb = gu.encode(m, v)
                    back = gu.decode(m, want)
                    sb = su.encode(m, v)
                except goexec.GoUnsupported as e:
                    stats.inconclusive_("interpreter: " + str(e)[:80])
                    break
                except goexec.GoPanic as e:
                    raise Violation(f"go -O {m.name} panics for vector {vname}: {e}", {"value": v}, signature="go-panic")
                stats.evaluations += 3
                stats.target("go:O", 2)
                if gb != want or gb != sb:
                    raise Violation(f"go -O {m.name}.Encode() vector {vname}: got {gb.hex()}, standard mode {sb.hex()}, specified {want.hex()} (stream bits {gen.bit_diff(gb, want)[:16]})", {"value": v}, signature="go-O-encode")
                if back != v:
                    bad = [(lf.path, f"{lf.kind}{lf.bits}@{lf.offset}", ref.get_path(back, lf.path), ref.get_path(v, lf.path)) for lf in ref.leaves(m) if ref.get_path(back, lf.path) != ref.get_path(v, lf.path)][:5]
                    raise Violation(f"go -O {m.name}.Decode() vector {vname}: wrong leaves {bad}", {"value": v, "bytes": want.hex()}, signature="go-O-decode")
                if nt:
                    stats.mark_nontrivial(digest, m.name, v, "go-O")


PARTS = [
    HypPart("c", strategy, run_case, {"quick": 128, "thorough": 3840}, describe=cases.describe),
    HypPart("go", go_strategy, run_go, {"quick": 800, "thorough": 8000}, describe=cases.describe),
]
