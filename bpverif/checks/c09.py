"""C09 — Compilation is total: any input text yields success or a parser error."""

from __future__ import annotations

import glob
import os
import signal
import subprocess
import sys
import time
from typing import Any, Dict, List, Optional, Tuple

from hypothesis import strategies as st

from .. import bpapi, env, render_bp, strategies as S, textmut
from ..runner import FuncPart, HypPart, Stats, Violation

ID = "C09"
LEVEL = "exploration"
TECHNIQUE = "property-based text mutation (Hypothesis) + coverage-guided fuzzing (atheris/libFuzzer) with exception bucketing"
RULE = (
    "Part 'tower': sharing towers of 2..48 levels (level k names level k-1 two or three times as fields, array elements or alias "
    "rows; bottom level empty / extensible / one bit), text linear in the levels, expanded structure exponential: must finish "
    "(accepted when every size is 0, a parser error otherwise). Three further sources of input text. 'mutate': a seed (the repo's 60 test schemas or a freshly generated valid schema) with 1-4 "
    "token-level mutations (delete / delete run / duplicate / swap / replace by or insert a vocabulary token / truncate / splice "
    "two schemas / huge numbers / very long identifiers / deep nesting / odd characters). 'soup': random token sequences over the "
    "language's vocabulary. 'fuzz': atheris (libFuzzer, bitproto modules instrumented) on raw bytes decoded as UTF-8, 8 "
    "processes from an empty corpus and 8 from the repo's test schemas, -seed derived from VERIF_SEED; every crash input is "
    "confirmed by replaying it through the real entry point parse(path) before it counts. Each input is written to a sandbox "
    "directory holding importable files and parsed with bitproto.parser.parse; accepted inputs are linted and rendered for c, "
    "c -O, go, go -O (when traditional) and py. Oracle: the only exceptions allowed out of parse() are ParserError and OSError; "
    "out of lint none; out of render only RendererError. Anything else is bucketed by (stage, exception type, innermost "
    "bitproto frame). A case exceeding 20 s is re-run alone with a 200 s budget and only reported if it still does not finish "
    "(otherwise inconclusive). evaluations = inputs judged. Non-trivial: input differs from every seed and either is accepted "
    "or is rejected with a ParserError past the lexer (GrammarError family) - i.e. it reached the grammar actions; distinct by text digest."
)
ASSUMPTIONS = [
    "inputs are text (bytes that are not UTF-8 are outside the domain of a text compiler and skipped, counted)",
    "import paths stay inside the sandbox directory (inputs importing absolute paths, '..', devices are skipped, counted)",
    "shapes of recorded findings are excluded by construction and counted (nesting deeper than 60 levels: N5; numeric literals "
    "longer than 3000 digits: N1), each is exercised by one deliberate probe per run instead",
    "a time budget hit is 'inconclusive', never a violation",
]
REQUIRED_LABELS = ["accepted", "rejected:grammar", "rejected:lexer", "rendered", "mut:levels_ge20"]

_seed_cache: Optional[List[Tuple[str, str]]] = None
CASE_DIRS = ["tests/test_compiler/parser-cases", "tests/test_compiler/linter-cases"]


def repo_seeds() -> List[Tuple[str, str]]:
    global _seed_cache
    if _seed_cache is None:
        out = []
        for d in CASE_DIRS:
            for p in sorted(glob.glob(os.path.join(env.REPO, d, "*.bitproto"))):
                out.append((os.path.basename(p), open(p).read()))
        for p in sorted(glob.glob(os.path.join(env.REPO, "tests/test_encoding/encoding-cases/*/*.bitproto"))) + [os.path.join(env.REPO, "example/example.bitproto")]:
            if os.path.exists(p):
                out.append((os.path.basename(p), open(p).read()))
        _seed_cache = out
    return _seed_cache


def sandbox_files() -> Dict[str, str]:
    files = dict(textmut.SANDBOX_FILES)
    for name, text in repo_seeds():
        files.setdefault(name, text)
    return files


@st.composite
def mutate_strategy(draw: Any) -> Tuple[str, str]:
    if draw(st.integers(0, 2)) == 0:
        unit = draw(S.units(S.Features(max_files=1, max_defs=4, bits_budget=200, big=False, empty_enum=draw(st.booleans()))))
        seed_text = render_bp.render_file(unit.main)[0]
        text, kind = draw(textmut.mutated([seed_text]))
        return text, "gen:" + kind
    text, kind = draw(textmut.mutated([t for _, t in repo_seeds()]))
    return text, "repo:" + kind


class _Timeout(BaseException):
    """BaseException: must not be mistaken for an exception escaping the code under test."""


def _alarm(signum: Any, frame: Any) -> None:
    raise _Timeout()


def judge(text: str, stats: Stats, origin: str, budget_s: int = 20) -> None:
    """Run one input through parse -> lint -> render; raise Violation on anything the property forbids."""
    why = textmut.skip_reason(text)
    if why:
        stats.exclude(why)
        return
    try:
        text.encode("utf-8")
    except UnicodeEncodeError:
        stats.exclude("not encodable as UTF-8 text")
        return
    d = env.scratch_dir("c09")
    try:
        bpapi.write_files(d, sandbox_files())
        path = os.path.join(d, "in.bitproto")
        with open(path, "w", encoding="utf-8", newline="") as f:
            f.write(text)
        old = signal.signal(signal.SIGALRM, _alarm)
        signal.alarm(budget_s)
        try:
            _judge_inner(text, path, d, stats, origin)
        except _Timeout:
            if budget_s < 200:
                signal.alarm(0)
                return judge_slow(text, stats, origin)
            raise Violation(f"input of {len(text)} characters does not finish within 200 s ({origin})", {"text": text[:4000]}, signature="hang")
        finally:
            signal.alarm(0)
            signal.signal(signal.SIGALRM, old)
    finally:
        env.rmtree(d)


def judge_slow(text: str, stats: Stats, origin: str) -> None:
    if len(text) > 8192:
        stats.inconclusive_("time budget hit on an input larger than 8 KB")
        return
    judge(text, stats, origin + ":retry", budget_s=200)


def _judge_inner(text: str, path: str, d: str, stats: Stats, origin: str) -> None:
    stats.evaluations += 1
    root = os.path.join(env.COMPILER_DIR, "bitproto") + os.sep
    differs = all(text != t for _, t in repo_seeds())
    try:
        proto = bpapi.parse(path)
    except bpapi.ParserError as e:
        lex = isinstance(e, bpapi.bp_errors.LexerError)
        stats.count("rejected:lexer" if lex else "rejected:grammar")
        if differs and not lex:
            stats.mark_nontrivial(text)
        return
    except OSError:
        stats.count("rejected:oserror")
        return
    except RecursionError as e:
        _unexpected(e, text, "parse", root, stats, origin)
        return
    except Exception as e:
        _unexpected(e, text, "parse", root, stats, origin)
        return
    stats.count("accepted")
    if differs:
        stats.mark_nontrivial(text)
    try:
        bpapi.lint(proto)
    except Exception as e:
        _unexpected(e, text, "lint", root, stats, origin)
    traditional = True
    try:
        bpapi.parse(path, traditional_mode=True)
    except bpapi.ParserError:
        traditional = False
    except Exception as e:
        _unexpected(e, text, "parse-traditional", root, stats, origin)
        traditional = False
    out = os.path.join(d, "out")
    # (towers: optimization mode expands every message in place, so its running time follows the EXPANDED structure - minutes
    # for 22 levels of empty messages on the unchanged tree.  The statement demands termination of PARSING and exception-free
    # rendering, not a bound on rendering time, so the tower family renders in standard mode only; see DESIGN.md 0.11.)
    opt_too = traditional and not origin.startswith("tower")
    for lang, optimize in [("c", False), ("go", False), ("py", False)] + ([("c", True), ("go", True)] if opt_too else []):
        try:
            p2 = bpapi.parse(path, traditional_mode=True) if optimize else proto
            bpapi.render(p2, lang, out, optimize=optimize)
            stats.count("rendered")
        except bpapi.RendererError:
            stats.count("render-refused")
        except Exception as e:
            _unexpected(e, text, f"render:{lang}", root, stats, origin)
    if stats.labels.get("accepted", 0) <= 3:
        stats.sample({"origin": origin, "accepted_text": text[:600]})


def _unexpected(e: BaseException, text: str, stage: str, root: str, stats: Stats, origin: str) -> None:
    bucket, fid = textmut.classify(e, text, stage, root)
    if fid is not None:
        stats.known_finding(fid, f"{bucket}: {str(e)[:100]}")
        return
    raise Violation(
        f"internal exception escapes {stage}: {type(e).__name__}: {str(e)[:300]} [bucket {bucket}] ({origin}) on input:\n{text[:1500]}",
        {"text": text[:20000], "bucket": bucket},
        signature=bucket,
    )


def run_text_case(case: Tuple[str, str], stats: Stats) -> None:
    text, kind = case
    for k in kind.split(":")[-1].split("+"):
        stats.count("mut:" + k)
    judge(text, stats, kind)


# ---- deliberate probes of recorded findings ---------------------------------------------

PROBES = [
    ("D1", "proto p\nconst A = 1 / 0\n"),
    ("D1b", "proto p\nconst Z = 0\nconst A = 7 / (Z * 3)\n"),
    ("N1", "proto p\nconst A = " + "9" * 4400 + "\n"),
    ("N1b", "proto p\nmessage M { uint" + "1" * 4400 + " x = 1 }\n"),
    ("N1c", "proto p\nmessage 0x" + "9" * 4000 + " {}\n"),
    ("N5", "proto p\n" + "".join(f"message N{q} {{\n" for q in range(700)) + "}\n" * 700),
    ("D3", "proto p\nenum E : uint3 {\n}\nmessage M {\n    E e = 1\n}\n"),
    ("N12", 'proto p\nimport "x\0y.bitproto"\nmessage M {\n    uint3 a = 1\n}\n'),
]


def probe_jobs(tier: str, seed: int) -> List[Any]:
    return PROBES


def run_probe(job: Any, stats: Stats) -> None:
    name, text = job
    stats.count("probe:" + name)
    # probes bypass the by-construction exclusion on purpose
    d = env.scratch_dir("c09p")
    try:
        bpapi.write_files(d, sandbox_files())
        path = os.path.join(d, "in.bitproto")
        with open(path, "w") as f:
            f.write(text)
        sys.setrecursionlimit(max(sys.getrecursionlimit(), 1000))
        _judge_inner(text, path, d, stats, "probe:" + name)
    finally:
        env.rmtree(d)


# ---- atheris ------------------------------------------------------------------------------

FUZZ_TARGET = os.path.join(os.path.dirname(os.path.dirname(os.path.abspath(__file__))), "fuzz", "parse_target.py")


def fuzz_jobs(tier: str, seed: int) -> List[Any]:
    secs = 25 if tier == "quick" else 600
    return [(k, "empty" if k % 2 == 0 else "repo", secs, seed) for k in range(8 if tier == "quick" else 16)]


def run_fuzz(job: Any, stats: Stats) -> None:
    k, corpus_kind, secs, seed = job
    deps = os.path.join(env.VERIF_ROOT, ".deps")
    marker = os.path.join(deps, ".atheris-installed")
    if not os.path.exists(marker):
        # several fuzz shards start at once: one of them installs, the others wait for it (setup.sh normally did it already)
        import fcntl

        os.makedirs(deps, exist_ok=True)
        with open(os.path.join(deps, ".install.lock"), "w") as lock:
            fcntl.flock(lock, fcntl.LOCK_EX)
            if not os.path.exists(marker):
                if not os.path.isdir(os.path.join(deps, "atheris")):
                    r = subprocess.run([sys.executable, "-m", "pip", "install", "--no-index", "--find-links", "/opt/veriftools/wheels", "--target", deps, "atheris"], stdout=subprocess.PIPE, stderr=subprocess.STDOUT, text=True)
                    if not os.path.isdir(os.path.join(deps, "atheris")):
                        raise RuntimeError("atheris cannot be installed offline: " + r.stdout[-500:])
                open(marker, "w").close()
    work = env.scratch_dir("fuzz")
    corpus = os.path.join(work, "corpus")
    crashes = os.path.join(work, "crashes")
    os.makedirs(corpus)
    os.makedirs(crashes)
    if corpus_kind == "repo":
        for name, text in repo_seeds():
            with open(os.path.join(corpus, name), "w") as f:
                f.write(text)
    envv = env.subprocess_env({"PYTHONPATH": os.pathsep.join([env.VERIF_ROOT, deps, env.COMPILER_DIR, env.PYLIB_DIR]), "BPVERIF_FUZZ_WORK": work})
    cmd = [sys.executable, FUZZ_TARGET, corpus, f"-seed={seed * 100 + k + 1}", f"-max_total_time={secs}", "-max_len=2048", f"-artifact_prefix={crashes}/", "-timeout=30", "-rss_limit_mb=3000", "-print_final_stats=1"]
    t0 = time.time()
    r = subprocess.run(cmd, stdout=subprocess.PIPE, stderr=subprocess.STDOUT, text=True, env=envv, stdin=subprocess.DEVNULL, timeout=secs + 300)
    out = r.stdout
    execs = 0
    for l in out.splitlines():
        if "stat::number_of_executed_units" in l:
            execs = int(l.split(":")[-1].strip())
    stats.target(f"atheris:{corpus_kind}", execs)
    stats.evaluations += execs
    stats.extra["atheris_execs"] = stats.extra.get("atheris_execs", 0) + execs
    # counters written by the target
    cpath = os.path.join(work, "counters.txt")
    if os.path.exists(cpath):
        for l in open(cpath):
            key, n = l.rsplit(" ", 1)
            if key.startswith("known:"):
                for _ in range(min(int(n), 1)):
                    stats.known_finding(key[6:], "seen by the fuzz target")
                stats.known[key[6:]] = stats.known.get(key[6:], 0) + int(n) - 1
            elif key.startswith("excluded:"):
                stats.exclude(key[9:], int(n))
            else:
                stats.labels[key] = stats.labels.get(key, 0) + int(n)
    found = sorted(glob.glob(os.path.join(crashes, "*")))
    stats.sample({"fuzz_process": k, "corpus": corpus_kind, "seconds": secs, "executions": execs, "artifacts": len(found)})
    for p in found:
        data = open(p, "rb").read()
        kind = os.path.basename(p).split("-")[0]
        try:
            text = data.decode("utf-8")
        except UnicodeDecodeError:
            continue
        if kind in ("timeout", "slow"):
            judge(text, stats, f"atheris:{kind}")  # re-timed alone; a mere budget hit is inconclusive
            continue
        if kind == "oom":
            stats.inconclusive_("libFuzzer rss limit")
            continue
        # confirm through the real entry point in this (fresh w.r.t. the fuzz process) worker
        judge(text, stats, "atheris:crash-confirm")
        stats.inconclusive_("fuzz artifact did not reproduce through the real entry point")
    if execs == 0 and r.returncode != 0 and not found:
        raise RuntimeError(f"atheris target failed to run: {out[-1500:]}")
    env.rmtree(work)


PARTS = [
    HypPart("mutate", lambda tier: mutate_strategy(), run_text_case, {"quick": 2400, "thorough": 80000}),
    HypPart("soup", lambda tier: textmut.token_soup(), run_text_case, {"quick": 1200, "thorough": 40000}),
    HypPart("arith", lambda tier: textmut.arith_texts(), run_text_case, {"quick": 800, "thorough": 16000}),
    HypPart("tower", lambda tier: textmut.tower_texts(), run_text_case, {"quick": 160, "thorough": 3200}),
    FuncPart("probes", probe_jobs, run_probe),
    FuncPart("fuzz", fuzz_jobs, run_fuzz),
]
