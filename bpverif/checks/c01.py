"""C01 — Python encoder emits exactly the specified bit layout."""

from __future__ import annotations

from typing import Any

from .. import cases, gen, pyexec, ref, strategies as S
from ..model import unit_messages
from ..runner import HypPart, Stats, Violation

ID = "C01"
LEVEL = "exploration"
RULE = (
    "Hypothesis generates compilation units (1-3 files; consts, aliases, enums, nested/extensible messages, "
    "arrays incl. extensible and 2-D via alias, imports, permuted field numbers, widths 1..64) valid by construction; "
    "every message of every file is encoded for zero/all-ones/min/max, the one-hot basis over all leaf bits "
    "(messages <= 512 bits) and random in-range values; bytes are compared with an independent bit-list reference "
    "encoder. evaluations = (message, value) encodings compared. A case (schema digest, message, value) is non-trivial "
    "when the message has >= 2 leaves and one of: a leaf not starting on a byte boundary, width > 8, a signed leaf, "
    "nested message, array, alias, extensible prefix, declaration order != number order, cross-file type."
)
ASSUMPTIONS = [
    "ref.py (bit-list reference encoder written from docs/language.rst) is the specification",
    "values are in range; enum fields hold declared members",
    "identifiers come from a vocabulary that avoids reserved words of the target languages",
    "shapes of recorded findings that prevent generating Python at all (empty enums; types nested in imported files; "
    "two-hop import paths) are not generated here, they are C10's subject",
]
REQUIRED_LABELS = ["unaligned_start", "width_gt32", "signed_nonstd", "array", "ext_message", "ext_array", "import", "nested_value", "permuted_numbers", "alias_use", "enum_leaf"]

NT_LABELS = {"unaligned_start", "width_gt8", "signed", "nested_value", "array", "alias_use", "ext_message", "ext_array", "permuted_numbers", "xfile_ref"}


def strategy(tier: str) -> Any:
    return cases.sv_cases(S.Features(), nrand=2, python_only=True)


def run_case(case: cases.SVCase, stats: Stats) -> None:
    with gen.Compiled(case.unit, case.style) as cu:
        try:
            mods = cu.load_python()
        except Exception as e:
            raise Violation(f"valid schema could not be compiled/imported for Python: {type(e).__name__}: {e}", signature=f"compile:{type(e).__name__}")
        digest = cases.unit_digest(cu.texts)
        for lab in S.unit_labels(case.unit):
            stats.count(lab)
        for idx, m in enumerate(unit_messages(case.unit)):
            if ref.has_empty_enum(m):
                stats.exclude("message with empty enum (no in-range value)")
                continue
            mlabs = set(S.message_labels(m))
            nontrivial = "multi_leaf" in mlabs and bool(mlabs & NT_LABELS)
            cls_len = pyexec.new_message(mods, m).BYTES_LENGTH
            if cls_len != ref.nbytes(m):
                raise Violation(f"{m.name}.BYTES_LENGTH={cls_len}, specified ceil(N/8)={ref.nbytes(m)} (N={ref.nbits(m)})", signature="bytes_length")
            for vname, v in cases.vectors(case, idx, m):
                obj = pyexec.new_message(mods, m)
                try:
                    pyexec.set_value(mods, obj, m, v)
                    got = bytes(obj.encode())
                except Exception as e:
                    raise Violation(f"{m.name}.encode() raised {type(e).__name__}: {e} for vector {vname}", {"value": v}, signature=f"encode-exc:{type(e).__name__}")
                want = ref.encode(m, v)
                stats.evaluations += 1
                if got != want:
                    raise Violation(
                        f"{m.name}.encode() differs from the specified layout for vector {vname}: got {got.hex()} want {want.hex()} (differing stream bits {gen.bit_diff(got, want)[:16]})",
                        {"value": v, "got": got.hex(), "want": want.hex()},
                        signature="bytes",
                    )
                if nontrivial:
                    stats.mark_nontrivial(digest, m.name, v)
            if nontrivial:
                stats.sample({"message": m.name, "nbits": ref.nbits(m), "labels": sorted(mlabs), "schema": cu.texts} if len(str(cu.texts)) < 3000 else {"message": m.name, "nbits": ref.nbits(m), "labels": sorted(mlabs)})


PARTS = [
    HypPart("gen", strategy, run_case, {"quick": 1600, "thorough": 32000}, describe=cases.describe),
]
