"""C18 — Compilation is deterministic."""

from __future__ import annotations

import os
from dataclasses import dataclass, field
from typing import Any, Dict, List, Optional, Tuple

from hypothesis import strategies as st

from .. import bpapi, cases, detutil, env, render_bp, strategies as S, twins
from ..detutil import CANONICAL, Opts, Shape
from ..model import Unit, iter_messages
from ..runner import HypPart, Stats, Violation

ID = "C18"
LEVEL = "exploration"
TECHNIQUE = "metamorphic relations between invocations (fresh processes) + generated in-process histories against a fresh-process oracle"
RULE = (
    "Part fresh: a generated unit (1-3 files, all features; traditional units also with -O, -O --endian, -O -F) is compiled "
    "by the real command line in fresh interpreter processes: once in the canonical shape (PYTHONHASHSEED=0, cwd elsewhere, "
    "absolute input path, explicit absolute output directory, linter on) and in 2 generated shapes drawn from "
    "PYTHONHASHSEED {0,1,2,random,drawn 32-bit value} x cwd {schema directory, other} x input path {absolute, relative} x "
    "output directory {explicit absolute, explicit relative, default (none given)} x -q {on, off}; each shape gets its own "
    "copy of the schema files in its own directory, so the absolute path differs too. Oracle: same exit status, same set of "
    "output file names, same sha256 of every output file. evaluations = shape-vs-canonical comparisons. "
    "Part history: a pool of 2-5 schemas made of 1-2 generated base units plus, for each, 1-2 NAME-SHARING TWINS (deep copy "
    "differing in one width / capacity / enum value / one field, possibly inside an imported file; same file names; in half "
    "of the cases written to the SAME path, i.e. edit-and-recompile); schemas carry generated comments and a trailing "
    "comment at end of file. A generated history of 6-14 operations over the pool runs in ONE process without clearing any "
    "of bitproto's process-global caches (they persist across cases of a worker too): main (bitproto._main.main, linter on/"
    "off), render (parse or REUSE the proto object parsed earlier, then render), parse only, lint only. Oracle: after every "
    "main/render the sha256 of every output file equals the one obtained for the same (schema, language, options) by the "
    "command line in a fresh single-purpose process. evaluations = compared compilations. "
    "Non-trivial: (fresh) the compared shapes differ in hash seed, cwd or path form; (history) the history compiles two "
    "name-sharing twins alternately (x, y, x). Distinct by (schema digest, options, shape) resp. (pool digest, history)."
)
ASSUMPTIONS = [
    "the command line in a fresh process with PYTHONHASHSEED=0 is the reference observation for the in-process histories (its own determinism is what part fresh checks)",
    "output location is not judged (docs/compiler.rst says the default is the current directory, the code uses the schema's directory); only names and bytes of the files",
    "PYTHONHASHSEED=random runs are not reproducible by seed; a drawn explicit 32-bit seed is used alongside",
    "independence of the Python version is not sampled",
]
REQUIRED_LABELS = [
    "fresh:hashseed_differs",
    "fresh:hashseed_random",
    "fresh:cwd_differs",
    "fresh:pathform_differs",
    "fresh:outdir_default",
    "fresh:outdir_rel",
    "fresh:outdir_holds_stale_outputs",
    "fresh:cwd_holds_same_named_decoys",
    "fresh:environment_differs",
    "hist:shared_outdir",
    "fresh:quiet_differs",
    "fresh:multi_file",
    "fresh:optimize",
    "fresh:lang:c",
    "fresh:lang:go",
    "fresh:lang:py",
    "hist:alternating_twins",
    "hist:same_path_twins",
    "hist:op:main",
    "hist:op:render",
    "hist:op:render_reused_proto",
    "hist:op:parse",
    "hist:op:lint",
    "hist:twin:width",
    "hist:twin:capacity",
    "hist:twin:enum_value",
    "hist:twin:field_added",
    "hist:twin:field_removed",
    "hist:optimize",
]


# ---------------------------------------------------------------------------
# Schemas as text (the case carries text, so a replay file is self-contained)
# ---------------------------------------------------------------------------


@dataclass
class Schema:
    texts: Dict[str, str]  # file name -> text
    files: List[str]  # dependency order, last is main
    messages: Dict[str, List[str]]  # file name -> simple message names
    labels: List[str]
    group: int = 0  # schemas of one group share all names
    differs: str = ""  # what the twin differs in from its base

    @property
    def main(self) -> str:
        return self.files[-1]


def features(trad: bool) -> S.Features:
    return S.Features(extensible=not trad, ext_arrays=not trad, max_defs=5, bits_budget=400, subdirs=True)


def schema_of(unit: Unit, style: render_bp.Style, trailer: Optional[str], group: int = 0, differs: str = "") -> Schema:
    texts = render_bp.render_unit(unit, style)
    if trailer is not None:
        texts = {k: v + f"// {trailer} {k}\n" for k, v in texts.items()}
    return Schema(
        texts,
        [f.filename for f in unit.files],
        {f.filename: [m.name for m in iter_messages(f)] for f in unit.files},
        S.unit_labels(unit),
        group,
        differs,
    )


@st.composite
def styles(draw: Any) -> render_bp.Style:
    return render_bp.Style(
        comments=draw(st.booleans()),
        semicolons=draw(st.sampled_from(["none", "none", "all", "mixed"])),
        seed=draw(st.integers(0, 9999)),
        blank_lines=draw(st.sampled_from([1, 1, 0, 2])),
        op_spacing=draw(st.booleans()),
    )


@st.composite
def opts_for(draw: Any, sc: Schema, trad: bool, fname: str) -> Opts:
    lang = draw(st.sampled_from(["c", "go", "py"]))
    if not trad or lang == "py" or draw(st.integers(0, 2)) == 0:
        return Opts(lang)
    endian = draw(st.sampled_from(["both", "both", "little", "big"]))
    filt: Optional[Tuple[str, ...]] = None
    names = sc.messages[fname]
    if names and draw(st.integers(0, 2)) == 0:
        filt = tuple(draw(st.lists(st.sampled_from(names), min_size=1, max_size=3, unique=True)))
    return Opts(lang, True, endian, filt)


def compare(ref_run: Tuple[int, Dict[str, str]], got: Tuple[int, Dict[str, str]], what_ref: str, what_got: str, details: dict) -> None:
    rc0, f0 = ref_run
    rc1, f1 = got
    if rc0 != rc1:
        raise Violation(f"exit status differs: {rc0} ({what_ref}) vs {rc1} ({what_got})", details, signature="exit-differs")
    if sorted(f0) != sorted(f1):
        raise Violation(f"set of output files differs: {sorted(f0)} ({what_ref}) vs {sorted(f1)} ({what_got})", details, signature="files-differ")
    bad = [n for n in sorted(f0) if f0[n] != f1[n]]
    if bad:
        raise Violation(f"output file(s) {bad} differ in content between [{what_ref}] and [{what_got}]", details, signature="content-differs")


# ---------------------------------------------------------------------------
# Part fresh
# ---------------------------------------------------------------------------


@dataclass
class FreshCase:
    schema: Schema
    fname: str  # the file that is compiled
    opts: Opts
    shapes: List[Shape]


@st.composite
def shapes_(draw: Any) -> Shape:
    hs = draw(st.sampled_from(["0", "1", "2", "random", "drawn"]))
    if hs == "drawn":
        hs = str(draw(st.integers(3, 4294967295)))
    return Shape(
        hashseed=hs,
        cwd=draw(st.sampled_from(["src", "other"])),
        pathform=draw(st.sampled_from(["abs", "rel"])),
        outdir=draw(st.sampled_from(["abs", "rel", "default", "default"])),
        quiet=draw(st.booleans()),
        stale=draw(st.sampled_from(["", "", "long", "short"])),
        decoys=draw(st.booleans()),
        environ=draw(st.sampled_from(["", "east", "west"])),
    )


def _add_fan_imports(draw: Any, unit: Unit) -> None:
    """The last file additionally imports 3-4 small schemas of which two have the SAME file name in different
    directories (copies of a shared schema under vendor/ and legacy/, different proto names): whatever collects
    per-import strings in a set, or keys a table by file name, meets duplicates and several entries here."""
    from ..model import Field, File, Import, Message, TBase, set_parents

    main = unit.files[-1]
    taken = {f.proto for f in unit.files} | {it.name for it in main.items if hasattr(it, "name")}
    specs = [("fanvendor", "shared", "vendor/geo"), ("fanlegacy", "shared", "legacy/geo"), ("fanunits", "units", draw(st.sampled_from(["", "vendor"]))), ("fanextra", "extra", "")]
    specs = specs[: draw(st.integers(3, 4))]
    if any(p in taken for p, _, _ in specs):
        return
    new = []
    for proto, base, sub in draw(st.permutations(specs)):
        f = File(proto, base)
        f.subdir = sub
        m = Message("Fan" + proto[3:].capitalize(), False)
        m.items.append(Field("value", TBase("uint", draw(st.integers(1, 16))), 1))
        f.items.append(m)
        new.append(f)
    for f in new:
        unit.files.insert(len(unit.files) - 1, f)
    pos = len(main.imports())
    for f in new:
        main.items.insert(pos, Import(f, None))
        pos += 1
    set_parents(unit)


@st.composite
def fresh_cases(draw: Any) -> FreshCase:
    trad = draw(st.booleans())
    unit = draw(S.units(features(trad)))
    if draw(st.integers(0, 3)) == 1:
        _add_fan_imports(draw, unit)
    sc = schema_of(unit, draw(styles()), "trailing note" if draw(st.booleans()) else None)
    k = len(sc.files) - 1 if draw(st.integers(0, 3)) else draw(st.integers(0, len(sc.files) - 1))
    fname = sc.files[k]
    opts = draw(opts_for(sc, trad, fname))
    return FreshCase(sc, fname, opts, [draw(shapes_()) for _ in range(2)])


def describe_fresh(c: FreshCase) -> Any:
    return {"files": c.schema.texts, "compiled": c.fname, "options": c.opts.text(), "shapes": [s.text() for s in c.shapes]}


def run_fresh_case(c: FreshCase, stats: Stats) -> None:
    sc = c.schema
    base = detutil.run_fresh(sc.texts, c.fname, c.opts, CANONICAL)
    if base.code != 0:
        # not this property's business (C09/C10): but then every shape must fail alike
        stats.inconclusive_("canonical compile failed: " + (base.stderr.strip().splitlines() or ["?"])[-1][:80])
    elif not base.files:
        raise Violation(f"exit 0 but no output file written ({c.opts.text()})", {"args": base.args}, signature="no-output")
    digest = cases.unit_digest(sc.texts)
    for lab in sc.labels:
        stats.count(lab)
    stats.count("fresh:lang:" + c.opts.lang)
    if c.opts.optimize:
        stats.count("fresh:optimize")
    if c.opts.filt:
        stats.count("fresh:filter")
    if c.opts.endian != "both":
        stats.count("fresh:endian:" + c.opts.endian)
    if len(sc.files) > 1:
        stats.count("fresh:multi_file")
        if c.fname != sc.main:
            stats.count("fresh:compiled_imported_file")
    for sh in c.shapes:
        run = detutil.run_fresh(sc.texts, c.fname, c.opts, sh)
        stats.evaluations += 1
        stats.target("cli")
        if sh.hashseed != "0":
            stats.count("fresh:hashseed_differs")
        if sh.hashseed == "random":
            stats.count("fresh:hashseed_random")
        if sh.cwd != CANONICAL.cwd:
            stats.count("fresh:cwd_differs")
        if sh.pathform != CANONICAL.pathform:
            stats.count("fresh:pathform_differs")
        if sh.outdir == "default":
            stats.count("fresh:outdir_default")
        if sh.outdir == "rel":
            stats.count("fresh:outdir_rel")
        if sh.quiet != CANONICAL.quiet:
            stats.count("fresh:quiet_differs")
        if sh.stale:
            stats.count("fresh:outdir_holds_stale_outputs")
        if sh.decoys and sh.cwd != "src":
            stats.count("fresh:cwd_holds_same_named_decoys")
        if sh.environ:
            stats.count("fresh:environment_differs")
        compare(
            (base.code, base.files),
            (run.code, run.files),
            CANONICAL.text(),
            sh.text(),
            {"options": c.opts.text(), "args_ref": base.args, "args": run.args, "stderr_ref": base.stderr[-500:], "stderr": run.stderr[-500:]},
        )
        if base.code == 0 and (sh.hashseed != "0" or sh.cwd != CANONICAL.cwd or sh.pathform != CANONICAL.pathform):
            stats.mark_nontrivial(digest, c.fname, c.opts.key(), sh.text())
    if base.code == 0:
        stats.sample({"options": c.opts.text(), "compiled": c.fname, "shapes": [s.text() for s in c.shapes], "outputs": base.files, "schema": sc.texts if len(str(sc.texts)) < 1500 else "(large)"})


# ---------------------------------------------------------------------------
# Part history
# ---------------------------------------------------------------------------


@dataclass
class Op:
    kind: str  # 'main' | 'render' | 'parse' | 'lint'
    schema: int
    opts: Optional[Opts] = None
    quiet: bool = False  # main: -q
    reuse: bool = False  # render/lint: use the proto object of an earlier parse of this schema if there is one

    def text(self) -> str:
        o = self.opts.text() if self.opts else ""
        return f"{self.kind}(#{self.schema}{' ' + o if o else ''}{' -q' if self.quiet else ''}{' reuse' if self.reuse else ''})"


@dataclass
class HistCase:
    pool: List[Schema]
    trad: bool
    same_path: Dict[int, bool]  # group -> twins are written to the same path
    ops: List[Op]
    shared_out: bool = False  # every operation writes into ONE output directory (files of earlier operations are overwritten)


@st.composite
def hist_cases(draw: Any) -> HistCase:
    trad = draw(st.booleans())
    pool: List[Schema] = []
    same_path: Dict[int, bool] = {}
    nbase = draw(st.sampled_from([1, 1, 2]))
    for g in range(nbase):
        unit = draw(S.units(features(trad)))
        style = draw(styles())
        pool.append(schema_of(unit, style, f"trailing note of schema {len(pool)}", g))
        for _ in range(draw(st.sampled_from([1, 1, 2]))):
            tw = twins.make_twin(draw, unit)
            if tw is None:
                continue
            pool.append(schema_of(tw[0], style, f"trailing note of schema {len(pool)}", g, tw[1]))
        same_path[g] = draw(st.booleans())
    ops: List[Op] = []
    n = draw(st.integers(6, 14))
    for _ in range(n):
        i = draw(st.integers(0, len(pool) - 1))
        kind = draw(st.sampled_from(["main", "main", "render", "render", "render", "parse", "lint"]))
        if kind in ("main", "render"):
            o = draw(opts_for(pool[i], trad, pool[i].main))
            ops.append(Op(kind, i, o, draw(st.booleans()), draw(st.booleans())))
        elif kind == "parse":
            # parse in the mode a later render of that kind would need
            ops.append(Op(kind, i, Opts("c", trad and draw(st.booleans()))))
        else:
            ops.append(Op(kind, i, None, False, draw(st.booleans())))
    return HistCase(pool, trad, same_path, ops, draw(st.booleans()))


def describe_hist(c: HistCase) -> Any:
    return {
        "pool": [{"files": s.texts, "main": s.main, "group": s.group, "differs_from_base_in": s.differs} for s in c.pool],
        "twins_written_to_same_path": c.same_path,
        "history": [o.text() for o in c.ops],
    }


def alternating(c: HistCase) -> bool:
    seq = [o.schema for o in c.ops if o.kind in ("main", "render")]
    for a in range(len(seq)):
        for b in range(a + 1, len(seq)):
            if seq[b] != seq[a] and c.pool[seq[b]].group == c.pool[seq[a]].group:
                if seq[a] in seq[b + 1 :]:
                    return True
    return False


# bitproto's process-global caches are deliberately never cleared: they persist across the cases
# of a worker process.  The count of operations executed earlier in this process goes into every
# violation message (a replay runs the case alone in a fresh process).
_OPS_BEFORE = 0


def run_hist_case(c: HistCase, stats: Stats) -> None:
    root = env.scratch_dir("h")
    try:
        _run_hist(c, stats, root)
    finally:
        env.rmtree(root)


def _run_hist(c: HistCase, stats: Stats, root: str) -> None:
    global _OPS_BEFORE
    # where each schema lives: twins of a group share the directory iff same_path
    slot: Dict[int, str] = {}
    for i, sc in enumerate(c.pool):
        slot[i] = os.path.join(root, f"g{sc.group}" if c.same_path.get(sc.group) else f"s{i}")
    on_disk: Dict[str, int] = {}

    def place(i: int) -> str:
        d = slot[i]
        if on_disk.get(d) != i:
            bpapi.write_files(d, c.pool[i].texts)
            on_disk[d] = i
        return os.path.join(d, c.pool[i].main)

    expected: Dict[Tuple[Any, ...], Tuple[int, Dict[str, str]]] = {}

    def expect(i: int, o: Opts) -> Tuple[int, Dict[str, str]]:
        k = (i,) + o.key()
        if k not in expected:
            r = detutil.run_fresh(c.pool[i].texts, c.pool[i].main, o, CANONICAL)
            stats.target("cli")
            expected[k] = (r.code, r.files)
        return expected[k]

    protos: Dict[Tuple[int, bool], Any] = {}  # (schema, traditional mode) -> proto object kept from an earlier operation
    last_proto: Dict[int, Any] = {}
    digest = cases.unit_digest({f"{i}/{k}": v for i, sc in enumerate(c.pool) for k, v in sc.texts.items()})
    alt = alternating(c)
    for sc in c.pool:
        if sc.differs:
            stats.count("hist:twin:" + sc.differs.split(":")[0])
    if any(c.same_path.get(sc.group) for sc in c.pool if sc.differs):
        stats.count("hist:same_path_twins")
    if alt:
        stats.count("hist:alternating_twins")
    if any(len(sc.files) > 1 for sc in c.pool):
        stats.count("hist:multi_file")
    done: List[str] = []
    for n, op in enumerate(c.ops):
        i = op.schema
        sc = c.pool[i]
        stats.count("hist:op:" + op.kind)
        done.append(op.text())
        if op.kind == "parse":
            assert op.opts is not None
            path = place(i)
            try:
                protos[(i, op.opts.optimize)] = last_proto[i] = bpapi.parse(path, traditional_mode=op.opts.optimize)
            except Exception as e:
                raise Violation(f"parse of a valid schema failed after history {done}: {type(e).__name__}: {e}", signature=f"parse:{type(e).__name__}")
            continue
        if op.kind == "lint":
            proto = last_proto.get(i) if op.reuse else None
            try:
                if proto is None:
                    proto = bpapi.parse(place(i))
                    protos[(i, False)] = last_proto[i] = proto
                else:
                    stats.count("hist:op:lint_reused_proto")
                bpapi.lint(proto)
            except Exception as e:
                raise Violation(f"lint of a valid schema failed after history {done}: {type(e).__name__}: {e}", signature=f"lint:{type(e).__name__}")
            continue
        o = op.opts
        assert o is not None
        want = expect(i, o)
        out = os.path.join(root, "out_shared" if c.shared_out else f"out{n}")
        os.makedirs(out, exist_ok=True)
        before = detutil.outputs(out) if c.shared_out else {}
        if c.shared_out:
            stats.count("hist:shared_outdir")

        def written() -> Dict[str, str]:
            # in a shared directory files of OTHER names written by earlier operations are still there: judged are the
            # files this compilation owes (whatever an earlier operation left under those names) and any new name
            now = detutil.outputs(out)
            return {k: v for k, v in now.items() if k in want[1] or k not in before}

        if op.kind == "main":
            path = place(i)
            r = bpapi.main_inprocess(path, lang=o.lang, outdir=out, disable_linter=op.quiet, enable_optimize=o.optimize, filter_messages=list(o.filt) if o.filt else None, endian=o.endian)
            got = (r.code, written())
            info = {"stderr": r.stderr[-800:], "exc": repr(r.exc)}
        else:
            key = (i, o.optimize)
            proto = protos.get(key) if op.reuse else None
            try:
                if proto is None:
                    proto = bpapi.parse(place(i), traditional_mode=o.optimize)
                    protos[key] = last_proto[i] = proto
                else:
                    stats.count("hist:op:render_reused_proto")
                bpapi.render(proto, o.lang, out, optimize=o.optimize, filter_messages=list(o.filt) if o.filt else None, endian=o.endian)
                got = (0, written())
                info = {}
            except Exception as e:  # the command line would exit non-zero (diagnostic or traceback)
                got = (1, written())
                info = {"exc": repr(e)}
        if o.optimize:
            stats.count("hist:optimize")
        if o.filt:
            stats.count("hist:filter")
        stats.count("hist:lang:" + o.lang)
        stats.evaluations += 1
        if want[0] != 0:
            stats.inconclusive_("fresh-process compile failed")
        info.update({"history": done, "schema": i, "options": o.text(), "differs": sc.differs})
        compare(want, got, f"fresh process: bitproto {o.text()} {sc.main}", f"step {n} {op.text()} after {n} earlier operations of this history (+{_OPS_BEFORE} of earlier cases) in the same process", info)
    _OPS_BEFORE += len(c.ops)
    if alt:
        stats.mark_nontrivial(digest, [o.text() for o in c.ops])
    stats.sample({"pool": [{"main": s.main, "group": s.group, "differs": s.differs} for s in c.pool], "same_path": c.same_path, "history": [o.text() for o in c.ops]})


PARTS = [
    HypPart("fresh", lambda tier: fresh_cases(), run_fresh_case, {"quick": 176, "thorough": 3520}, describe=describe_fresh),
    HypPart("history", lambda tier: hist_cases(), run_hist_case, {"quick": 128, "thorough": 2560}, describe=describe_hist),
]
