"""C20 — Lint is advisory and diagnostics point at the right line."""

from __future__ import annotations

import os
import re
from collections import Counter
from dataclasses import asdict, dataclass, field
from typing import Any, Dict, List, Optional, Tuple

from hypothesis import strategies as st

from .. import bpapi, env, render_bp, scoping, strategies as S, violations as V
from ..model import Alias, Const, Enum, Field, File, Import, Message, Unit, iter_enums, iter_messages, set_parents
from ..runner import HarnessError, HypPart, Stats, Violation
from . import c08

import bitproto._ast as bp_ast  # noqa: E402  (pinned to the tree under test by bpapi/env)

ID = "C20"
LEVEL = "exploration"
TECHNIQUE = "style-conforming generation + name/zero-member/line-shift perturbation; source-map oracle for lines and columns"
RULE = (
    "Part 'lint': units of the common generator in style-guide vocabulary (PascalCase types, lower snake fields, UPPER constants "
    "and enum members), every enum given a zero member, valid options added, rendered with 4-space indentation in a generated "
    "style (semicolons none/all/mixed, comments, 0-2 blank lines, hex). ~40 % stay conforming; the others get 1-5 perturbations: a "
    "definition renamed so that it CLEARLY breaks its convention (types -> abbey_msg / abbeyItem / ABBEY_ITEM, fields -> altValue "
    "/ AltValue / ALT_VALUE, constants and members -> k_alpha / kAlpha / KAlpha; references re-derived by scoping.retext), or an "
    "enum deprived of its zero member; in the compiled file and in imported files. Then text-level moves: blank lines / comment "
    "blocks inserted at generated lines (source map kept in step), and in 1/4 of the cases the `proto` statement moved to the end "
    "so that the first definition / option / reference stands on line 1. Oracles, all from my model + source map: (2) conforming "
    "=> lint prints nothing; (3) every perturbed definition of the compiled file gets >= 1 warning `<that file>:L<line of its name "
    "token> <its name>`, every enum without zero its warning, and EVERY warning printed cites the compiled file and a "
    "(line, token) of that expected set (so none points into an imported file or at a wrong line); (4) every definition (consts, "
    "aliases, enums, members, messages, fields, options) and every reference (type and capacity references) of every parsed file, "
    "imported ones included, records lineno/token_col_start equal to the source map entry, 1-based; (1) main() for c/go/py (one "
    "language per case, all three on 1/6) with and without disable_linter: same exit status, same files, same bytes; (5) check-only "
    "main(check=True): exit != 0 exactly when >= 1 warning is expected, always 0 with disable_linter (-q leg on 1/3 of the cases); the real CLI `-c` / `-c -q` "
    "on a sample. Part 'errors': C08's single-violation mutants (bpverif.violations: one planted violation per catalogue entry, "
    "incl. inside imported files) with blank lines and comment blocks inserted at generated positions: the ParserError must cite "
    "the planted file and the shifted line (exact line / either duplicate / message extent as in C08), and check-only mode must "
    "exit non-zero with and without -q. evaluations = compiler invocations judged + position tables compared. Non-trivial: lint "
    "cases with >= 1 expected warning or with nested/imported definitions whose lines were moved; error cases whose planted "
    "line was shifted or lies in an imported file or nested scope; distinct by (texts, compiled file). Part 'count': valid schemas "
    "owing exactly n naming warnings, n in {1,2,3,127,128,255,256,257,511,512,513,1024} (constants / aliases / fields / mixed; "
    "and a conforming twin owing none), through the real CLI `-c` and `-c -q`: n warning lines, exit status non-zero iff n > 0 and not -q."
)
ASSUMPTIONS = [
    "columns are 1-based (DESIGN.md C20 'Column convention': every line but the first already is; the only in-repo consumer subtracts 1)",
    "'clearly violates': the perturbed names differ from their convention in letter case of whole words or by underscores; names with digits or acronyms are not generated (the converters are idiosyncratic there)",
    "wrong indentation is not perturbed: the statement promises no warning for 4-space indentation but does not promise one for other indentation",
    "a definition sharing its line with `proto x;` is not generated for the no-warning oracle (its indentation is not 4-space style)",
    "empty enums are not generated (their Python/Go rendering is D3/N2, C09/C10)",
]
REQUIRED_LABELS = [
    "lint:conforming",
    "lint:perturbed",
    "perturb:message",
    "perturb:enum",
    "perturb:alias",
    "perturb:const",
    "perturb:field",
    "perturb:member",
    "perturb:zero",
    "perturb:in-imported-file",
    "layout:first-line",
    "layout:shifted",
    "pos:line1-entry",
    "pos:imported-file",
    "advisory:c",
    "advisory:go",
    "advisory:py",
    "check-only:warnings",
    "check-only:clean",
    "cli:-c",
    "errors:shifted",
    "errors:pos:imported-file",
] + ["errors:rule:" + r for r in V.RULES]

LANGS = ["c", "go", "py"]
ANSI = re.compile(r"\x1b\[[0-9;]*m")
WARN = re.compile(r"^warning:\s+(\S+):L(\d+) (\S*) => (.*)$")


# ---------------------------------------------------------------------------
# Perturbations
# ---------------------------------------------------------------------------


def _camel(words: List[str]) -> str:
    return words[0].lower() + "".join(w.capitalize() for w in words[1:])


def bad_name(kind: str, name: str, style: int) -> str:
    """A name that clearly violates the convention of its kind."""
    if kind in ("message", "enum", "alias"):  # PascalCase expected
        low = name.lower()
        return [low + "_msg", low + "Item", name.upper() + "_ITEM"][style % 3]
    if kind == "field":  # lower snake expected
        words = name.split("_") + ["value"]
        return [_camel(words), "".join(w.capitalize() for w in words), name.upper() + "_VALUE"][style % 3]
    # constants, enum members: UPPER expected
    words = [w for w in name.split("_") if w]
    return [name.lower(), _camel(words), "".join(w.capitalize() for w in words)][style % 3]


def _kind(d: Any) -> str:
    return {Message: "message", Enum: "enum", Alias: "alias", Const: "const", Field: "field"}[type(d)]


def ensure_zero_members(unit: Unit) -> None:
    for f in unit.files:
        for e in iter_enums(f):
            if e.members and 0 not in e.values():
                e.members[0] = (e.members[0][0], 0)


def drop_zero(e: Enum) -> bool:
    """Deprive an enum of its zero member by giving that member another free value."""
    k = [i for i, (_, v) in enumerate(e.members) if v == 0]
    if not k:
        return False
    used = set(e.values())
    for v in range(1, min(1 << e.bits, 70)):
        if v not in used:
            e.members[k[0]] = (e.members[k[0]][0], v)
            return True
    return False  # every value of the width is taken (e.g. uint1 {0, 1}): leave it alone


# ---------------------------------------------------------------------------
# Part 'lint'
# ---------------------------------------------------------------------------


@dataclass
class LintCase:
    texts: Dict[str, str]
    main: str
    maps: Dict[str, List[Tuple[str, str, int, int]]]  # file -> (kind, token, line, col) of every name token
    expect: List[Tuple[int, str, str]]  # (line, token, why) warnings owed in the compiled file
    elsewhere: List[Tuple[str, int, str]]  # perturbed definitions of other files (must NOT be warned about)
    labels: List[str]
    langs: List[str]
    with_cli: bool
    quiet_check: bool = True


@st.composite
def lint_cases(draw: Any) -> LintCase:
    unit = draw(S.units(S.Features(max_defs=5, max_fields=6)))
    ensure_zero_members(unit)
    V.decorate(draw, unit)
    labels: List[str] = []
    main = unit.main
    perturbed: List[Tuple[File, Any, str, Optional[str]]] = []  # (file, object, why, member name)
    if draw(st.integers(0, 9)) < 6:  # (Hypothesis favours small integers: the majority branch sits there)
        # candidates: every named thing of every file
        cands: List[Tuple[File, Any, Optional[int]]] = []
        for f in unit.files:
            for it in f.items:
                if isinstance(it, (Const, Alias)):
                    cands.append((f, it, None))
            for e in iter_enums(f):
                cands.append((f, e, None))
                cands.append((f, e, -1))  # zero member removal
                for k in range(len(e.members)):
                    cands.append((f, e, k))
            for m in iter_messages(f):
                cands.append((f, m, None))
                for fl in m.fields():
                    cands.append((f, fl, None))
        n = draw(st.integers(1, 5))
        taken = set()
        for _ in range(n):
            # bias towards the compiled file: only its definitions owe warnings
            pool = [c for c in cands if c[0] is main] if draw(st.integers(0, 3)) < 3 else cands
            pool = pool or cands
            f, d, k = pool[draw(st.integers(0, (1 << 20) - 1)) % len(pool)]
            key = (id(d), k)
            if key in taken:
                continue
            taken.add(key)
            style = draw(st.integers(0, 2))
            if k is None:
                d.name = bad_name(_kind(d), d.name, style)
                perturbed.append((f, d, _kind(d), None))
            elif k == -1:
                if drop_zero(d):
                    perturbed.append((f, d, "zero", None))
            else:
                if k < len(d.members):
                    new = bad_name("member", d.members[k][0], style)
                    d.members[k] = (new, d.members[k][1])
                    perturbed.append((f, d, "member", new))
        if not scoping.retext(unit):
            raise HarnessError("renaming broke the reference structure")
    set_parents(unit)
    style_ = draw(V.styles(lint_clean=True))
    doc = V.Doc(unit, style_)
    # definitions on the first line: move `proto` to the end of a file
    if draw(st.integers(0, 3)) == 3:
        f = draw(st.sampled_from(unit.files)) if draw(st.booleans()) else main
        fn = f.filename
        pe = [e for e in doc.maps[fn] if e.kind == "proto"][0]
        proto_text = doc.lines[fn][pe.line - 1]
        doc.maps[fn].remove(pe)
        doc.delete(fn, pe.line)
        while doc.lines[fn] and (doc.lines[fn][0].strip() == "" or doc.lines[fn][0].lstrip().startswith("//")):
            doc.delete(fn, 1)
        doc.insert(fn, len(doc.lines[fn]) + 1, [proto_text])
        labels.append("layout:first-line")
    if V.shift_lines(draw, doc, max_edits=5):
        labels.append("layout:shifted")
    expect: List[Tuple[int, str, str]] = []
    elsewhere: List[Tuple[str, int, str]] = []
    for f, d, why, member in perturbed:
        if why == "member":
            e = doc.entry(f, "member", d, member)
        else:
            e = doc.entry(f, "def", d)
        labels.append("perturb:" + why)
        if f is main:
            expect.append((e.line, e.token, why))
        else:
            elsewhere.append((f.filename, e.line, e.token))
            labels.append("perturb:in-imported-file")
    labels.append("lint:perturbed" if perturbed else "lint:conforming")
    if len(unit.files) > 1:
        labels.append("unit:imports")
    if any(not isinstance(m.parent, File) for f in unit.files for m in iter_messages(f)):
        labels.append("unit:nested")
    maps = {fn: [(e.kind, e.token, e.line, e.col) for e in es] for fn, es in doc.maps.items()}
    r = draw(st.integers(0, (1 << 20) - 1)) % 30
    langs = LANGS if r % 6 == 5 else [LANGS[r % 3]]
    return LintCase(doc.texts(), main.filename, maps, sorted(set(expect)), elsewhere, sorted(set(labels)), list(langs), r == 7, r % 3 == 1)


def describe_lint(c: LintCase) -> Any:
    return {"files": c.texts, "compile": c.main, "warnings_owed": c.expect, "perturbed_in_imported_files": c.elsewhere, "labels": c.labels}


def parse_warnings(stderr: str) -> Tuple[List[Tuple[str, int, str, str]], List[str]]:
    out, other = [], []
    for line in ANSI.sub("", stderr).splitlines():
        if not line.strip():
            continue
        m = WARN.match(line)
        if m:
            out.append((os.path.basename(m.group(1)), int(m.group(2)), m.group(3), m.group(4)))
        else:
            other.append(line)
    return out, other


def walk_positions(proto: Any, out: List[Tuple[str, List[Tuple[int, int, str]], List[Tuple[int, int, str]]]]) -> None:
    """Every definition and reference of a parsed file (and, recursively, of the files it imports)."""
    defs: List[Tuple[int, int, str]] = []

    def scope(s: Any) -> None:
        for _, member in s.members.items():
            if isinstance(member, bp_ast.Proto):
                walk_positions(member, out)
                continue
            defs.append((member.lineno, member.token_col_start, member.token))
            if isinstance(member, bp_ast.Scope):
                scope(member)

    scope(proto)
    refs = [(r.lineno, r.token_col_start, r.token) for r in proto.references]
    out.append((os.path.basename(proto.filepath), defs, refs))


def compare_positions(fn: str, what: str, want: List[Tuple[int, int, str]], got: List[Tuple[int, int, str]], stats: Stats) -> None:
    have = Counter(got)
    for line, col, token in want:
        if have[(line, col, token)] > 0:
            have[(line, col, token)] -= 1
            if line == 1:
                stats.count("pos:line1-entry")
            continue
        if line == 1 and have[(1, col - 1, token)] > 0:
            # D13: exact shape = the name stands on the first line of its file; signature = column one too small
            have[(1, col - 1, token)] -= 1
            stats.count("pos:line1-entry")
            stats.known_finding("D13", f"{fn}: {what} {token!r} on line 1 records column {col - 1}, its 1-based column is {col}")
            continue
        near = [g for g in got if g[2] == token][:4]
        raise Violation(f"{fn}: {what} {token!r} stands at line {line} column {col} (1-based) but the parsed schema records {near or 'nothing'}", signature=f"position:{what}")
    extra = [k for k, n in have.items() if n > 0]
    if extra:
        raise Violation(f"{fn}: parsed schema records {what}s the source does not contain at those positions: {extra[:5]}", signature=f"position-extra:{what}")


def _outputs(d: str) -> Dict[str, bytes]:
    out = {}
    for n in sorted(os.listdir(d)):
        with open(os.path.join(d, n), "rb") as f:
            out[n] = f.read()
    return out


def run_lint(c: LintCase, stats: Stats) -> None:
    stats.count(*c.labels)
    d = env.scratch_dir("c20")
    try:
        bpapi.write_files(d, c.texts)
        path = os.path.join(d, c.main)
        stats.evaluations += 1
        try:
            proto = bpapi.parse(path)
        except Exception as e:  # noqa: BLE001
            raise Violation(f"valid schema not accepted: {type(e).__name__}: {str(e).replace(d, '')}", signature="rejected")
        # (2) (3): warnings
        n, err = bpapi.lint(proto)
        warns, other = parse_warnings(err)
        if other:
            raise Violation(f"lint printed something that is not a warning line: {other[:3]}", signature="lint-output")
        owed = {(line, token) for line, token, _ in c.expect}
        for fn, line, token, msg in warns:
            if fn != c.main:
                raise Violation(f"warning cites {fn}:L{line} {token!r}, a file other than the linted {c.main}: {msg}", signature="warn-other-file")
            if (line, token) not in owed:
                raise Violation(
                    f"warning `{c.main}:L{line} {token} => {msg}` does not point at a perturbed definition (owed: {sorted(owed)[:8]})" + ("; the schema follows the style guide" if not owed else ""),
                    signature="warn-unexpected" if owed else "warn-on-conforming",
                )
        got = {(line, token) for _, line, token, _ in warns}
        for line, token, why in c.expect:
            if (line, token) not in got:
                raise Violation(f"no warning for {why} perturbation {token!r} at {c.main}:L{line}; warnings: {warns[:6]}", signature=f"warn-missing:{why}")
            if why == "zero" and not any(l == line and t == token and "0" in msg for _, l, t, msg in warns):
                raise Violation(f"enum {token!r} at L{line} has no zero member but no warning says so: {warns[:6]}", signature="warn-missing:zero-text")
        stats.count("lint:warnings-owed" if c.expect else "lint:silent")
        # (4) positions
        tables: List[Any] = []
        walk_positions(proto, tables)
        for fn, defs, refs in tables:
            m = c.maps[fn]
            compare_positions(fn, "definition", [(line, col, tok) for kind, tok, line, col in m if kind in ("def", "member", "option")], defs, stats)
            compare_positions(fn, "reference", [(line, col, tok) for kind, tok, line, col in m if kind in ("ref", "capref")], refs, stats)
            stats.evaluations += 1
            if fn != c.main:
                stats.count("pos:imported-file")
        # (5) check-only
        for quiet in (False, True) if c.quiet_check else (False,):
            stats.evaluations += 1
            res = bpapi.main_inprocess(path, check=True, disable_linter=quiet)
            want_fail = bool(c.expect) and not quiet
            if res.exc is not None or (res.code != 0) != want_fail:
                raise Violation(f"check-only mode (disable_linter={quiet}) exit status {res.code} exc={res.exc!r}; warnings owed: {len(c.expect)}", signature=f"check-exit:{'q' if quiet else 'lint'}")
            if quiet and res.stderr.strip():
                raise Violation(f"check-only -q printed {res.stderr[:200]!r}", signature="check-q-output")
        stats.count("check-only:warnings" if c.expect else "check-only:clean")
        if c.with_cli:
            for quiet in (False, True):
                stats.evaluations += 1
                r = bpapi.cli(["-c", path] + (["-q"] if quiet else []))
                want_fail = bool(c.expect) and not quiet
                if (r.returncode != 0) != want_fail or "Traceback" in r.stderr:
                    raise Violation(f"CLI -c{' -q' if quiet else ''} exit {r.returncode}, warnings owed {len(c.expect)}: {r.stderr.replace(d, '')[-300:]}", signature="cli-check-exit")
                if not quiet:
                    w2, _ = parse_warnings(r.stderr)
                    if sorted(w2) != sorted(warns):
                        raise Violation(f"CLI -c prints other warnings than lint(): {w2[:4]} vs {warns[:4]}", signature="cli-warnings")
            stats.count("cli:-c")
        # (1) advisory
        for lang in c.langs:
            outs = []
            for quiet in (False, True):
                o = os.path.join(d, f"out_{lang}_{int(quiet)}")
                os.makedirs(o)
                stats.evaluations += 1
                res = bpapi.main_inprocess(path, lang, o, disable_linter=quiet)
                outs.append((res.code, type(res.exc).__name__ if res.exc else None, _outputs(o)))
                if quiet and ANSI.sub("", res.stderr).strip().startswith("warning"):
                    raise Violation("warnings printed although the linter is disabled", signature="q-warns")
            a, b = outs
            if a[0] != b[0] or a[1] != b[1]:
                raise Violation(f"{lang}: exit status/acceptance differs with and without -q: {a[:2]} vs {b[:2]}", signature="advisory-exit")
            if a[2] != b[2]:
                diff = [k for k in set(a[2]) | set(b[2]) if a[2].get(k) != b[2].get(k)]
                raise Violation(f"{lang}: generated output differs with and without -q in {diff}", signature="advisory-bytes")
            if a[0] != 0 or not a[2]:
                # identical with and without -q, so the advisory clause holds; why rendering fails is C09/C10's subject
                stats.inconclusive_(f"{lang} rendering of a valid schema failed identically with and without -q")
                continue
            stats.count("advisory:" + lang)
        moved = "layout:shifted" in c.labels or "layout:first-line" in c.labels
        if c.expect or (moved and ("unit:nested" in c.labels or "unit:imports" in c.labels)):
            stats.mark_nontrivial(c.texts, c.main)
        if c.expect and len(str(c.texts)) < 900:
            stats.sample({"files": c.texts, "compile": c.main, "warnings_owed": c.expect, "warnings_seen": [w[:3] for w in warns]})
    finally:
        env.rmtree(d)


# ---------------------------------------------------------------------------
# Part 'errors'
# ---------------------------------------------------------------------------


@dataclass
class ErrorCase:
    mutant: V.Mutant
    quiet_too: bool = True


@st.composite
def error_cases(draw: Any) -> ErrorCase:
    rule = V.WEIGHTED_RULES[draw(st.integers(0, (1 << 20) - 1)) % len(V.WEIGHTED_RULES)]
    return ErrorCase(draw(V.mutants(rules=[rule], shift=True)), draw(st.integers(0, 2)) == 1)


def describe_error(c: ErrorCase) -> Any:
    return {"mutant": asdict(c.mutant)}


def run_error(c: ErrorCase, stats: Stats) -> None:
    m = c.mutant
    if not V.verdict_ok(m):
        raise HarnessError(f"injector {m.rule}/{m.variant} did not plant exactly one violation: {m.verdict}")
    stats.count("errors:rule:" + m.rule, *["errors:" + p for p in m.position])
    if m.shifted:
        stats.count("errors:shifted")
    sub = Stats()
    ok = c08.check_rejected(m, sub, with_main=False, with_cli=False)
    stats.evaluations += sub.evaluations
    for k, v in sub.known.items():
        stats.known[k] = stats.known.get(k, 0) + v
        stats.known_examples.setdefault(k, sub.known_examples.get(k, ""))
    for k, v in sub.labels.items():
        if k.startswith("cite:"):
            stats.count("errors:" + k)
    if not ok:
        return
    d = env.scratch_dir("c20e")
    try:
        bpapi.write_files(d, m.texts)
        path = os.path.join(d, m.main)
        for quiet in (False, True) if c.quiet_too else (False,):
            stats.evaluations += 1
            res = bpapi.main_inprocess(path, check=True, disable_linter=quiet)
            if res.exc is not None or res.code == 0:
                raise Violation(f"check-only mode (disable_linter={quiet}) exit status {res.code} exc={res.exc!r} on a schema with a {m.rule} violation", signature="check-exit-invalid")
            cite = c08._citation(res.stderr)
            if cite is None or cite not in [tuple(a) for a in m.allowed]:
                raise Violation(f"check-only mode cites {cite}, acceptable {m.allowed[:6]} [{m.rule}/{m.variant}]", signature="check-cite")
    finally:
        env.rmtree(d)
    if m.shifted or "pos:imported-file" in m.position or "pos:nested" in m.position:
        stats.mark_nontrivial(m.texts, m.main)


def selftest() -> None:
    V.selftest(n_valid=15, n_mutants=60)
    # the perturbed names must be outside their convention by the documented style guide, whatever the converters think
    for w in S.TYPE_WORDS:
        for s in range(3):
            b = bad_name("message", w, s)
            assert b != w and not (b[0].isupper() and "_" not in b and not b.isupper()), b
    for w in S.FIELD_WORDS:
        for s in range(3):
            b = bad_name("field", w, s)
            assert b != w and b != b.lower(), b
    for w in S.CONST_WORDS + ["EV_" + x for x in S.MEMBER_WORDS]:
        for s in range(3):
            b = bad_name("const", w, s)
            assert b != w and b != b.upper(), b


# ---------------------------------------------------------------------------
# Part 'count': how MANY warnings must not matter for the exit status
# ---------------------------------------------------------------------------

COUNTS = [1, 2, 3, 127, 128, 255, 256, 257, 511, 512, 513, 1024]


@st.composite
def count_cases(draw: Any) -> Any:
    n = draw(st.sampled_from(COUNTS))
    kind = draw(st.sampled_from(["constants", "fields", "aliases", "mixed"]))
    return {"n": n, "kind": kind, "clean": draw(st.integers(0, 4)) == 0}


def count_text(c: Any) -> str:
    """A valid schema owing exactly n naming warnings (one per badly named definition; the `clean` twin has
    the same shape with conforming names and owes none)."""
    n, kind, clean = c["n"], c["kind"], c["clean"]
    lines = ["proto counted", ""]
    left = n

    def consts(k: int) -> None:
        for i in range(k):
            lines.append(f"const {'LIMIT' if clean else 'limit'}_{i} = {i}")

    def aliases(k: int) -> None:
        for i in range(k):
            lines.append(f"type {'Word' if clean else 'word_'}{i} = uint{1 + i % 64}")

    def fields(k: int) -> None:
        # at most 255 fields per message
        j = 0
        while k > 0:
            take = min(k, 255)
            lines.append(f"message Holder{j} {{")
            for i in range(take):
                lines.append(f"    bool {'flag_' if clean else 'flagNo'}{i} = {i + 1}")
            lines.append("}")
            k -= take
            j += 1

    if kind == "constants":
        consts(left)
    elif kind == "aliases":
        aliases(left)
    elif kind == "fields":
        fields(left)
    else:
        a = left // 3
        consts(a)
        aliases(a)
        fields(left - 2 * a)
    return "\n".join(lines) + "\n"


def run_count(c: Any, stats: Stats) -> None:
    text = count_text(c)
    owed = 0 if c["clean"] else c["n"]
    d = env.scratch_dir("cnt")
    bpapi.write_files(d, {"counted.bitproto": text})
    path = os.path.join(d, "counted.bitproto")
    for quiet in (False, True):
        r = bpapi.cli(["-c", path] + (["-q"] if quiet else []))
        stats.evaluations += 1
        warns, _ = parse_warnings(r.stderr)
        if "Traceback" in r.stderr:
            raise Violation(f"CLI -c on a schema owing {owed} warnings: traceback {r.stderr[-300:]}", signature="count-traceback")
        if not quiet and len(warns) != owed:
            raise Violation(f"CLI -c printed {len(warns)} warnings, the schema owes {owed} ({c['kind']}); first: {warns[:2]}", signature="count-warnings")
        want_fail = owed > 0 and not quiet
        if (r.returncode != 0) != want_fail:
            raise Violation(
                f"CLI -c{' -q' if quiet else ''} exit status {r.returncode} on a schema owing {owed} warnings ({c['kind']}): check-only mode must exit non-zero exactly when there is at least one warning",
                signature="count-exit",
            )
    stats.count(f"count:{'clean' if c['clean'] else c['n']}")
    stats.count("count:kind:" + c["kind"])
    if owed >= 128:
        stats.mark_nontrivial("count", c["n"], c["kind"])
    stats.sample({"warnings_owed": owed, "kind": c["kind"], "schema_head": text[:200]})


PARTS = [
    HypPart("lint", lambda tier: lint_cases(), run_lint, {"quick": 1500, "thorough": 30000}, describe=describe_lint),
    HypPart("count", lambda tier: count_cases(), run_count, {"quick": 96, "thorough": 600}, describe=lambda c: {"case": c, "schema": count_text(c)}),
    HypPart("errors", lambda tier: error_cases(), run_error, {"quick": 1100, "thorough": 22000}, describe=describe_error),
]
