"""C11 — Names resolve to the innermost visible earlier definition."""

from __future__ import annotations

import os
from typing import Any, Dict, List, Tuple

from .. import bpapi, cases as cases_mod, gen, pyexec, ref, render_bp, shadowing as SH, strategies as S
from ..model import Alias, Enum, Field, File, Message, TArray, TRef, enclosing_messages, file_of, iter_messages
from ..runner import HypPart, Stats, Violation

ID = "C11"
LEVEL = "exploration"
TECHNIQUE = "generated shadowing schemas vs. an independent scope resolver; parsed-schema identity, BYTES_LENGTH and encoded bytes"
RULE = (
    "Units of 1-3 files (later files import earlier ones by proto name, by `as` name, occasionally by an `as` name equal to a "
    "type name; two files may declare the SAME proto name, an importer then holds one of them under `as`; imports also placed after the first definitions). A few HOT names are declared repeatedly: types Tiger / Panda / "
    "Koala as enums, one-field messages or aliases, every definition with a DIFFERENT width, at file scope, inside messages down "
    "to depth 3 and in imported files; constants SIZE / COUNT with different values in every file; sometimes a FIELD or a nested "
    "enum carries a hot name (wrong kind). Every field type, array element, alias element and some array capacities are slots; "
    "for each slot all dotted texts that name some definition under some reading (all suffixes of every absolute path, the same "
    "under every import name for one and two hops, enum members, import names, junk) are classified by the independent resolver "
    "(shadowing.resolve: innermost declaring scope outward, completed-earlier definitions only, a message invisible in its own "
    "body, wrong-kind members are found and rejected) and one is drawn, preferring names with >= 2 definitions; in 30 % of the "
    "cases one slot gets a text that is undefined / of the wrong kind at that position (often defined LATER or elsewhere). "
    "Oracle per valid use: (1) in the parsed schema the field's / element's / alias' type is the definition with the expected "
    "(file, enclosing message names, name), of the expected kind and width, capacities equal the expected constant's value; (2) "
    "BYTES_LENGTH of every generated Python class == reference nbytes; (3) Python encode() of zero / all-ones / min / max / "
    "one-hot vectors == reference encoder. A unit with a bad use must be rejected with a ParserError, by the file itself and by "
    "every file importing it, while its repaired twin (bad use replaced by uint8 / literal) must be accepted and is then checked "
    "like any valid unit. In half of the units without a bad use ONE slot is given a text of the class the statement leaves open "
    "(the innermost scope declaring the first component lacks the rest of the dotted path - e.g. a FIELD named like an import, "
    "followed by `name.T`): both readings (stop there / search outward) are computed and the compiler's outcome must be the outcome "
    "of one of them, never a third definition; the unit is then judged like any other with the reading taken. evaluations = judged uses + BYTES_LENGTH + encode comparisons + rejections. Non-trivial use: the used "
    "simple name has >= 2 type/constant definitions reachable from the file; distinct by (unit digest, owner path, text)."
)
ASSUMPTIONS = [
    "a dotted text whose first component is declared in an inner scope that lacks the rest of the path, when stopping there and "
    "continuing outward give different outcomes (the statement does not say which): at most ONE such use per unit is written and "
    "judged against BOTH readings (labels ambig:*); all other draws of that class are replaced before the schema is written "
    "(EXCLUDED BY RULE, counted)",
    "a scope declares a name whatever the member's kind; a wrong-kind hit is an expected rejection and is not judged further",
    "observations (2) and (3) go through generated Python and are skipped (label obs1_only:*) for units containing a recorded C10 "
    "shape: a type nested in a message of an imported file used from another file (D7), a two-hop import path (N3), or names "
    "whose flattened forms could collide in generated code (field / import named like a type): those units are judged by (1) only",
    "definitions in the parsed schema are identified by the names on their scope_stack from the last Proto on, the Proto by the "
    "base name of its filepath",
    "ref.py is the layout specification; values are in range (enum members only)",
]
REQUIRED_LABELS = [
    "path:simple", "path:dotted2", "path:dotted3", "site:depth1", "site:depth2", "site:depth3", "site:alias", "site:array_element",
    "use:capacity", "target:imported", "import:as", "import:proto_name", "import:two_hop", "import:same_proto_name_twice", "target:nested_in_imported_message",
    "target:depth0", "target:depth1", "target:depth2", "shadow:inner_wins", "shadow:later_inner_definition_ignored",
    "kind:enum", "kind:message", "kind:alias", "kind:const", "ambig:leaf_first_component", "ambig:scope_lacks_rest", "reject:undefined", "reject:wrongkind", "reject:defined_later",
    "reject:in_imported_file", "own_name_in_body", "obs:python", "obs:via_importer",
]


def strategy(tier: str) -> Any:
    return SH.cases()


def describe(c: SH.Case) -> Any:
    return {
        "files": render_bp.render_unit(c.unit),
        "uses": [
            {"at": ".".join(SH.definition_path(u.owner)[1]), "file": file_of(u.owner).filename, "text": u.text, "denotes": list(SH.definition_path(u.target)), "candidates": u.ncand}
            for u in c.uses
        ],
        "ambiguous_use": None if c.ambig is None else {"at": ".".join(SH.definition_path(c.ambig.owner)[1]), "file": file_of(c.ambig.owner).filename, "text": c.ambig.text, "readings": [r[0] if r[0] != "ok" else list(SH.definition_path(r[1])) for r in c.ambig.allowed]},
        "bad_use": None if c.bad is None else {"at": ".".join(SH.definition_path(c.bad.owner)[1]), "file": file_of(c.bad.owner).filename, "text": c.bad.text, "expected": c.bad.outcome},
    }


# ---------------------------------------------------------------------------
# Parsed schema: navigation and identity
# ---------------------------------------------------------------------------


def ast_identity(node: Any) -> Tuple[str, Tuple[str, ...]]:
    """(file base name, (names from below the last Proto on the scope stack..., own name))"""
    stack = list(getattr(node, "scope_stack", ()))
    k = max(i for i, s in enumerate(stack) if type(s).__name__ == "Proto")
    return os.path.basename(stack[k].filepath), tuple([s.name for s in stack[k + 1 :]] + [node.name])


def ast_owner(proto: Any, owner: Any) -> Any:
    path = SH.definition_path(owner)[1]
    node = proto
    for comp in path:
        node = node.members[comp]
    return node


def ast_used_type(proto: Any, u: SH.Use) -> Any:
    """The AST type object standing where the use is written."""
    t = ast_owner(proto, u.owner).type
    mt = u.owner.type
    if u.kind == "cap":
        return t  # the Array
    if isinstance(mt, TArray):
        return t.element_type
    return t


KIND = {Enum: "Enum", Message: "Message", Alias: "Alias"}


def check_use(proto: Any, u: SH.Use, stats: Stats) -> None:
    at = f"{file_of(u.owner).filename}:{'.'.join(SH.definition_path(u.owner)[1])}"
    node = ast_used_type(proto, u)
    stats.evaluations += 1
    if u.kind == "cap":
        if type(node).__name__ != "Array" or node.cap != u.target.value:
            raise Violation(
                f"{at}: capacity `{u.text}` must denote constant {SH.definition_path(u.target)} = {u.target.value}; parsed capacity is {getattr(node, 'cap', None)}",
                signature="cap-value",
            )
        return
    want = SH.definition_path(u.target)
    if type(node).__name__ != KIND[type(u.target)]:
        raise Violation(f"{at}: `{u.text}` must denote {type(u.target).__name__.lower()} {want}; parsed type is {node!r}", signature="kind")
    got = ast_identity(node)
    if got != want:
        raise Violation(f"{at}: `{u.text}` must denote the definition {want} (width {ref.nbits(u.target)}); the parsed schema uses {got} (width {node.nbits()})", signature="identity")
    if node.nbits() != ref.nbits(u.target):
        raise Violation(f"{at}: `{u.text}` denotes {want} of {ref.nbits(u.target)} bits; parsed type has {node.nbits()} bits", signature="width")


# ---------------------------------------------------------------------------
# The case
# ---------------------------------------------------------------------------


def importers(unit: Any, f: File) -> List[File]:
    out: List[File] = []
    changed = True
    bad = [f]
    while changed:
        changed = False
        for g in unit.files:
            if any(g is x for x in bad):
                continue
            if any(any(i.file is x for x in bad) for i in g.imports()):
                bad.append(g)
                out.append(g)
                changed = True
    return out


def check_rejection(c: SH.Case, stats: Stats) -> None:
    u = c.bad
    assert u is not None
    f = file_of(u.owner)
    texts = render_bp.render_unit(c.unit)
    at = f"{f.filename}:{'.'.join(SH.definition_path(u.owner)[1])}"
    stats.count("reject:" + u.outcome)
    later = False
    for g in [f] + [i.file for i in f.imports()]:
        for d, p in SH._defs_with_paths(g):
            if d.name == u.text.split(".")[-1] and isinstance(d, (Enum, Message, Alias, SH.Const)):
                later = True
    if later:
        stats.count("reject:defined_later" if u.outcome == "undefined" else "reject:wrongkind_hides_definition")
    targets = [f] + importers(c.unit, f)
    if len(targets) > 1:
        stats.count("reject:in_imported_file")
    with gen.Compiled(c.unit, texts=texts) as cu:
        for g in targets:
            stats.evaluations += 1
            try:
                cu.parse(g)
            except bpapi.ParserError as e:
                stats.count("reject_class:" + type(e).__name__)
                continue
            except Exception as e:
                raise Violation(f"{at}: `{u.text}` is {u.outcome} here; parsing {g.filename} raised {type(e).__name__}: {e}", signature=f"reject-exc:{type(e).__name__}")
            raise Violation(
                f"{at}: `{u.text}` is {u.outcome} at this position (no enclosing scope has declared it as a {'type' if u.kind == 'type' else 'constant'} before the use), but {g.filename} was accepted",
                signature="accepted:" + u.outcome,
            )


def run_case(c: SH.Case, stats: Stats) -> None:
    if c.excluded:
        stats.exclude("drawn dotted path whose first component is declared in an inner scope lacking the rest (readings differ): replaced", c.excluded)
    if c.excluded_seen:
        stats.exclude("(slot, candidate text) pairs of that class, never written", c.excluded_seen)
    if c.bad is not None:
        check_rejection(c, stats)
        with SH.Repaired(c.bad):
            check_valid(c, stats, twin=True)
    elif c.ambig is not None:
        check_ambiguous(c, stats)
    else:
        check_valid(c, stats, twin=False)


def check_ambiguous(c: SH.Case, stats: Stats) -> None:
    """ONE use of the class the statement leaves open (the innermost scope declaring the first component lacks the rest of the
    dotted path): whichever reading the compiler takes, it must be ONE of the two - rejection where a reading rejects, or exactly
    the definition a reading selects; never a third definition."""
    u = c.ambig
    assert u is not None
    f = file_of(u.owner)
    at = f"{f.filename}:{'.'.join(SH.definition_path(u.owner)[1])}"
    texts = render_bp.render_unit(c.unit)
    for lab in u.labels:
        stats.count(lab)
    rejecting = [r for r in u.allowed if r[0] != "ok"]
    oks = [r for r in u.allowed if r[0] == "ok"]
    readings = [("rejected (" + r[0] + ")") if r[0] != "ok" else str(SH.definition_path(r[1])) for r in u.allowed]
    taken = None
    with gen.Compiled(c.unit, texts=texts) as cu:
        stats.evaluations += 1
        try:
            proto = cu.parse(f)
        except bpapi.ParserError:
            if not rejecting:
                raise Violation(f"{at}: `{u.text}` denotes a definition under both readings of the rule ({readings}), but {f.filename} was rejected", signature="ambig-rejected")
            proto = None
        except Exception as e:
            raise Violation(f"{at}: `{u.text}`: parsing {f.filename} raised {type(e).__name__}: {e}", signature=f"ambig-exc:{type(e).__name__}")
        if proto is not None:
            node = ast_used_type(proto, u)
            for r in oks:
                tgt = r[1]
                if u.kind == "cap":
                    if type(node).__name__ == "Array" and node.cap == tgt.value:
                        taken = tgt
                elif type(node).__name__ == KIND[type(tgt)] and ast_identity(node) == SH.definition_path(tgt) and node.nbits() == ref.nbits(tgt):
                    taken = tgt
            if taken is None:
                got = getattr(node, "cap", None) if u.kind == "cap" else (ast_identity(node) if hasattr(node, "scope_stack") else repr(node))
                raise Violation(
                    f"{at}: `{u.text}`: the innermost scope declaring `{u.text.split('.')[0]}` lacks the rest of the path; stopping there / searching outward give {readings}; the parsed schema uses {got}, which is neither",
                    signature="ambig-third",
                )
    if taken is None:
        stats.count("ambig:rejected")
        with SH.Repaired(u):
            check_valid(c, stats, twin=True)
        return
    stats.count("ambig:outward" if (u.allowed[1][0] == "ok" and u.allowed[1][1] is taken) else "ambig:innermost")
    u.outcome, u.target = "ok", taken
    u.labels = SH.use_labels(u, SH.site_of(u.owner))
    if u.kind == "type":
        u.holder.target = taken
    else:
        u.holder.cap, u.holder.cap_const = taken.value, taken
    if not any(x is u for x in c.uses):
        c.uses.append(u)
    check_valid(c, stats, twin=False)


def check_valid(c: SH.Case, stats: Stats, twin: bool) -> None:
    unit = c.unit
    for f in unit.files:
        for m in iter_messages(f):
            if ref.nbits(m) > 65535:
                stats.exclude("message larger than 65535 bits")
                return
    texts = render_bp.render_unit(unit)
    digest = cases_mod.unit_digest(texts)
    with gen.Compiled(unit, texts=texts) as cu:
        protos: Dict[int, Any] = {}
        for f in unit.files:
            try:
                protos[id(f)] = cu.parse(f)
            except Exception as e:
                raise Violation(
                    f"schema in which every name resolves ({'repaired twin of a rejection case' if twin else 'valid by construction'}) not accepted: {f.filename}: {type(e).__name__}: {e}",
                    signature=f"parse:{type(e).__name__}",
                )
        # (1) identity and width in the parsed schema
        for u in c.uses:
            f = file_of(u.owner)
            check_use(protos[id(f)], u, stats)
            for lab in u.labels:
                stats.count(lab)
            if u.kind == "type" and any(m.name == u.text.split(".")[0] for m in enclosing_messages(u.owner)):
                stats.count("own_name_in_body")  # the first component is the name of an enclosing (open) message
            if u.ncand >= 2:
                stats.count("nontrivial_use")
                stats.mark_nontrivial(digest, SH.definition_path(u.owner), u.text)
        # the same uses again as the IMPORTING file's parse sees them (the imported file is parsed below the importer's scopes)
        for g in unit.files:
            for imp in g.imports():
                child = protos[id(g)].members.get(imp.name)
                if child is None or type(child).__name__ != "Proto":
                    raise Violation(f"{g.filename}: import name {imp.name} is not a member of the parsed file", signature="import-member")
                for u in c.uses:
                    if file_of(u.owner) is imp.file:
                        check_use(child, u, stats)
                        stats.count("obs:via_importer")
        why = SH.python_unsafe(c)
        if why is not None:
            stats.count("obs1_only:" + why.split(":")[0])
            _sample(c, texts, stats)
            return
        # (2) + (3) through generated Python
        try:
            mods = cu.load_python()
        except Exception as e:
            raise Violation(f"accepted shadowing schema could not be compiled/imported for Python: {type(e).__name__}: {e}", signature=f"py:{type(e).__name__}")
        stats.count("obs:python")
        for f in unit.files:
            for m in iter_messages(f):
                cls = getattr(mods[f.base], ref.py_class_name(m), None)
                if cls is None:
                    raise Violation(f"generated Python has no class {ref.py_class_name(m)} for {f.filename}", signature="py-class")
                stats.evaluations += 1
                if getattr(cls, "BYTES_LENGTH", None) != ref.nbytes(m):
                    raise Violation(
                        f"{f.filename}: {ref.py_class_name(m)}.BYTES_LENGTH = {getattr(cls, 'BYTES_LENGTH', '(missing)')}; with every name resolved by the documented rule the message has {ref.nbits(m)} bits = {ref.nbytes(m)} bytes",
                        {"uses": describe(c)["uses"]},
                        signature="bytes-length",
                    )
                if not ref.leaves(m):
                    continue
                for vname, v in S.basis_values(m, 160):
                    obj = pyexec.new_message(mods, m)
                    try:
                        pyexec.set_value(mods, obj, m, v)
                        got = bytes(obj.encode())
                    except Exception as e:
                        raise Violation(f"{f.filename}: {m.name}: setting / encoding vector {vname} raised {type(e).__name__}: {e}", {"value": v}, signature=f"encode-exc:{type(e).__name__}")
                    stats.evaluations += 1
                    want = ref.encode(m, v)
                    if got != want:
                        raise Violation(
                            f"{f.filename}: {m.name}: encoding of vector {vname} is {got.hex()}, with every name resolved by the documented rule it is {want.hex()} (stream bits {gen.bit_diff(got, want)[:12]})",
                            {"value": v, "uses": describe(c)["uses"]},
                            signature="encode",
                        )
        _sample(c, texts, stats)


def _sample(c: SH.Case, texts: Dict[str, str], stats: Stats) -> None:
    if sum(1 for u in c.uses if "shadow:inner_wins" in u.labels) >= 1 and len(str(texts)) < 2500:
        stats.sample({"files": texts, "uses": describe(c)["uses"]})


def selftest() -> None:
    """The resolver on the documented example and on the observed subtleties."""
    from ..model import Unit, set_parents

    f = File("doc", "doc")
    b0 = Message("B")
    b0.items.append(Enum("Color", 3))
    a = Message("A")
    b1 = Message("B")
    b1.items.append(Enum("Color", 5))
    fld = Field("color", TRef("B.Color", None), 1)
    late = Enum("Late", 2)
    own = Field("own", TRef("A", None), 2)
    a.items.extend([b1, fld, own, late])
    f.items.extend([b0, a])
    set_parents(Unit([f]))
    site = SH.site_of(fld)
    o, t = SH.resolve(site, "B.Color", "type")
    assert o == "ok" and t is b1.items[0], (o, t)  # docs: local B.Color wins
    assert SH.resolve(site, "Late", "type")[0] == "undefined"  # defined later
    assert SH.resolve(site, "A", "type")[0] == "undefined"  # a message is not visible in its own body
    assert SH.resolve(site, "color", "type")[0] == "undefined"  # the field itself is not yet declared
    assert SH.resolve(SH.site_of(own), "color", "type")[0] == "wrongkind"
    assert SH.resolve(SH.site_of(own), "B.Nope", "type")[0] == "undefined"  # inner B lacks it, outer B lacks it too
    b0.items.append(Enum("Only", 4))
    assert SH.resolve(SH.site_of(own), "B.Only", "type")[0] == "excluded"  # inner B lacks it, outer B has it: readings differ


PARTS = [HypPart("gen", strategy, run_case, {"quick": 2400, "thorough": 48000}, describe=describe)]
