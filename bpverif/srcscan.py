"""Text-level scanner for generated C / Go sources (C17): locate encoder/decoder functions by
their header line, cut them out with a brace matcher that knows string, character and raw-string
literals and comments, and compute "the rest of the file".

Deliberately independent of bitproto and of gointerp: only lexical structure is used."""

from __future__ import annotations

import re
from dataclasses import dataclass
from typing import Dict, List, Optional, Tuple


class ScanError(Exception):
    pass


def match_brace(text: str, open_pos: int) -> int:
    """Index just past the '}' matching the '{' at open_pos."""
    assert text[open_pos] == "{"
    depth = 0
    i = open_pos
    n = len(text)
    while i < n:
        ch = text[i]
        nxt = text[i + 1] if i + 1 < n else ""
        if ch == "/" and nxt == "/":
            j = text.find("\n", i)
            i = n if j < 0 else j
            continue
        if ch == "/" and nxt == "*":
            j = text.find("*/", i + 2)
            if j < 0:
                raise ScanError("unterminated comment")
            i = j + 2
            continue
        if ch == '"' or ch == "'":
            j = i + 1
            while j < n and text[j] != ch:
                if text[j] == "\\":
                    j += 1
                if j < n and text[j] == "\n":
                    raise ScanError("newline in literal")
                j += 1
            if j >= n:
                raise ScanError("unterminated literal")
            i = j + 1
            continue
        if ch == "`":  # Go raw string
            j = text.find("`", i + 1)
            if j < 0:
                raise ScanError("unterminated raw string")
            i = j + 1
            continue
        if ch == "{":
            depth += 1
        elif ch == "}":
            depth -= 1
            if depth == 0:
                return i + 1
        i += 1
    raise ScanError("unbalanced braces")


@dataclass
class Item:
    kind: str  # 'Encode' | 'Decode'
    name: str  # struct name
    start: int  # start of the header line
    end: int  # just past the closing brace / semicolon (not including the newline)
    cstart: int  # start including the directly preceding // comment lines
    text: str  # text[start:end]
    comment: str  # text[cstart:start]


C_DEF = re.compile(r"^int (Encode|Decode)([A-Za-z_0-9]+)\(([^()]*)\)[ \t]*\{", re.M)
C_PROTO = re.compile(r"^int (Encode|Decode)([A-Za-z_0-9]+)\(([^()]*)\)[ \t]*;", re.M)
GO_METHOD = re.compile(r"^func \(m \*([A-Za-z_0-9]+)\) (Encode|Decode)\(([^()]*)\)[^{\n]*\{", re.M)


def _comment_start(text: str, start: int) -> int:
    """Start of the block of // comment lines directly above position start (start of a line)."""
    pos = start
    while pos > 0:
        prev_end = pos - 1  # the '\n' ending the previous line
        prev_start = text.rfind("\n", 0, prev_end) + 1
        line = text[prev_start:prev_end]
        if line.lstrip().startswith("//"):
            pos = prev_start
        else:
            break
    return pos


def c_definitions(text: str) -> List[Item]:
    out = []
    for m in C_DEF.finditer(text):
        end = match_brace(text, m.end() - 1)
        cs = _comment_start(text, m.start())
        out.append(Item(m.group(1), m.group(2), m.start(), end, cs, text[m.start() : end], text[cs : m.start()]))
    return out


def c_prototypes(text: str) -> List[Item]:
    out = []
    for m in C_PROTO.finditer(text):
        cs = _comment_start(text, m.start())
        out.append(Item(m.group(1), m.group(2), m.start(), m.end(), cs, text[m.start() : m.end()], text[cs : m.start()]))
    return out


def go_methods(text: str) -> List[Item]:
    out = []
    for m in GO_METHOD.finditer(text):
        end = match_brace(text, m.end() - 1)
        cs = _comment_start(text, m.start())
        out.append(Item(m.group(2), m.group(1), m.start(), end, cs, text[m.start() : end], text[cs : m.start()]))
    return out


def remainder(text: str, items: List[Item]) -> str:
    """The file with the items (and their directly preceding comment lines) deleted; runs of blank
    lines collapsed (the deleted blocks leave different numbers of separators behind)."""
    parts = []
    pos = 0
    for it in sorted(items, key=lambda x: x.cstart):
        if it.cstart < pos:
            raise ScanError("overlapping items")
        parts.append(text[pos : it.cstart])
        pos = it.end
    parts.append(text[pos:])
    lines = [l.rstrip() for l in "".join(parts).split("\n")]
    out: List[str] = []
    for l in lines:
        if l == "" and (not out or out[-1] == ""):
            continue
        out.append(l)
    while out and out[-1] == "":
        out.pop()
    return "\n".join(out)


def by_key(items: List[Item]) -> Dict[Tuple[str, str], Item]:
    out: Dict[Tuple[str, str], Item] = {}
    for it in items:
        k = (it.kind, it.name)
        if k in out:
            raise ScanError(f"{it.kind}{it.name} defined twice")
        out[k] = it
    return out


def select_endian_branch(func_text: str, endian: str) -> str:
    """From a function generated with --endian both (`#ifndef BP_BIG_ENDIAN` LE `#else` BE `#endif`)
    the text --endian little / big is documented to be: only the respective path."""
    out: List[str] = []
    state = "outside"
    for line in func_text.split("\n"):
        s = line.strip()
        if state == "outside" and s == "#ifndef BP_BIG_ENDIAN":
            state = "le"
            continue
        if state == "le" and s == "#else":
            state = "be"
            continue
        if state == "be" and s == "#endif":
            state = "outside"
            continue
        if state == "outside" or (state == "le" and endian == "little") or (state == "be" and endian == "big"):
            out.append(line)
    if state != "outside":
        raise ScanError("unterminated #ifndef BP_BIG_ENDIAN")
    return "\n".join(out)


def selftest() -> None:
    c = '// c1\n// c2\nint EncodeAb(struct Ab *m, unsigned char *s) {\n#ifndef BP_BIG_ENDIAN\n    a; // }\n#else\n    b = "}";\n#endif\n    if (x) { y; }\n    return 0;\n}\n\nint DecodeAb(struct Ab *m, unsigned char *s) {\n    return 0;\n}\nint tail;\n'
    items = c_definitions(c)
    assert [(i.kind, i.name) for i in items] == [("Encode", "Ab"), ("Decode", "Ab")], items
    assert items[0].text.endswith("return 0;\n}") and items[0].comment == "// c1\n// c2\n"
    assert remainder(c, items) == "\nint tail;" or remainder(c, items) == "int tail;", repr(remainder(c, items))
    assert select_endian_branch(items[0].text, "little").split("\n")[1].strip() == "a; // }"
    assert select_endian_branch(items[0].text, "big").split("\n")[1].strip() == 'b = "}";'
    h = "struct Ab { int x; };\n\n// Encode struct Ab\nint EncodeAb(struct Ab *m, unsigned char *s);\n// Decode\nint DecodeAb(struct Ab *m, unsigned char *s);\n\n#endif"
    ps = c_prototypes(h)
    assert len(ps) == 2 and remainder(h, ps) == "struct Ab { int x; };\n\n#endif", repr(remainder(h, ps))
    g = "type Ab struct {\n\tX bool `json:\"{\"`\n}\n\n// Encode struct\nfunc (m *Ab) Encode() []byte {\n\ts := make([]byte, 1)\n\tif b { return s }\n\treturn s\n}\n\nfunc (m *Ab) Decode(s []byte) {\n}\n\nfunc f() {}\n"
    gs = go_methods(g)
    assert [(i.kind, i.name) for i in gs] == [("Encode", "Ab"), ("Decode", "Ab")]
    assert remainder(g, gs) == "type Ab struct {\n\tX bool `json:\"{\"`\n}\n\nfunc f() {}", repr(remainder(g, gs))
