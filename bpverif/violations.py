"""C08 / C20: independent validity checker over the model + single-violation injectors.

Three layers, all independent of bitproto:

* `problems(unit, main, extras)` -- the constraint catalogue of property C08 as an
  executable rule checker over my own model (plus `Extra` records for declarations
  the model cannot hold: statements planted in a scope at text level).
* `Doc` -- rendered files (render_bp) as line lists with the source map kept in
  step while lines are inserted / removed (text level injection, line shifting).
* injectors -- each takes a valid unit and plants exactly ONE violation of one
  catalogue entry at a generated position; `mutants()` is the Hypothesis strategy
  that yields self-contained `Mutant` cases (texts + the acceptable citations).

`selftest()` cross-checks the layers: valid-by-construction units must be judged
valid, every mutant must be judged to carry exactly the one planted problem.
"""

from __future__ import annotations

import re
from dataclasses import dataclass, field
from typing import Any, Callable, Dict, Iterator, List, Optional, Sequence, Set, Tuple

from hypothesis import strategies as st

from . import render_bp, strategies as S
from .model import (
    Alias,
    Const,
    Enum,
    Field,
    File,
    Import,
    Message,
    TArray,
    TBase,
    TRef,
    Unit,
    iter_enums,
    iter_messages,
    set_parents,
)

# ===========================================================================
# 1. The constraint catalogue as a rule checker
# ===========================================================================

RULES = (
    "width",  # integer widths 1..64 (uintN, intN, enum width)
    "capacity",  # array capacity 1..65535
    "field_number",  # 1..255, unique per message
    "enum_value",  # unique per enum, representable in the enum's width
    "name",  # names unique per scope
    "size",  # message <= 65535 bits, <= max_bytes bytes when set
    "alias",  # aliases name only unnamed types
    "array_dim",  # arrays are one-dimensional
    "scope",  # nothing declared in a scope that forbids it
    "option",  # options known, well-typed (and in their documented range)
    "reference",  # referenced type/constant declared earlier and of the right kind
    "import",  # imports neither cyclic nor duplicated
)

# docs/language.rst "Option": full table of options supported
FILE_OPTIONS: Dict[str, Tuple[type, Optional[Callable[[Any], bool]]]] = {
    "c.struct_packing_alignment": (int, lambda v: 0 <= v <= 8),
    "c.name_prefix": (str, None),
    "go.package_path": (str, None),
    "py.module_name": (str, None),
}
MESSAGE_OPTIONS: Dict[str, Tuple[type, Optional[Callable[[Any], bool]]]] = {
    "max_bytes": (int, lambda v: v >= 0),
}
# which statements a scope may hold (docs: "only messages and enums can be nested declared",
# options "in global scope and message scopes")
ALLOWED_IN = {
    "file": {"import", "proto", "option", "alias", "const", "enum", "message"},
    "message": {"option", "enum", "message", "field"},
    "enum": {"member"},
}

MAX_MESSAGE_BITS = 65535
MAX_CAPACITY = 65535
MAX_FIELD_NUMBER = 255
MAX_WIDTH = 64


@dataclass(eq=False)
class Extra:
    """A statement planted at text level inside `scope` (File | Message | Enum)."""

    scope: Any
    kind: str  # import | proto | option | alias | const | enum | message | field | member
    name: str = ""
    value: Any = None


@dataclass
class Problem:
    rule: str
    file: str
    what: str

    def key(self) -> Tuple[str, str, str]:
        return (self.rule, self.file, self.what)


def _scope_kind(s: Any) -> str:
    if isinstance(s, File):
        return "file"
    if isinstance(s, Message):
        return "message"
    if isinstance(s, Enum):
        return "enum"
    raise TypeError(s)


def _is_int(v: Any) -> bool:
    return isinstance(v, int) and not isinstance(v, bool)


class _Member:
    """Enum member / field as a thing a dotted path can land on (never a type or constant)."""

    def __init__(self, what: str):
        self.what = what


class _Checker:
    def __init__(self, unit: Unit, main: File, extras: Sequence[Extra]):
        self.unit = unit
        self.main = main
        self.extras = list(extras)
        self.out: List[Problem] = []
        self.seen: Set[Tuple[str, str, str]] = set()
        self.done_files: Set[int] = set()
        self.bits: Dict[int, Optional[int]] = {}  # id(definition) -> bits (None: not computable)
        self.cur: Optional[File] = None

    # -- reporting ----------------------------------------------------------

    def bad(self, rule: str, what: str) -> None:
        assert rule in RULES or rule == "harness", rule
        assert self.cur is not None
        p = Problem(rule, self.cur.filename, what)
        if p.key() not in self.seen:
            self.seen.add(p.key())
            self.out.append(p)

    # -- imports ------------------------------------------------------------

    def walk(self, f: File, stack: List[File]) -> None:
        """Depth-first over the import graph the way a compiler must read it."""
        stack.append(f)
        targets: List[File] = []
        for imp in f.imports():
            self.cur = f
            if any(imp.file is s for s in stack):
                self.bad("import", f"cyclic import of {imp.file.filename}")
                continue
            if any(imp.file is t for t in targets):
                self.bad("import", f"{imp.file.filename} imported twice")
                continue
            targets.append(imp.file)
            self.walk(imp.file, stack)
        stack.pop()
        if id(f) not in self.done_files:
            self.done_files.add(id(f))
            self.file(f)

    # -- name lookup (docs: local scopes first, then outer; dotted paths into messages and imports)

    @staticmethod
    def members_of(obj: Any) -> Optional[Dict[str, Any]]:
        if isinstance(obj, Message):
            out: Dict[str, Any] = {}
            for it in obj.items:
                if isinstance(it, (Field, Enum, Message)):
                    out.setdefault(it.name, _Member("field") if isinstance(it, Field) else it)
            return out
        if isinstance(obj, Import):
            out = {}
            for it in obj.file.items:
                out.setdefault(it.name, it)
            return out
        if isinstance(obj, Enum):
            return {n: _Member("enum member") for n, _ in obj.members}
        return None

    def lookup(self, scopes: List[Dict[str, Any]], text: str) -> Any:
        parts = text.split(".")
        for sc in scopes:  # innermost first
            obj = sc.get(parts[0])
            for p in parts[1:]:
                if obj is None:
                    break
                sub = self.members_of(obj)
                obj = sub.get(p) if sub is not None else None
            if obj is not None:
                return obj
        return None

    def declare(self, members: Dict[str, Any], name: str, obj: Any, where: str) -> None:
        if name in members:
            self.bad("name", f"{name!r} declared twice in {where}")
        else:
            members[name] = obj

    # -- types --------------------------------------------------------------

    def type_(self, t: Any, scopes: List[Dict[str, Any]], where: str) -> Optional[int]:
        """Checks a type expression; returns its size in bits or None."""
        if isinstance(t, TBase):
            if t.kind in ("uint", "int") and not (1 <= t.bits <= MAX_WIDTH):
                self.bad("width", f"{t.text()} in {where}")
            return t.bits
        if isinstance(t, TRef):
            d = self.lookup(scopes, t.text_)
            if d is None:
                self.bad("reference", f"type {t.text_!r} in {where} is not declared before its use")
                return None
            if not isinstance(d, (Alias, Enum, Message)):
                self.bad("reference", f"{t.text_!r} in {where} is not a type")
                return None
            if t.target is not None and d is not t.target:
                self.bad("harness", f"{t.text_!r} in {where} resolves to another definition than the generator meant")
            return self.bits.get(id(d))
        if isinstance(t, TArray):
            if not (1 <= t.cap <= MAX_CAPACITY):
                self.bad("capacity", f"capacity {t.cap} in {where}")
            if t.cap_text is not None and not t.cap_text.isdigit():
                c = self.lookup(scopes, t.cap_text)
                if c is None:
                    self.bad("reference", f"capacity constant {t.cap_text!r} in {where} is not declared before its use")
                elif not isinstance(c, Const):
                    self.bad("reference", f"capacity {t.cap_text!r} in {where} is not a constant")
                elif not _is_int(c.value):
                    self.bad("reference", f"capacity constant {t.cap_text!r} in {where} is not an integer")
                elif c.value != t.cap:
                    self.bad("harness", f"capacity constant {t.cap_text!r} = {c.value} but the model says {t.cap}")
            if isinstance(t.elem, TArray):
                self.bad("array_dim", f"array of array written directly in {where}")
            eb = self.type_(t.elem, scopes, where)
            if eb is None:
                return None
            return t.cap * eb + (16 if t.ext else 0)
        raise TypeError(t)

    # -- options ------------------------------------------------------------

    def option(self, table: Dict[str, Any], name: str, value: Any, where: str) -> None:
        if name not in table:
            self.bad("option", f"unknown option {name!r} in {where}")
            return
        typ, rng = table[name]
        ok = _is_int(value) if typ is int else isinstance(value, str) if typ is str else isinstance(value, bool)
        if not ok:
            self.bad("option", f"option {name!r} in {where} takes a {typ.__name__}, got {value!r}")
            return
        if rng is not None and not rng(value):
            self.bad("option", f"option {name!r} = {value!r} in {where} is out of range")

    def extras_of(self, scope: Any) -> None:
        kind = _scope_kind(scope)
        for ex in self.extras:
            if ex.scope is not scope:
                continue
            where = f"{kind} {getattr(scope, 'name', getattr(scope, 'proto', ''))}"
            if ex.kind not in ALLOWED_IN[kind]:
                self.bad("scope", f"{ex.kind} {ex.name!r} declared inside {where}")
            elif ex.kind == "option":
                self.option(FILE_OPTIONS if kind == "file" else MESSAGE_OPTIONS, ex.name, ex.value, where)
            else:
                self.bad("harness", f"extra {ex.kind} in {where} is expressible in the model")

    # -- definitions --------------------------------------------------------

    def const(self, c: Const, scopes: List[Dict[str, Any]]) -> None:
        for text, usage in getattr(c, "expr_refs", []):
            d = self.lookup(scopes, text)
            if d is None:
                self.bad("reference", f"constant {text!r} used by {c.name} is not declared before its use")
            elif not isinstance(d, Const):
                self.bad("reference", f"{text!r} used by constant {c.name} is not a constant")
            elif usage == "arith" and not _is_int(d.value):
                self.bad("reference", f"non-integer constant {text!r} used in arithmetic by {c.name}")

    def alias(self, a: Alias, scopes: List[Dict[str, Any]]) -> None:
        b = self.type_(a.type, scopes, f"alias {a.name}")
        if isinstance(a.type, TRef) and self.lookup(scopes, a.type.text_) is not None and isinstance(self.lookup(scopes, a.type.text_), (Alias, Enum, Message)):
            self.bad("alias", f"alias {a.name} names the already named type {a.type.text_}")
        self.bits[id(a)] = b

    def enum(self, e: Enum) -> None:
        if not (1 <= e.bits <= MAX_WIDTH):
            self.bad("width", f"enum {e.name} : uint{e.bits}")
        names: Dict[str, Any] = {}
        values: Set[int] = set()
        for n, v in e.members:
            self.declare(names, n, True, f"enum {e.name}")
            if v < 0 or v >= (1 << e.bits):
                self.bad("enum_value", f"{n} = {v} does not fit uint{e.bits} in enum {e.name}")
            if v in values:
                self.bad("enum_value", f"value {v} used twice in enum {e.name}")
            values.add(v)
        self.extras_of(e)
        self.bits[id(e)] = e.bits

    def message(self, m: Message, scopes: List[Dict[str, Any]]) -> None:
        members: Dict[str, Any] = {}
        inner = [members] + scopes
        where = f"message {m.name}"
        if m.max_bytes is not None:
            self.option(MESSAGE_OPTIONS, "max_bytes", m.max_bytes, where)
        numbers: Set[int] = set()
        total: Optional[int] = 16 if m.ext else 0
        for it in m.items:
            if isinstance(it, Field):
                b = self.type_(it.type, inner, f"field {m.name}.{it.name}")
                total = None if (total is None or b is None) else total + b
                if not (1 <= it.number <= MAX_FIELD_NUMBER):
                    self.bad("field_number", f"field {m.name}.{it.name} = {it.number}")
                if it.number in numbers:
                    self.bad("field_number", f"number {it.number} used twice in {where}")
                numbers.add(it.number)
                self.declare(members, it.name, _Member("field"), where)
            elif isinstance(it, Enum):
                self.enum(it)
                self.declare(members, it.name, it, where)
            elif isinstance(it, Message):
                self.message(it, inner)
                self.declare(members, it.name, it, where)
            else:
                raise TypeError(it)
        self.extras_of(m)
        self.bits[id(m)] = total
        if total is not None:
            if total > MAX_MESSAGE_BITS:
                self.bad("size", f"{where} has {total} bits")
            mb = m.max_bytes
            for ex in self.extras:  # a well-formed max_bytes planted at text level still limits
                if ex.scope is m and ex.kind == "option" and ex.name == "max_bytes" and _is_int(ex.value):
                    mb = ex.value
            if mb is not None and _is_int(mb) and mb > 0 and (total + 7) // 8 > mb:
                self.bad("size", f"{where} has {(total + 7) // 8} bytes, max_bytes = {mb}")

    def file(self, f: File) -> None:
        self.cur = f
        top: Dict[str, Any] = {}
        where = f"file {f.filename}"
        for name, value in f.options:
            self.option(FILE_OPTIONS, name, value, where)
        for it in f.items:
            self.cur = f
            if isinstance(it, Import):
                self.declare(top, it.name, it, where)
            elif isinstance(it, Const):
                self.const(it, [top])
                self.declare(top, it.name, it, where)
            elif isinstance(it, Alias):
                self.alias(it, [top])
                self.declare(top, it.name, it, where)
            elif isinstance(it, Enum):
                self.enum(it)
                self.declare(top, it.name, it, where)
            elif isinstance(it, Message):
                self.message(it, [top])
                self.declare(top, it.name, it, where)
            else:
                raise TypeError(it)
        self.extras_of(f)


def problems(unit: Unit, main: Optional[File] = None, extras: Sequence[Extra] = ()) -> List[Problem]:
    """Every violated catalogue entry in what compiling `main` (default: the unit's
    last file) has to read.  Empty list <=> the schema is valid."""
    ck = _Checker(unit, main or unit.main, extras)
    ck.walk(ck.main, [])
    return ck.out


def is_valid(unit: Unit, main: Optional[File] = None) -> bool:
    return not problems(unit, main)


def reachable(src: File, dst: File) -> bool:
    seen: List[File] = []
    todo = [src]
    while todo:
        f = todo.pop()
        if f is dst:
            return True
        if any(f is s for s in seen):
            continue
        seen.append(f)
        todo.extend(i.file for i in f.imports())
    return False


def reachable_files(unit: Unit, main: File) -> List[File]:
    return [f for f in unit.files if reachable(main, f)]


def message_bits(m: Message) -> int:
    """Size of a message of a VALID unit (prefixes of extensible messages/arrays included)."""

    def tb(t: Any) -> int:
        if isinstance(t, TBase):
            return t.bits
        if isinstance(t, TRef):
            d = t.target
            if isinstance(d, Alias):
                return tb(d.type)
            if isinstance(d, Enum):
                return d.bits
            return message_bits(d)
        return t.cap * tb(t.elem) + (16 if t.ext else 0)

    return sum(tb(f.type) for f in m.fields()) + (16 if m.ext else 0)


# ===========================================================================
# 2. Rendered documents whose source map follows text edits
# ===========================================================================


class Doc:
    def __init__(self, unit: Unit, style: Optional[render_bp.Style] = None):
        self.unit = unit
        self.style = style or render_bp.Style()
        self.lines: Dict[str, List[str]] = {}
        self.maps: Dict[str, List[render_bp.SrcEntry]] = {}
        self.marks: List[List[Any]] = []  # [filename, line] pairs that follow edits
        for f in unit.files:
            text, m = render_bp.render_file(f, self.style)
            ls = [l[:-1] if l.endswith("\r") else l for l in text.split("\n")]  # (texts() puts the line ends back)
            if ls and ls[-1] == "":
                ls.pop()
            self.lines[f.filename] = ls
            self.maps[f.filename] = m

    # -- lookups ------------------------------------------------------------

    def entry(self, f: File, kind: str, obj: Any, token: Optional[str] = None, nth: int = 0) -> render_bp.SrcEntry:
        k = 0
        for e in self.maps[f.filename]:
            if e.kind == kind and e.obj is obj and (token is None or e.token == token):
                if k == nth:
                    return e
                k += 1
        raise KeyError((f.filename, kind, token, nth))

    def def_line(self, f: File, d: Any) -> int:
        return self.entry(f, "def", d).line

    def member_line(self, f: File, e: Enum, name: str, nth: int = 0) -> int:
        return self.entry(f, "member", e, name, nth).line

    def import_lines(self, f: File) -> List[int]:
        """Line of each Import item of f, in item order (the renderer writes them in order)."""
        out = []
        pat = re.compile(r'^\s*import\s+(\w+\s+)?"')
        for i, l in enumerate(self.lines[f.filename]):
            if pat.match(l):
                out.append(i + 1)
        assert len(out) == len(f.imports()), (out, f.filename)
        return out

    def import_line(self, f: File, imp: Import) -> int:
        k = [i for i, x in enumerate(f.imports()) if x is imp][0]
        return self.import_lines(f)[k]

    def extent(self, f: File, d: Any) -> Tuple[int, int]:
        """First and last line of a brace-delimited definition (name line .. closing brace)."""
        start = self.def_line(f, d)
        depth = 0
        opened = False
        ls = self.lines[f.filename]
        for i in range(start - 1, len(ls)):
            code = ls[i].split("//", 1)[0]
            for ch in code:
                if ch == "{":
                    depth += 1
                    opened = True
                elif ch == "}":
                    depth -= 1
            if opened and depth == 0:
                return start, i + 1
        raise ValueError("unbalanced braces")

    def item_line(self, f: File, scope: Any, index: int) -> int:
        """Line before which a statement must be inserted to become item `index` of scope
        (index == number of items: just before the closing brace / at end of file)."""
        if isinstance(scope, Enum):
            if index < len(scope.members):
                return self.entry(f, "member", scope, scope.members[index][0]).line
            return self.extent(f, scope)[1]
        items = scope.items
        if index < len(items):
            it = items[index]
            if isinstance(it, Import):
                return self.import_line(f, it)
            return self.def_line(f, it)
        if isinstance(scope, File):
            return len(self.lines[f.filename]) + 1
        return self.extent(f, scope)[1]

    # -- edits --------------------------------------------------------------

    def mark(self, filename: str, line: int) -> List[Any]:
        m = [filename, line]
        self.marks.append(m)
        return m

    def insert(self, filename: str, before: int, new: List[str]) -> None:
        """Insert lines so that the first of them becomes line `before` (1-based)."""
        ls = self.lines[filename]
        assert 1 <= before <= len(ls) + 1, (before, len(ls))
        ls[before - 1 : before - 1] = new
        n = len(new)
        for e in self.maps[filename]:
            if e.line >= before:
                e.line += n
        for m in self.marks:
            if m[0] == filename and m[1] >= before:
                m[1] += n

    def delete(self, filename: str, line: int) -> None:
        ls = self.lines[filename]
        del ls[line - 1]
        assert not any(e.line == line for e in self.maps[filename]), "deleting a mapped line"
        for e in self.maps[filename]:
            if e.line > line:
                e.line -= 1
        for m in self.marks:
            if m[0] == filename and m[1] > line:
                m[1] -= 1

    def texts(self) -> Dict[str, str]:
        eol = "\r\n" if self.style.crlf else "\n"
        return {k: eol.join(v) + (eol if self.style.trailing_newline else "") for k, v in self.lines.items()}


@st.composite
def styles(draw: Any, lint_clean: bool = False) -> render_bp.Style:
    return render_bp.Style(
        indent=4 if lint_clean else draw(st.sampled_from([4, 4, 2, 8, 0, 3])),
        semicolons=draw(st.sampled_from(["none", "none", "all", "mixed"])),
        comments=draw(st.booleans()),
        blank_lines=draw(st.sampled_from([1, 1, 0, 2])),
        leading_blank=draw(st.sampled_from([0, 0, 1, 3])),
        hex_numbers=draw(st.booleans()),
        seed=draw(st.integers(0, 1 << 16)),
        spicy_comments=draw(st.booleans()),
        trailing_comments=(not lint_clean) and draw(st.booleans()),
        trailing_newline=lint_clean or draw(st.sampled_from([True, True, False])),
        crlf=draw(st.integers(0, 4)) == 1,
        proto_late=draw(st.integers(0, 3)) == 2,
        op_spacing=draw(st.booleans()),
    )


def shift_lines(draw: Any, doc: Doc, max_edits: int = 6) -> int:
    """Insert blank lines and comments at generated positions (always between two whole
    lines, which never changes what the schema declares).  Returns lines inserted."""
    total = 0
    for _ in range(draw(st.integers(0, max_edits))):
        fn = draw(st.sampled_from(sorted(doc.lines)))
        before = draw(st.integers(1, len(doc.lines[fn]) + 1))
        kind = draw(st.sampled_from(["blank", "comment", "block", "indented"]))
        if kind == "blank":
            new = [""] * draw(st.integers(1, 3))
        elif kind == "comment":
            new = ["// shifted"]
        elif kind == "indented":
            new = ["        // shifted, indented", ""]
        else:
            new = ["// shifted", "//", "// message Fake { uint99 x = 0 }", ""]
        doc.insert(fn, before, new)
        total += len(new)
    return total


# ===========================================================================
# 3. Injectors
# ===========================================================================


@dataclass
class Mutant:
    """A self-contained invalid schema with exactly one planted violation."""

    rule: str
    variant: str
    texts: Dict[str, str]
    main: str  # file name to compile
    allowed: List[Tuple[str, int]]  # acceptable (file name, line) citations
    exact: bool  # a single line is acceptable
    position: List[str]  # labels: where it was planted
    verdict: List[str]  # the rule checker's judgement of the mutated model ("rule: what")
    shifted: int = 0  # lines inserted above/around by shift_lines
    finding: Optional[str] = None  # shape of a recorded finding (exact predicate = the variant)


@dataclass
class Planted:
    rule: str
    variant: str
    file: File
    anchors: List[Tuple[Any, ...]] = field(default_factory=list)
    extras: List[Extra] = field(default_factory=list)
    raw: Optional[Tuple[Any, int, List[str], List[int]]] = None  # scope, item index, lines, offending line offsets
    depth: int = 0  # 0 statement at file scope, 1 inside a top-level message/enum, >= 2 deeper
    main: Optional[File] = None  # forced main file
    more_allowed: List[Tuple[File, Tuple[Any, ...]]] = field(default_factory=list)  # anchors in other files
    finding: Optional[str] = None


class Ctx:
    """Generated choices + bookkeeping shared by the injectors."""

    def __init__(self, draw: Any, unit: Unit):
        self.draw = draw
        self.unit = unit
        self.used: Set[str] = set()
        for f in unit.files:
            self.used.add(f.proto)
            for it in f.items:
                self.used.add(it.name)
            for m in iter_messages(f):
                self.used.add(m.name)
                for it in m.items:
                    self.used.add(it.name)
            for e in iter_enums(f):
                self.used.add(e.name)
                self.used.update(n for n, _ in e.members)
        self.referenced: Set[int] = set()
        for f in unit.files:
            for it in f.items:
                if isinstance(it, Alias):
                    self._note_refs(it.type)
            for m in iter_messages(f):
                for fl in m.fields():
                    self._note_refs(fl.type)

    def _note_refs(self, t: Any) -> None:
        if isinstance(t, TArray):
            self._note_refs(t.elem)
        elif isinstance(t, TRef) and t.target is not None:
            self.referenced.add(id(t.target))

    # -- choices ------------------------------------------------------------

    def int(self, lo: int, hi: int) -> int:
        return self.draw(st.integers(lo, hi))

    def one(self, xs: Sequence[Any]) -> Any:
        # a wide integer modulo n: spreads the choices more evenly over a few hundred examples than
        # sampled_from, whose generation heuristics favour the first entries
        xs = list(xs)
        return xs[self.draw(st.integers(0, (1 << 24) - 1)) % len(xs)]

    def coin(self, num: int = 1, den: int = 2) -> bool:
        return self.draw(st.integers(0, den - 1)) < num

    def fresh(self, words: Sequence[str], prefix: str = "") -> str:
        k = self.int(0, len(words) - 1)
        for off in range(len(words)):
            w = prefix + words[(k + off) % len(words)]
            if w not in self.used:
                self.used.add(w)
                return w
        n = 2
        while True:
            w = prefix + words[k] + ("Q" * n if words[k][0].isupper() else "_" + "q" * n)
            if w not in self.used:
                self.used.add(w)
                return w
            n += 1

    def type_name(self) -> str:
        return self.fresh(S.TYPE_WORDS)

    def field_name(self) -> str:
        return self.fresh(S.FIELD_WORDS)

    def const_name(self) -> str:
        return self.fresh(S.CONST_WORDS)

    def member_name(self) -> str:
        return self.fresh(S.MEMBER_WORDS, "EV_")

    def proto_name(self) -> str:
        return self.fresh(S.PROTO_WORDS)

    def file(self) -> File:
        """A file of the unit, biased towards imported ones (they are the rarer position)."""
        fs = self.unit.files
        if len(fs) > 1 and self.coin(1, 2):
            return self.one(fs[:-1])
        return self.one(fs)

    def depth_of(self, scope: Any) -> int:
        d = 0
        while not isinstance(scope, File):
            d += 1
            scope = scope.parent
        return d

    def file_of(self, scope: Any) -> File:
        while not isinstance(scope, File):
            scope = scope.parent
        return scope

    def put(self, scope: Any, item: Any, lo: int = 0) -> int:
        """Insert item into scope.items at a generated index >= lo."""
        idx = self.int(lo, len(scope.items))
        scope.items.insert(idx, item)
        item.parent = scope
        return idx

    def free_number(self, m: Message) -> int:
        used = {f.number for f in m.fields()}
        k = self.int(1, 255)
        for off in range(255):
            n = (k - 1 + off) % 255 + 1
            if n not in used:
                return n
        raise AssertionError("message with 255 fields")

    def new_message(self, scope: Any, lo: int = 0) -> Message:
        m = Message(self.type_name(), ext=self.coin(1, 4))
        self.put(scope, m, lo)
        return m

    def host_message(self, need_field: bool = False) -> Message:
        """A message nobody uses as a type (so changing its size disturbs nothing else):
        an existing one at any depth of any file, or a new one at file scope / nested."""
        cands = [m for f in self.unit.files for m in iter_messages(f) if id(m) not in self.referenced]
        r = self.int(0, 5)
        if cands and r <= 2:
            deep = [m for m in cands if not isinstance(m.parent, File)]
            m = self.one(deep) if deep and self.coin() else self.one(cands)
        elif r <= 4:
            outer = self.one([m for f in self.unit.files for m in iter_messages(f)])
            m = self.new_message(outer)
            if self.coin(1, 3):
                m = self.new_message(m)
        else:
            m = self.new_message(self.file())
        if need_field and not m.fields():
            self.add_field(m, self.small_type())
        return m

    def small_type(self) -> Any:
        r = self.int(0, 5)
        if r == 0:
            return TBase("bool")
        if r == 1:
            return TBase("byte")
        if r == 2:
            return TArray(TBase("uint", self.int(1, 16)), self.int(1, 4), ext=self.coin(1, 4))
        return TBase(self.one(["uint", "int"]), self.one([1, 3, 8, 13, 32, 64]))

    def add_field(self, m: Message, t: Any, name: Optional[str] = None, number: Optional[int] = None, lo: int = 0) -> Field:
        f = Field(name or self.field_name(), t, self.free_number(m) if number is None else number)
        self.put(m, f, lo)
        return f

    def top_index(self, scope: Any) -> Tuple[File, int]:
        """The file and index of the top-level item enclosing scope."""
        while not isinstance(scope.parent, File):
            scope = scope.parent
        f = scope.parent
        return f, [i for i, x in enumerate(f.items) if x is scope][0]

    def const_before(self, scope: Any, value: Any, text: Optional[str] = None) -> Const:
        """A new top-level constant declared before the top-level item enclosing scope."""
        f, idx = self.top_index(scope)
        c = Const(self.const_name(), value, text)
        f.items.insert(self.int(0, idx), c)
        c.parent = f
        return c

    def enum_host(self) -> Enum:
        """An existing enum anywhere, or a new one at file scope / nested."""
        cands = [e for f in self.unit.files for e in iter_enums(f)]
        if cands and self.coin(2, 3):
            return self.one(cands)
        e = Enum(self.type_name(), self.one([1, 2, 3, 7, 8, 9, 16, 31, 32, 33, 63, 64]))
        if self.coin():
            e.members.append((self.member_name(), 0))
        scope: Any = self.file() if self.coin() else self.one([m for f in self.unit.files for m in iter_messages(f)])
        self.put(scope, e)
        return e

    def ensure_import(self, f: File, fresh: bool = False) -> Import:
        """An import statement of f (a new tiny file is created when f has none, or on request)."""
        if not fresh and f.imports() and self.coin(3, 4):
            return self.one(f.imports())
        g = self.new_file()
        imp = Import(g, self.fresh(S.AS_WORDS) if self.coin(1, 3) else None)
        nimp = len(f.imports())
        f.items.insert(self.int(0, nimp), imp)
        imp.parent = f
        return imp

    def new_file(self) -> File:
        name = self.proto_name()
        g = File(name, name)
        m = Message(self.type_name())
        m.items.append(Field(self.field_name(), TBase("bool"), 1))
        g.items.append(m)
        self.unit.files.insert(0, g)
        set_parents(self.unit)
        return g

    def visible_top_types(self, f: File, before: int, kinds: Tuple[type, ...] = (Alias, Enum, Message)) -> List[Tuple[str, Any]]:
        """(text, definition) of named types usable by a top-level item at index `before` of f."""
        out: List[Tuple[str, Any]] = []
        for it in f.items[:before]:
            if isinstance(it, kinds):
                out.append((it.name, it))
            elif isinstance(it, Import):
                for x in it.file.items:
                    if isinstance(x, kinds):
                        out.append((it.name + "." + x.name, x))
        return out


# Each injector plants one violation and says where the compiler may point.


def inj_width(cx: Ctx) -> Planted:
    kind = cx.one(["uint", "int"])
    bits = cx.one([0, 65, 65, 66, 72, 100, 128, 256, 1000])
    site = cx.one(["field", "field", "field_array", "alias", "alias_array", "enum"])
    bad = TBase(kind, bits)
    if site == "enum":
        e = Enum(cx.type_name(), bits)
        if cx.coin() :
            e.members.append((cx.member_name(), 0))
        if bits > 1 and cx.coin():
            e.members.append((cx.member_name(), cx.one([1, 2, 255, (1 << 64) - 1])))
        scope: Any = cx.file() if cx.coin() else cx.one([m for f in cx.unit.files for m in iter_messages(f)])
        cx.put(scope, e)
        return Planted("width", f"enum:uint{bits}", cx.file_of(scope), [("def", e)], depth=cx.depth_of(scope))
    if site.startswith("alias"):
        f = cx.file()
        t: Any = bad if site == "alias" else TArray(bad, cx.int(1, 9), ext=cx.coin(1, 4))
        a = Alias(cx.type_name(), t, typedef_syntax=cx.coin(1, 5))
        cx.put(f, a)
        return Planted("width", f"{site}:{kind}{bits}", f, [("def", a)], depth=0)
    m = cx.host_message()
    t = bad if site == "field" else TArray(bad, cx.int(1, 9), ext=cx.coin(1, 4))
    fl = cx.add_field(m, t)
    return Planted("width", f"{site}:{kind}{bits}", cx.file_of(m), [("def", fl)], depth=cx.depth_of(m))


def inj_capacity(cx: Ctx) -> Planted:
    site = cx.one(["field", "alias", "alias"])
    by_const = cx.coin(1, 3)
    if site == "field":
        cap = 0  # 65536 elements in a field would also break the message size limit: aliases carry that side
        m = cx.host_message()
        t = TArray(_base(cx), cap, ext=cx.coin(1, 4))
        if by_const:
            c = cx.const_before(m, cap)
            t.cap_text, t.cap_const = c.name, c
        fl = cx.add_field(m, t)
        return Planted("capacity", f"field:{cap}{':const' if by_const else ''}", cx.file_of(m), [("def", fl)], depth=cx.depth_of(m))
    cap = cx.one([0, 65536, 65536, 65537, 100000, 1 << 20, 1 << 32])
    f = cx.file()
    t = TArray(_base(cx), cap, ext=cx.coin(1, 4))
    a = Alias(cx.type_name(), t, typedef_syntax=cx.coin(1, 5))
    idx = cx.put(f, a)
    if by_const:
        c = Const(cx.const_name(), cap, cx.one([None, f"{cap + 1} - 1", f"{cap} * 1"]) if cap else None)
        f.items.insert(cx.int(0, idx), c)
        c.parent = f
        t.cap_text, t.cap_const = c.name, c
    return Planted("capacity", f"alias:{cap}{':const' if by_const else ''}", f, [("def", a)], depth=0)


def _base(cx: Ctx) -> TBase:
    r = cx.int(0, 3)
    if r == 0:
        return TBase("bool")
    if r == 1:
        return TBase("byte")
    return TBase(cx.one(["uint", "int"]), cx.one([1, 2, 7, 8, 9, 31, 32, 33, 64]))


def inj_field_number(cx: Ctx) -> Planted:
    m = cx.host_message()
    if cx.coin(2, 5):
        if not m.fields():
            cx.add_field(m, _base(cx))
        twin = cx.one(m.fields())
        fl = cx.add_field(m, _base(cx), number=twin.number)
        return Planted("field_number", "duplicate", cx.file_of(m), [("def", fl), ("def", twin)], depth=cx.depth_of(m))
    n = cx.one([0, 256, 256, 257, 300, 1000, 65535, 65536, 1 << 32])
    fl = cx.add_field(m, _base(cx), number=n)
    return Planted("field_number", f"number:{n}", cx.file_of(m), [("def", fl)], depth=cx.depth_of(m))


def _enum_scope(cx: Ctx, e: Enum) -> Tuple[File, int]:
    return cx.file_of(e), cx.depth_of(e.parent)


def inj_enum_value(cx: Ctx) -> Planted:
    e = cx.enum_host()
    f, depth = _enum_scope(cx, e)
    top = 1 << e.bits
    if cx.coin(2, 5):
        if not e.members:
            e.members.append((cx.member_name(), cx.one([0, top - 1])))
        k = cx.int(0, len(e.members) - 1)
        name = cx.member_name()
        idx = cx.int(0, len(e.members))
        e.members.insert(idx, (name, e.members[k][1]))
        twin = e.members[k + 1 if idx <= k else k][0]
        return Planted("enum_value", "duplicate", f, [("member", e, name), ("member", e, twin)], depth=depth + 1)
    used = {v for _, v in e.members}
    v = cx.one([top, top, top + 1, top * 2, top * 2 - 1, max(top, 1 << 64), max(top, 1 << 70)])
    assert v not in used
    name = cx.member_name()
    e.members.insert(cx.int(0, len(e.members)), (name, v))
    return Planted("enum_value", f"overflow:uint{e.bits}:{'2^w' if v == top else '>2^w'}", f, [("member", e, name)], depth=depth + 1)


def inj_name(cx: Ctx) -> Planted:
    variant = cx.one(["field/field", "field/nested", "nested/field", "nested/nested", "top/top", "member/member", "def/import", "import/def", "import/import"])
    if variant in ("field/field", "field/nested", "nested/field", "nested/nested"):
        m = cx.host_message()
        first_kind, second_kind = variant.split("/")
        name = cx.field_name() if cx.coin() else cx.type_name()

        def make(kind: str, lo: int) -> Any:
            if kind == "field":
                return cx.add_field(m, _base(cx), name=name, lo=lo)
            d: Any = Enum(name, 3, [(cx.member_name(), 0)]) if cx.coin() else Message(name)
            cx.put(m, d, lo)
            return d

        a = make(first_kind, 0)
        ia = [i for i, x in enumerate(m.items) if x is a][0]
        b = make(second_kind, ia + 1)
        return Planted("name", variant, cx.file_of(m), [("def", a), ("def", b)], depth=cx.depth_of(m))
    if variant == "member/member":
        e = cx.enum_host()
        f, depth = _enum_scope(cx, e)
        used = {v for _, v in e.members}
        free = [v for v in range(0, min(1 << e.bits, 64)) if v not in used]
        if not e.members:
            e.members.append((cx.member_name(), free.pop(0)))
        if not free:  # a full 1..6-bit enum: make room by dropping one member
            gone = e.members.pop()
            free.append(gone[1])
        twin = cx.one(e.members)[0]
        e.members.append((twin, cx.one(free)))
        return Planted("name", variant, f, [("member", e, twin, 0), ("member", e, twin, 1)], depth=depth + 1)
    if variant == "top/top":
        f = cx.file()
        cands = [it for it in f.items if not isinstance(it, Import)]
        orig = cx.one(cands)
        io = [i for i, x in enumerate(f.items) if x is orig][0]
        d = _new_top_def(cx, orig.name)
        cx.put(f, d, io + 1)
        return Planted("name", f"top/top:{type(orig).__name__}/{type(d).__name__}", f, [("def", orig), ("def", d)], depth=0)
    f = cx.file()
    # (a name declared BEFORE an import that takes it would also capture the existing uses of that
    # import name: that variant uses an import nobody refers to, so that the violation stays single)
    imp = cx.ensure_import(f, fresh=(variant == "def/import"))
    ii = [i for i, x in enumerate(f.items) if x is imp][0]
    if variant == "def/import":
        # a definition declared before the import statement that takes its name
        d = _new_top_def(cx, imp.name)
        f.items.insert(cx.int(0, ii), d)
        d.parent = f
        return Planted("name", variant, f, [("def", d), ("import", imp)], depth=0)
    if variant == "import/def":
        d = _new_top_def(cx, imp.name)
        cx.put(f, d, ii + 1)
        return Planted("name", variant, f, [("def", d), ("import", imp)], depth=0)
    # two imports of different files binding one name
    g = cx.new_file()
    imp2 = Import(g, imp.name)
    cx.put(f, imp2, ii + 1)
    return Planted("name", variant, f, [("import", imp), ("import", imp2)], depth=0)


def _new_top_def(cx: Ctx, name: str) -> Any:
    k = cx.int(0, 3)
    if k == 0:
        return Const(name, cx.one([1, True, "s"]))
    if k == 1:
        return Alias(name, TArray(_base(cx), cx.int(1, 4)))
    if k == 2:
        return Enum(name, 4, [(cx.member_name(), 0)])
    m = Message(name)
    m.items.append(Field(cx.field_name(), _base(cx), 1))
    for x in m.items:
        x.parent = m
    return m


def build_sized_message(name: str, total: int, ext: bool, shape: str, fresh_type: Callable[[], str], parts: Sequence[int] = ()) -> Tuple[Message, List[Any]]:
    """A message of exactly `total` bits INCLUDING its own 16-bit prefix when extensible.
    Returns (message, helper definitions to declare before it)."""
    m = Message(name, ext=ext)
    body = total - (16 if ext else 0)
    helpers: List[Any] = []
    num = [0]

    def add(t: Any, fname: str) -> None:
        num[0] += 1
        m.items.append(Field(fname, t, num[0]))

    if shape == "bools":
        # one big bool array and single-bit fillers
        fill = parts[0] % 7 if parts else 0
        fill = min(fill, max(body - 1, 0))
        rest, k = body - fill, 0
        while rest > 0:
            n = min(rest, MAX_CAPACITY)
            add(TArray(TBase("bool"), n), "mark" if k == 0 else f"mark_{k}")
            rest -= n
            k += 1
        for k in range(fill):
            add(TBase("bool"), f"flags_{k}")
    elif shape == "words":
        q, r = divmod(body, 64)
        if q:
            add(TArray(TBase("uint", 64), q), "raw")
        if r:
            add(TBase("int" if (parts and parts[0] % 2) else "uint", r), "tail")
    elif shape == "ext_array":
        # an extensible array (its 16-bit prefix counts) of 13-bit elements plus a remainder
        inner = body - 16
        q, r = divmod(inner, 13)
        add(TArray(TBase("uint", 13), q, ext=True), "seq")
        if r:
            add(TBase("uint", r), "tail")
    elif shape == "children":
        # array of an extensible child message (each element carries its own prefix) plus remainder
        child = Message(fresh_type(), ext=True)
        child.items.append(Field("lat", TBase("int", 24), 1))
        child.items.append(Field("lon", TBase("uint", 7), 2))  # 16 + 24 + 7 = 47 bits
        helpers.append(child)
        q, r = divmod(body, 47)
        add(TArray(TRef(child.name, child), q), "cell")
        if r > 64:
            add(TArray(TBase("bool"), r), "mark")
        elif r:
            add(TBase("uint", r), "tail")
    elif shape == "nested_alias":
        # 2-D table through aliases, an extensible nested message used as a field, remainder in bytes/bits
        row = Alias(fresh_type(), TArray(TBase("byte"), 32))  # 256 bits
        table = Alias(fresh_type(), TArray(TRef(row.name, row), 100, ext=True))  # 16 + 25600
        helpers.extend([row, table])
        sub = Message(fresh_type(), ext=True)
        sub.items.append(Field("count", TBase("uint", 9), 1))  # 25 bits
        m.items.append(sub)
        add(TRef(table.name, table), "near")
        add(TRef(table.name, table), "far")
        add(TRef(sub.name, sub), "head")
        rest = body - 2 * 25616 - 25
        q, r = divmod(rest, 8)
        if q:
            add(TArray(TBase("byte"), q), "raw")
        if r:
            add(TBase("uint", r), "tail")
    else:
        raise ValueError(shape)
    for it in m.items:
        it.parent = m
        if isinstance(it, Message):
            for x in it.items:
                x.parent = it
    for h in helpers:
        if isinstance(h, Message):
            for x in h.items:
                x.parent = h
    return m, helpers


SIZE_SHAPES = ["bools", "words", "ext_array", "children", "nested_alias"]


def inj_size(cx: Ctx) -> Planted:
    if cx.coin(1, 2):
        # over 65535 bits, prefix included
        total = cx.one([65536, 65536, 65536, 65537, 65543, 65552, 70000, 131072, 524280])
        ext = cx.coin()
        shape = cx.one(SIZE_SHAPES)
        m, helpers = build_sized_message(cx.type_name(), total, ext, shape, cx.type_name, [cx.int(0, 13)])
        nested = cx.coin()
        scope: Any = cx.one([x for f in cx.unit.files for x in iter_messages(f)]) if nested else cx.file()
        f, top = (cx.top_index(scope) if nested else (scope, None))
        if nested:
            hidx = cx.int(0, top)
            for h in helpers:
                f.items.insert(hidx, h)
                h.parent = f
                hidx += 1
            # helper refs stay simple names: they are at file scope of the same file, declared earlier
            cx.put(scope, m)
        else:
            idx = cx.put(f, m)
            for k, h in enumerate(helpers):
                f.items.insert(idx + k, h)
                h.parent = f
        return Planted("size", f"bits:{'65536' if total == 65536 else '>65536'}:{'ext' if ext else 'plain'}:{shape}", f, [("extent", m)], depth=cx.depth_of(scope) if nested else 0)
    # max_bytes below the size
    m = cx.host_message()
    while message_bits(m) < 9:
        cx.add_field(m, TBase("uint", cx.one([8, 9, 17, 40])))
    nb = (message_bits(m) + 7) // 8
    m.max_bytes = nb - 1 if cx.coin(2, 3) else cx.int(1, nb - 1)
    return Planted("size", f"max_bytes:{'n-1' if m.max_bytes == nb - 1 else '<n-1'}", cx.file_of(m), [("extent", m)], depth=cx.depth_of(m))


def inj_alias(cx: Ctx) -> Planted:
    f = cx.file()
    idx = cx.int(0, len(f.items))
    cands = cx.visible_top_types(f, idx)
    if not cands or cx.coin(1, 4):
        d = _new_top_def(cx, cx.type_name())
        while isinstance(d, Const):
            d = _new_top_def(cx, d.name)
        f.items.insert(cx.int(0, idx), d)
        d.parent = f
        idx += 1
        cands = [(d.name, d)]
    text, d = cx.one(cands)
    a = Alias(cx.type_name(), TRef(text, d), typedef_syntax=cx.coin(1, 4))
    f.items.insert(idx, a)
    a.parent = f
    return Planted("alias", f"of:{type(d).__name__.lower()}{':imported' if '.' in text else ''}", f, [("def", a)], depth=0)


def inj_array_dim(cx: Ctx) -> Planted:
    dims = [cx.int(1, 4) for _ in range(cx.one([2, 2, 3]))]
    t: Any = _base(cx)
    for k, c in enumerate(dims):
        t = TArray(t, c, ext=(k == len(dims) - 1 and cx.coin(1, 4)))
    if cx.coin():
        f = cx.file()
        a = Alias(cx.type_name(), t)
        cx.put(f, a)
        return Planted("array_dim", f"alias:{len(dims)}d", f, [("def", a)], depth=0)
    m = cx.host_message()
    fl = cx.add_field(m, t)
    return Planted("array_dim", f"field:{len(dims)}d", cx.file_of(m), [("def", fl)], depth=cx.depth_of(m))


def inj_scope(cx: Ctx) -> Planted:
    """Statements in scopes that forbid them -- planted at text level (the model cannot hold them)."""
    where = cx.one(["message", "message", "enum", "enum", "file"])
    finding = None
    if where == "message":
        scope: Any = cx.one([m for f in cx.unit.files for m in iter_messages(f)])
        what = cx.one(["alias", "typedef", "const", "import", "import_as", "proto", "member"])
    elif where == "enum":
        scope = cx.enum_host()
        what = cx.one(["alias", "typedef", "const", "import", "proto", "option", "enum", "message", "field"])
    else:
        scope = cx.file()
        what = cx.one(["field", "member"])
    f = cx.file_of(scope)
    n_items = len(scope.members) if isinstance(scope, Enum) else len(scope.items)
    index = cx.int(0, n_items)
    off = [0]
    kind = what
    if what == "alias":
        name = cx.type_name()
        lines = [f"type {name} = {_base(cx).text()}"]
    elif what == "typedef":
        name = cx.type_name()
        lines = [f"typedef {_base(cx).text()}[{cx.int(1, 5)}] {name}"]
        kind = "alias"
    elif what == "const":
        name = cx.const_name()
        lines = [f"const {name} = {cx.one(['7', 'true', chr(34) + 'x' + chr(34), '2 * 3'])}"]
    elif what in ("import", "import_as"):
        g = cx.new_file()
        name = g.proto
        lines = [f'import {cx.fresh(S.AS_WORDS) + " " if what == "import_as" else ""}"{g.filename}"']
        kind = "import"
        finding = "C08-N1" if where == "message" else "C08-N2"
    elif what == "proto":
        name = cx.proto_name()
        lines = [f"proto {name}"]
    elif what == "option":
        name = "max_bytes"
        lines = ["option max_bytes = 4"]
    elif what == "enum":
        name = cx.type_name()
        lines = [f"enum {name} : uint{cx.int(1, 8)} {{", "}"]
    elif what == "message":
        name = cx.type_name()
        lines = [f"message {name} {{", "}"]
        off = [0, 1]
    elif what == "field":
        name = cx.field_name()
        lines = [f"{_base(cx).text()} {name} = {cx.int(1, 255)}"]
    else:
        name = cx.member_name()
        lines = [f"{name} = {cx.int(0, 1)}"]
    if what == "enum":
        off = [0, 1]
    ex = Extra(scope, kind, name)
    return Planted("scope", f"{what}-in-{where}", f, extras=[ex], raw=(scope, index, lines, off), depth=cx.depth_of(scope), finding=finding)


def inj_option(cx: Ctx) -> Planted:
    """Unknown / wrong-typed / out-of-range options, planted at text level at a generated position."""
    where = cx.one(["file", "message"])
    q = chr(34)
    if where == "file":
        scope: Any = cx.file()
        choice = cx.one(
            [
                ("unknown", "foo.bar", 1, "1"),
                ("unknown", "c.name_suffix", "x", q + "x" + q),
                ("unknown", "cpp.namespace", "ns", q + "ns" + q),
                ("unknown", "max_bytes", 16, "16"),  # a message option at file scope
                ("unknown", "unknown_option", True, "true"),
                ("type", "c.name_prefix", 1, "1"),
                ("type", "c.name_prefix", True, "yes"),
                ("type", "go.package_path", 7, "0x7"),
                ("type", "py.module_name", False, "false"),
                ("type", "c.struct_packing_alignment", "4", q + "4" + q),
                ("type", "c.struct_packing_alignment", True, "true"),
                ("range", "c.struct_packing_alignment", 9, "9"),
                ("range", "c.struct_packing_alignment", 16, "16"),
                ("range", "c.struct_packing_alignment", 255, "0xff"),
                ("range", "c.struct_packing_alignment", 1 << 32, str(1 << 32)),
            ]
        )
    else:
        scope = cx.one([m for f in cx.unit.files for m in iter_messages(f) if m.max_bytes is None])
        choice = cx.one(
            [
                ("unknown", "c.name_prefix", "x", q + "x" + q),  # a file option in a message
                ("unknown", "max_byte", 3, "3"),
                ("unknown", "min_bytes", 0, "0"),
                ("type", "max_bytes", "8", q + "8" + q),
                ("type", "max_bytes", True, "true"),
                ("type", "max_bytes", False, "no"),
                ("range", "max_bytes", -1, None),
                ("range", "max_bytes", -8191, None),
            ]
        )
    sub, name, value, text = choice
    f = cx.file_of(scope)
    if text is None:  # negative numbers exist only as constant expressions
        c = cx.const_before(scope, value, f"0 - {-value}" if cx.coin() else f"{7 + value} - 7" if value > -7 else f"1 - {1 - value}")
        text = c.name
    index = cx.int(0, len(scope.items))
    ex = Extra(scope, "option", name, value)
    return Planted("option", f"{sub}:{where}:{name}", f, extras=[ex], raw=(scope, index, [f"option {name} = {text}"], [0]), depth=cx.depth_of(scope))


def inj_reference(cx: Ctx) -> Planted:
    variant = cx.one(
        [
            "type:undefined",
            "type:undefined-dotted",
            "type:later",
            "type:self",
            "type:nested-later",
            "type:const",
            "type:import-name",
            "type:enum-member",
            "type:parent-file",
            "type:undefined-in-import",
            "type:not-imported-here",
            "type:nested-unqualified",
            "type:nested-just-closed",
            "type:through-alias",
            "type:through-imported-alias",
            "cap:through-const",
            "arith:through-const",
            "cap:undefined",
            "cap:later",
            "cap:type",
            "cap:string",
            "cap:bool",
            "arith:string",
            "arith:bool",
            "arith:undefined",
            "arith:type",
            "value:type",
        ]
    )
    if variant.startswith("arith") or variant.startswith("value"):
        f = cx.file()
        idx = cx.int(0, len(f.items))
        sub = variant.split(":")[1]
        if sub == "undefined":
            ref = cx.const_name()
        elif sub == "through-const":
            # more components after a LEAF definition: `K.x` names nothing, although `K` does
            c0 = Const(cx.const_name(), cx.int(1, 9))
            f.items.insert(cx.int(0, idx), c0)
            c0.parent = f
            idx += 1
            ref = c0.name + "." + cx.one(["x", "value", "K", c0.name])
        elif sub == "type":
            cands = [(t, d) for t, d in cx.visible_top_types(f, idx)]
            if not cands:
                d = _new_top_def(cx, cx.type_name())
                while isinstance(d, Const):
                    d = _new_top_def(cx, d.name)
                f.items.insert(0, d)
                d.parent = f
                idx += 1
                cands = [(d.name, d)]
            ref = cx.one(cands)[0]
        else:
            c0 = Const(cx.const_name(), "abc" if sub == "string" else cx.coin())
            f.items.insert(cx.int(0, idx), c0)
            c0.parent = f
            idx += 1
            ref = c0.name
        if variant.startswith("value"):
            text, usage = ref, "value"
        else:
            text = cx.one([f"{ref} + 1", f"2 * {ref}", f"({ref})", f"({ref} - 0) / 1", f"8 - {ref}"])
            usage = "arith"
        c = Const(cx.const_name(), 0, text)
        c.expr_refs = [(ref, usage)]  # type: ignore[attr-defined]
        f.items.insert(idx, c)
        c.parent = f
        return Planted("reference", variant, f, [("def", c)], depth=0)

    if variant == "type:parent-file":
        # a file sees only its own declarations and imports, not those of the file importing it
        f = cx.file()
        imp = cx.ensure_import(f)
        f = imp.parent
        ii = [i for i, x in enumerate(f.items) if x is imp][0]
        d = _new_top_def(cx, cx.type_name())
        while isinstance(d, Const):
            d = _new_top_def(cx, d.name)
        f.items.insert(cx.int(0, ii), d)
        d.parent = f
        g = imp.file
        m = cx.one(list(iter_messages(g)))
        fl = cx.add_field(m, TRef(d.name, None))
        return Planted("reference", variant, g, [("def", fl)], depth=cx.depth_of(m), main=f)

    m = cx.host_message()
    f = cx.file_of(m)
    _, top = cx.top_index(m)
    t: Any
    if variant == "type:undefined":
        t = TRef(cx.type_name(), None)
    elif variant == "type:undefined-dotted":
        outer = cx.one([x.name for x in f.items[:top] if isinstance(x, (Message, Enum))] or [cx.type_name()])
        t = TRef(outer + "." + cx.type_name(), None)
    elif variant == "type:undefined-in-import":
        imp = cx.ensure_import(f)
        _, top = cx.top_index(m)
        ii = [i for i, x in enumerate(f.items) if x is imp][0]
        if ii > top:  # make the import statement precede the use
            f.items.remove(imp)
            f.items.insert(cx.int(0, top), imp)
        t = TRef(imp.name + "." + cx.type_name(), None)
    elif variant == "type:not-imported-here":
        # f imports g, g imports h: h's definitions are `g.h.X` here, never `h.X`
        imp_g = cx.ensure_import(f)
        imp_h = cx.ensure_import(imp_g.file)
        _, top = cx.top_index(m)
        ii = [i for i, x in enumerate(f.items) if x is imp_g][0]
        if ii > top:
            f.items.remove(imp_g)
            f.items.insert(cx.int(0, top), imp_g)
        xs = [x for x in imp_h.file.items if isinstance(x, (Alias, Enum, Message))]
        if any(x.name == imp_h.name for x in f.items) or not xs:
            t = TRef(cx.type_name(), None)
            variant = "type:undefined"
        else:
            t = TRef(imp_h.name + "." + cx.one(xs).name, None)
    elif variant == "type:nested-unqualified":
        # a type nested in another message is visible outside only through a dotted path
        outer = Message(cx.type_name())
        inner: Any = Message(cx.type_name()) if cx.coin() else Enum(cx.type_name(), 2, [(cx.member_name(), 0)])
        outer.items.append(inner)
        f.items.insert(cx.int(0, top), outer)
        set_parents(cx.unit)
        t = TRef(inner.name, None)
    elif variant == "type:nested-just-closed":
        # a type nested one level deeper, legitimately USED inside its own scope, then named bare by the
        # enclosing message right after that scope closed (nothing else opened in between): still out of scope
        kind: Any = Enum(cx.type_name(), 2, [(cx.member_name(), 0)]) if cx.coin() else Message(cx.type_name())
        inner = Message(cx.type_name())
        inner.items.append(kind)
        inner.items.append(Field(cx.field_name(), TRef(kind.name, kind), 1))
        m.items.append(inner)
        set_parents(cx.unit)
        if cx.coin():
            m.items.append(Field(cx.field_name(), TRef(inner.name, inner), cx.free_number(m)))
            set_parents(cx.unit)
        fl = Field(cx.field_name(), TRef(kind.name, None), cx.free_number(m))
        m.items.append(fl)
        set_parents(cx.unit)
        return Planted("reference", variant, f, [("def", fl)], depth=cx.depth_of(m))
    elif variant == "type:later":
        d = _new_top_def(cx, cx.type_name())
        while isinstance(d, Const):
            d = _new_top_def(cx, d.name)
        cx.put(f, d, top + 1)
        t = TRef(d.name, None)
    elif variant == "type:self":
        host = m
        if not isinstance(m.parent, File) and cx.coin():
            host = m.parent  # an enclosing, still open message
        t = TRef(host.name, None)
    elif variant == "type:nested-later":
        fl = cx.add_field(m, TBase("bool"))
        i0 = [i for i, x in enumerate(m.items) if x is fl][0]
        d = Enum(cx.type_name(), 3, [(cx.member_name(), 0)]) if cx.coin() else Message(cx.type_name())
        cx.put(m, d, i0 + 1)
        fl.type = TRef(d.name, None)
        return Planted("reference", variant, f, [("def", fl)], depth=cx.depth_of(m))
    elif variant == "type:const":
        c = cx.const_before(m, cx.one([3, True, "s"]))
        t = TRef(c.name, None)
    elif variant == "type:import-name":
        imp = cx.ensure_import(f)
        _, top = cx.top_index(m)
        ii = [i for i, x in enumerate(f.items) if x is imp][0]
        if ii > top:
            f.items.remove(imp)
            f.items.insert(cx.int(0, top), imp)
        t = TRef(imp.name, None)
    elif variant == "type:through-alias":
        # more components after a LEAF definition: `Word.x` names nothing, although `Word` does
        a = Alias(cx.type_name(), TBase("uint", cx.int(1, 64)))
        f.items.insert(cx.int(0, top), a)
        a.parent = f
        t = TRef(a.name + "." + cx.one(["x", "Inner", a.name, "size"]), None)
    elif variant == "type:through-imported-alias":
        imp = cx.ensure_import(f)
        _, top = cx.top_index(m)
        ii = [i for i, x in enumerate(f.items) if x is imp][0]
        if ii > top:
            f.items.remove(imp)
            f.items.insert(cx.int(0, top), imp)
        a = Alias(cx.type_name(), TBase("uint", cx.int(1, 64)))
        imp.file.items.append(a)
        a.parent = imp.file
        t = TRef(imp.name + "." + a.name + "." + cx.one(["x", "Inner", a.name]), None)
    elif variant == "type:enum-member":
        e = Enum(cx.type_name(), 3, [(cx.member_name(), 1)])
        f.items.insert(cx.int(0, top), e)
        e.parent = f
        t = TRef(e.name + "." + e.members[0][0], None)
    elif variant.startswith("cap:"):
        sub = variant.split(":")[1]
        t = TArray(_base(cx), cx.int(1, 4), ext=cx.coin(1, 4))
        if sub == "undefined":
            t.cap_text = cx.const_name()
        elif sub == "through-const":
            c = cx.const_before(m, cx.int(1, 4))
            t.cap_text = c.name + "." + cx.one(["x", "value", c.name])
        elif sub == "later":
            c = Const(cx.const_name(), t.cap)
            cx.put(f, c, top + 1)
            t.cap_text, t.cap_const = c.name, c
        elif sub == "type":
            d = _new_top_def(cx, cx.type_name())
            while isinstance(d, Const):
                d = _new_top_def(cx, d.name)
            f.items.insert(cx.int(0, top), d)
            d.parent = f
            t.cap_text = d.name
        else:
            c = cx.const_before(m, "4" if sub == "string" else True)
            t.cap_text = c.name
    else:
        raise ValueError(variant)
    if not isinstance(t, TArray) and cx.coin(1, 4):
        t = TArray(t, cx.int(1, 3))
    fl = cx.add_field(m, t)
    return Planted("reference", variant, f, [("def", fl)], depth=cx.depth_of(m))


def inj_import(cx: Ctx) -> Planted:
    def respell(imp: Import) -> None:
        # the SAME file under another spelling of its path is still the same file
        if cx.coin():
            imp.spelling = cx.one(["./", "./", "././", ".//"]) + imp.file.filename

    variant = cx.one(["self", "self", "cycle2", "cycle2", "cycle3", "duplicate", "duplicate"])
    if variant == "self":
        f = cx.file()
        imp = Import(f, cx.fresh(S.AS_WORDS) if cx.coin() else None)
        respell(imp)
        cx.put(f, imp)
        return Planted("import", "self", f, [("import", imp)], depth=0)
    if variant == "duplicate":
        f = cx.file()
        imp = cx.ensure_import(f)
        f = imp.parent
        other_as = cx.fresh(S.AS_WORDS)
        imp2 = Import(imp.file, other_as)
        if imp.as_name is not None and cx.coin() and imp.file.proto not in [x.name for x in f.items]:
            imp2.as_name = None  # `import "x"` next to `import y "x"`
        respell(imp2)
        cx.put(f, imp2)
        return Planted("import", "duplicate", f, [("import", imp), ("import", imp2)], depth=0)
    # cycles: the edge back is planted in a (transitively) imported file
    f = cx.file()
    imp = cx.ensure_import(f)
    f = imp.parent
    g = imp.file
    chain = [(f, imp)]
    if variant == "cycle3":
        imp_g = cx.ensure_import(g)
        chain.append((g, imp_g))
        g = imp_g.file
    back = Import(f, cx.fresh(S.AS_WORDS) if cx.coin(1, 3) else None)
    respell(back)
    cx.put(g, back)
    # compiled from f (from elsewhere a second, unrelated path could close another cycle first)
    p = Planted("import", f"cycle{len(chain) + 1}", g, [("import", back)], depth=0, main=f)
    p.more_allowed = [(ff, ("import", ii)) for ff, ii in chain]
    return p


# rules with many variants get a double share of the generated mutants
WEIGHTED_RULES: List[str] = list(RULES) + ["scope", "name", "reference", "option"]

INJECTORS: Dict[str, Callable[[Ctx], Planted]] = {
    "width": inj_width,
    "capacity": inj_capacity,
    "field_number": inj_field_number,
    "enum_value": inj_enum_value,
    "name": inj_name,
    "size": inj_size,
    "alias": inj_alias,
    "array_dim": inj_array_dim,
    "scope": inj_scope,
    "option": inj_option,
    "reference": inj_reference,
    "import": inj_import,
}
assert tuple(INJECTORS) == RULES


# ---------------------------------------------------------------------------
# Valid decoration: the options the common generator does not produce
# ---------------------------------------------------------------------------


def decorate(draw: Any, unit: Unit, skip: Sequence[Any] = (), exact_bias: bool = True) -> List[str]:
    """Adds VALID options to a unit: message max_bytes (exactly nbytes, larger, or 0 = no
    limit) and file options with documented names/types/ranges.  Returns labels."""
    labels: List[str] = []
    for f in unit.files:
        for m in iter_messages(f):
            if any(m is s for s in skip) or m.max_bytes is not None:
                continue
            r = draw(st.integers(0, 9))
            if r > 3:
                continue
            try:
                nb = (message_bits(m) + 7) // 8
            except (AttributeError, TypeError, RecursionError):
                continue  # holds the planted unresolved reference
            if r == 0 or (r == 1 and exact_bias):
                m.max_bytes = nb
                if nb > 0:
                    labels.append("max_bytes==nbytes")
                else:
                    labels.append("max_bytes=0")
            elif r == 2:
                m.max_bytes = 0
                labels.append("max_bytes=0")
            else:
                m.max_bytes = nb + draw(st.sampled_from([1, 2, 100, 8191]))
                labels.append("max_bytes>nbytes")
        if not f.options and draw(st.integers(0, 3)) == 0:
            pool = [
                ("c.struct_packing_alignment", draw(st.sampled_from([0, 1, 2, 4, 8, 8]))),
                ("c.name_prefix", draw(st.sampled_from(["", "x_", "Drone"]))),
                ("go.package_path", draw(st.sampled_from(["", "example.com/x/" + f.proto]))),
                ("py.module_name", draw(st.sampled_from(["", f.base + "_bp"]))),
            ]
            chosen = [o for o in pool if draw(st.booleans())]
            f.options = chosen
            for n, v in chosen:
                labels.append("option:" + n)
    return labels


# ---------------------------------------------------------------------------
# The strategy
# ---------------------------------------------------------------------------

FEATURES = S.Features(xfile_nested=True, transitive_ref=True, empty_enum=True, max_defs=5, max_fields=6)


def finish(draw: Any, unit: Unit, p: Planted, style: render_bp.Style, shift: bool = False) -> Mutant:
    """Render, resolve the anchors to lines, apply the text-level part, choose the main file."""
    set_parents(unit)
    # main file: any file that has to read the planted one
    if p.main is not None:
        main = p.main
    else:
        cands = [f for f in unit.files if reachable(f, p.file)]
        importers = [f for f in cands if f is not p.file]
        main = draw(st.sampled_from(importers)) if importers and draw(st.integers(0, 3)) > 0 else p.file
    verdict = problems(unit, main, p.extras)
    doc = Doc(unit, style)
    allowed: List[List[Any]] = []

    def resolve(f: File, a: Tuple[Any, ...]) -> None:
        if a[0] == "def":
            allowed.append(doc.mark(f.filename, doc.def_line(f, a[1])))
        elif a[0] == "member":
            allowed.append(doc.mark(f.filename, doc.member_line(f, a[1], a[2], a[3] if len(a) > 3 else 0)))
        elif a[0] == "import":
            allowed.append(doc.mark(f.filename, doc.import_line(f, a[1])))
        elif a[0] == "extent":
            lo, hi = doc.extent(f, a[1])
            for ln in range(lo, hi + 1):
                allowed.append(doc.mark(f.filename, ln))
        else:
            raise ValueError(a)

    for a in p.anchors:
        resolve(p.file, a)
    for f, a in p.more_allowed:
        resolve(f, a)
    if p.raw is not None:
        scope, index, lines, offs = p.raw
        at = doc.item_line(p.file, scope, index)
        ind = " " * (style.indent * _depth_of(scope))
        doc.insert(p.file.filename, at, [ind + l for l in lines])
        for o in offs:
            allowed.append(doc.mark(p.file.filename, at + o))
    shifted = shift_lines(draw, doc) if shift else 0
    pos = ["pos:file-scope" if p.depth == 0 else "pos:in-message-or-enum" if p.depth == 1 else "pos:nested"]
    if main is not p.file:
        pos.append("pos:imported-file")
        if not any(i.file is p.file for i in main.imports()):
            pos.append("pos:imported-transitively")
    else:
        pos.append("pos:main-file")
    al = sorted({(a[0], a[1]) for a in allowed})
    return Mutant(
        rule=p.rule,
        variant=p.variant,
        texts=doc.texts(),
        main=main.filename,
        allowed=al,
        exact=len(al) == 1,
        position=pos,
        verdict=[f"{x.rule}: {x.what} [{x.file}]" for x in verdict],
        shifted=shifted,
        finding=p.finding,
    )


def _depth_of(scope: Any) -> int:
    d = 0
    while not isinstance(scope, File):
        d += 1
        scope = scope.parent
    return d


@st.composite
def mutants(draw: Any, rules: Sequence[str] = RULES, shift: bool = False, lint_clean_style: bool = False) -> Mutant:
    unit = draw(S.units(FEATURES))
    rule = draw(st.sampled_from(list(rules)))
    cx = Ctx(draw, unit)
    p = INJECTORS[rule](cx)
    set_parents(unit)
    skip = [a[1] for a in p.anchors if a[0] == "extent"] + ([p.raw[0]] if p.raw is not None else [])
    decorate(draw, unit, skip=skip)
    style = draw(styles(lint_clean=lint_clean_style))
    return finish(draw, unit, p, style, shift=shift)


def verdict_ok(m: Mutant) -> bool:
    """The rule checker found exactly the planted problem."""
    return len(m.verdict) == 1 and m.verdict[0].startswith(m.rule + ":")


# ===========================================================================
# 4. Self test
# ===========================================================================


def selftest(n_valid: int = 60, n_mutants: int = 240) -> None:
    """Valid-by-construction units must be judged valid by the rule checker (from every
    file as main); every mutant must be judged to have exactly the planted problem, and
    the lines it allows must exist."""
    import hypothesis
    from hypothesis import HealthCheck, Phase, given, settings

    common = dict(database=None, deadline=None, suppress_health_check=list(HealthCheck), phases=[Phase.generate], derandomize=True)

    @st.composite
    def decorated(draw: Any) -> Unit:
        u = draw(S.units(FEATURES))
        decorate(draw, u)
        return u

    @settings(max_examples=n_valid, **common)
    @given(decorated())
    def valid(u: Unit) -> None:
        for f in u.files:
            ps = problems(u, f)
            assert not ps, f"rule checker rejects a valid-by-construction unit: {ps[:3]} in {render_bp.render_unit(u)}"

    @settings(max_examples=n_mutants, **common)
    @given(mutants(shift=True))
    def invalid(m: Mutant) -> None:
        assert verdict_ok(m), f"injector {m.rule}/{m.variant}: rule checker says {m.verdict}\n{m.texts}"
        assert m.allowed, m
        for fn, ln in m.allowed:
            assert 1 <= ln <= len(m.texts[fn].split("\n")), (fn, ln)

    valid()
    invalid()
