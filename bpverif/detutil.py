"""Helpers of C17/C18: run the compiler in a described configuration and hash what it wrote.

Nothing here looks into bitproto: a compilation is observed only through exit
status, stderr and the bytes of the files it leaves behind."""

from __future__ import annotations

import hashlib
import os
from dataclasses import dataclass
from typing import Any, Dict, List, Optional, Tuple

from . import bpapi, env

SRC_SUFFIX = ".bitproto"


def sha_file(path: str) -> str:
    with open(path, "rb") as f:
        return hashlib.sha256(f.read()).hexdigest()


def outputs(root: str) -> Dict[str, str]:
    """basename -> sha256 of every regular file under root that is not a schema source.
    A basename occurring twice (two output locations) is reported as a list-like key so
    that it can never compare equal to a single-location result by accident."""
    out: Dict[str, str] = {}
    for d, _dirs, files in sorted(os.walk(root)):
        for n in sorted(files):
            if n.endswith(SRC_SUFFIX):
                continue
            key = n
            while key in out:
                key += "#dup"
            out[key] = sha_file(os.path.join(d, n))
    return out


def output_texts(root: str) -> Dict[str, str]:
    out: Dict[str, str] = {}
    for d, _dirs, files in sorted(os.walk(root)):
        for n in sorted(files):
            if n.endswith(SRC_SUFFIX):
                continue
            with open(os.path.join(d, n), newline="") as f:
                out[n] = f.read()
    return out


@dataclass
class Opts:
    """What is compiled: the options that are allowed to influence the output."""

    lang: str
    optimize: bool = False
    endian: str = "both"
    filt: Optional[Tuple[str, ...]] = None

    def key(self) -> Tuple[Any, ...]:
        return (self.lang, self.optimize, self.endian, self.filt)

    def cli_flags(self) -> List[str]:
        a: List[str] = []
        if self.optimize:
            a.append("-O")
        if self.filt is not None:
            a += ["-F", ",".join(self.filt)]
        if self.endian != "both":
            a += ["--endian", self.endian]
        return a

    def text(self) -> str:
        return " ".join([self.lang] + self.cli_flags())


@dataclass
class Shape:
    """How it is invoked: nothing of this may influence the output (C18)."""

    hashseed: str = "0"  # value of PYTHONHASHSEED ("random" allowed)
    cwd: str = "other"  # 'src' (directory of the schema) | 'other'
    pathform: str = "abs"  # 'abs' | 'rel' (relative to cwd)
    outdir: str = "abs"  # 'abs' | 'rel' explicit output directory | 'default' (none given)
    quiet: bool = False  # -q
    environ: str = ""  # '' | 'east' | 'west': another clock zone (26 hours apart, so the DATE differs), user, home, terminal
    decoys: bool = False  # the working directory holds OTHER files under the relative paths of the unit's files
    stale: str = ""  # '' | 'long' | 'short': the output directory already holds files with the names about to be written

    def text(self) -> str:
        return f"PYTHONHASHSEED={self.hashseed} cwd={self.cwd} path={self.pathform} outdir={self.outdir}{' -q' if self.quiet else ''}{' stale-' + self.stale + '-outputs-present' if self.stale else ''}{' same-named-decoy-files-in-cwd' if self.decoys else ''}{' environment-' + self.environ if self.environ else ''}"


CANONICAL = Shape()


@dataclass
class CliRun:
    code: int
    stderr: str
    files: Dict[str, str]  # basename -> sha256
    args: List[str]
    root: str


def run_fresh(texts: Dict[str, str], main: str, opts: Opts, shape: Shape = CANONICAL, keep: bool = False) -> CliRun:
    """Writes the schema files into a new private directory and compiles `main` with the real
    command line in a fresh interpreter process."""
    root = env.scratch_dir("f")
    src = os.path.join(root, "src")
    other = os.path.join(root, "other")
    out = os.path.join(root, "out")
    for d in (src, other, out):
        os.makedirs(d)
    bpapi.write_files(src, texts)
    cwd = src if shape.cwd == "src" else other
    if shape.decoys and shape.cwd != "src":
        # files of the same relative names, but other content, where the compiler RUNS: imports are relative to the
        # importing file, never to the working directory
        for name in texts:
            pname = os.path.splitext(os.path.basename(name))[0].split(".")[0].replace("-", "_")
            bpapi.write_files(other, {name: f"proto {pname}\n\nmessage DecoyOnly {{\n    uint7 decoy = 1\n}}\n"})
    path = os.path.join(src, main)
    if shape.pathform == "rel":
        path = os.path.relpath(path, cwd)
    args = [opts.lang, path]
    if shape.outdir == "abs":
        args.append(out)
    elif shape.outdir == "rel":
        args.append(os.path.relpath(out, cwd))
    args += opts.cli_flags()
    if shape.quiet:
        args.append("-q")
    if shape.stale:
        # an output directory that was used before: files of the names about to be written exist already
        # (longer resp. shorter than any real output); they must be REPLACED, whatever they held
        where = os.path.dirname(os.path.join(src, main)) if shape.outdir == "default" else out
        base = os.path.splitext(os.path.basename(main))[0] + "_bp"
        for ext in {"c": (".h", ".c"), "go": (".go",), "py": (".py",)}[opts.lang]:
            with open(os.path.join(where, base + ext), "w") as fh:
                fh.write("// stale output of an earlier compilation\n" * (40000 if shape.stale == "long" else 1))
    extra = {"PYTHONHASHSEED": shape.hashseed}
    if shape.environ:
        # nothing of the environment may reach the output: the two zones are 26 hours apart, so even a DATE differs
        east = shape.environ == "east"
        extra.update(
            {
                "TZ": "Pacific/Kiritimati" if east else "Etc/GMT+12",
                "USER": "alice" if east else "bob",
                "LOGNAME": "alice" if east else "bob",
                "HOME": other,
                "HOSTNAME": "build-east" if east else "build-west",
                "TERM": "dumb" if east else "xterm-256color",
                "COLUMNS": "20" if east else "200",
                "NO_COLOR": "1" if east else "",
                "LANG": "C.UTF-8",
                "SOURCE_DATE_EPOCH": "86400" if east else "1700000000",
            }
        )
    r = bpapi.cli(args, cwd=cwd, env_extra=extra)
    res = CliRun(r.returncode, r.stderr, outputs(root), args, root)
    if not keep:
        env.rmtree(root)
    return res
