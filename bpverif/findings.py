"""Known-findings file (committed, never written at run time)."""

from __future__ import annotations

import json
import os
from typing import Dict

from . import env

PATH = os.path.join(env.VERIF_ROOT, "known_findings.json")


DIR = os.path.join(env.VERIF_ROOT, "known_findings.d")


def load() -> Dict[str, dict]:
    """known_findings.json plus known_findings.d/*.json (same format; committed)."""
    out: Dict[str, dict] = {}
    paths = [PATH] if os.path.exists(PATH) else []
    if os.path.isdir(DIR):
        paths += [os.path.join(DIR, n) for n in sorted(os.listdir(DIR)) if n.endswith(".json")]
    for p in paths:
        with open(p) as f:
            data = json.load(f)
        for e in data.get("findings", []):
            if e["id"] in out:
                # same finding listed for several properties: merge the property lists
                out[e["id"]]["properties"] = sorted(set(out[e["id"]].get("properties", [])) | set(e.get("properties", [])))
            else:
                out[e["id"]] = e
    return out


def is_known(fid: str, prop: str) -> bool:
    e = load().get(fid)
    return bool(e and e.get("status") == "known" and prop in e.get("properties", []))
