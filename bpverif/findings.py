"""Known-findings file (committed, never written at run time)."""

from __future__ import annotations

import json
import os
from typing import Dict

from . import env

PATH = os.path.join(env.VERIF_ROOT, "known_findings.json")


def load() -> Dict[str, dict]:
    if not os.path.exists(PATH):
        return {}
    with open(PATH) as f:
        data = json.load(f)
    return {e["id"]: e for e in data.get("findings", [])}


def is_known(fid: str, prop: str) -> bool:
    e = load().get(fid)
    return bool(e and e.get("status") == "known" and prop in e.get("properties", []))
