"""Executable specification, independent of bitproto.

Written from docs/language.rst and the property statements.  Deliberately
naive: bit lists, no masks/shifts/byte cursors shared with the code under test.
"""

from __future__ import annotations

from typing import Any, Callable, Dict, Iterator, List, Optional, Tuple

from .model import (
    Alias,
    Enum,
    Field,
    File,
    Message,
    TArray,
    TBase,
    TRef,
    Type,
    enclosing_messages,
    resolve,
)

# ---------------------------------------------------------------------------
# Layout
# ---------------------------------------------------------------------------


def nbits(t: Any) -> int:
    if isinstance(t, TBase):
        return t.bits
    if isinstance(t, TRef):
        return nbits(t.target)
    if isinstance(t, Alias):
        return nbits(t.type)
    if isinstance(t, Enum):
        return t.bits
    if isinstance(t, TArray):
        return t.cap * nbits(t.elem) + (16 if t.ext else 0)
    if isinstance(t, Message):
        return sum(nbits(f.type) for f in t.fields()) + (16 if t.ext else 0)
    raise TypeError(t)


def nbytes(t: Any) -> int:
    return (nbits(t) + 7) // 8


# ---------------------------------------------------------------------------
# Leaves: canonical order, paths and kinds
# ---------------------------------------------------------------------------


class Leaf:
    __slots__ = ("path", "kind", "bits", "enum", "offset")

    def __init__(self, path: Tuple[Any, ...], kind: str, bits: int, enum: Optional[Enum], offset: int):
        self.path = path  # tuple of field names (str) and array indices (int)
        self.kind = kind  # bool byte uint int enum
        self.bits = bits
        self.enum = enum
        self.offset = offset  # bit offset in the encoded stream

    def __repr__(self) -> str:
        return f"Leaf({self.path},{self.kind}{self.bits}@{self.offset})"


_leaves_memo: Dict[Any, List[Leaf]] = {}


def _shape(t: Any) -> Any:
    """Structure of a type without expanding arrays (what the leaf list is a function of)."""
    t = resolve(t)
    if isinstance(t, TBase):
        return (t.kind, t.bits)
    if isinstance(t, Enum):
        return ("e", id(t), t.bits)
    if isinstance(t, TArray):
        return ("a", t.cap, t.ext, _shape(t.elem))
    if isinstance(t, Message):
        return ("m", t.ext, tuple((f.name, f.number, _shape(f.type)) for f in t.sorted_fields()))
    raise TypeError(t)


def leaves(m: Message) -> List[Leaf]:
    # messages with tens of thousands of leaves are asked for their (immutable) leaves many times per case
    if nbits(m) >= 4096:
        key = _shape(m)
        hit = _leaves_memo.get(key)
        if hit is None:
            hit = []
            _leaves(m, (), [0], hit)
            if len(_leaves_memo) >= 6:
                _leaves_memo.pop(next(iter(_leaves_memo)))
            _leaves_memo[key] = hit
        return list(hit)
    out: List[Leaf] = []
    _leaves(m, (), [0], out)
    return out


def _leaves(t: Any, path: Tuple[Any, ...], pos: List[int], out: List[Leaf]) -> None:
    t = resolve(t)
    if isinstance(t, TBase):
        out.append(Leaf(path, t.kind, t.bits, None, pos[0]))
        pos[0] += t.bits
    elif isinstance(t, Enum):
        out.append(Leaf(path, "enum", t.bits, t, pos[0]))
        pos[0] += t.bits
    elif isinstance(t, TArray):
        if t.ext:
            pos[0] += 16
        for k in range(t.cap):
            _leaves(t.elem, path + (k,), pos, out)
    elif isinstance(t, Message):
        if t.ext:
            pos[0] += 16
        for f in t.sorted_fields():
            _leaves(f.type, path + (f.name,), pos, out)
    else:
        raise TypeError(t)


def get_path(v: Any, path: Tuple[Any, ...]) -> Any:
    for p in path:
        v = v[p]
    return v


def set_path(v: Any, path: Tuple[Any, ...], x: Any) -> None:
    for p in path[:-1]:
        v = v[p]
    v[path[-1]] = x


def leaf_range(lf: Leaf) -> Tuple[int, int]:
    if lf.kind == "bool":
        return (0, 1)
    if lf.kind == "int":
        return (-(1 << (lf.bits - 1)), (1 << (lf.bits - 1)) - 1)
    return (0, (1 << lf.bits) - 1)


# ---------------------------------------------------------------------------
# Values
# ---------------------------------------------------------------------------


def zero_value(t: Any) -> Any:
    t = resolve(t)
    if isinstance(t, TBase):
        return False if t.kind == "bool" else 0
    if isinstance(t, Enum):
        return 0
    if isinstance(t, TArray):
        return [zero_value(t.elem) for _ in range(t.cap)]
    if isinstance(t, Message):
        return {f.name: zero_value(f.type) for f in t.sorted_fields()}
    raise TypeError(t)


def default_value(t: Any) -> Any:
    """The value a freshly constructed Python message holds (enum = first member)."""
    t = resolve(t)
    if isinstance(t, Enum):
        return t.members[0][1] if t.members else 0
    if isinstance(t, TBase):
        return False if t.kind == "bool" else 0
    if isinstance(t, TArray):
        return [default_value(t.elem) for _ in range(t.cap)]
    if isinstance(t, Message):
        return {f.name: default_value(f.type) for f in t.sorted_fields()}
    raise TypeError(t)


def has_empty_enum(m: Message) -> bool:
    return any(lf.kind == "enum" and not lf.enum.members for lf in leaves(m))


# ---------------------------------------------------------------------------
# Reference encoder / decoder
# ---------------------------------------------------------------------------


def _int_bits(value: int, n: int) -> List[int]:
    """n bits of value mod 2^n, least-significant first."""
    value = int(value) % (1 << n)
    return [(value >> k) & 1 for k in range(n)]


def encode_bits(t: Any, v: Any, out: List[int]) -> None:
    t = resolve(t)
    if isinstance(t, TBase):
        out.extend(_int_bits(int(v), t.bits))
    elif isinstance(t, Enum):
        out.extend(_int_bits(int(v), t.bits))
    elif isinstance(t, TArray):
        if t.ext:
            out.extend(_int_bits(t.cap, 16))
        assert len(v) == t.cap, (len(v), t.cap)
        for k in range(t.cap):
            encode_bits(t.elem, v[k], out)
    elif isinstance(t, Message):
        if t.ext:
            out.extend(_int_bits(nbits(t), 16))
        for f in t.sorted_fields():
            encode_bits(f.type, v[f.name], out)
    else:
        raise TypeError(t)


def pack(bits: List[int]) -> bytes:
    n = (len(bits) + 7) // 8
    buf = [0] * n
    for k, b in enumerate(bits):
        if b:
            buf[k // 8] += 1 << (k % 8)
    return bytes(buf)


def unpack(buf: bytes) -> List[int]:
    return [(buf[k // 8] >> (k % 8)) & 1 for k in range(len(buf) * 8)]


def encode(m: Message, v: Any) -> bytes:
    bits: List[int] = []
    encode_bits(m, v, bits)
    assert len(bits) == nbits(m)
    return pack(bits)


def _read(bits: List[int], pos: List[int], n: int) -> int:
    x = 0
    for k in range(n):
        if pos[0] + k < len(bits) and bits[pos[0] + k]:
            x += 1 << k
    pos[0] += n
    return x


def decode_bits(t: Any, bits: List[int], pos: List[int]) -> Any:
    """The specified decoder (docs/language.rst, extensibility): a receiver
    reads its own fields/elements, then continues after the region the sender
    announced."""
    t = resolve(t)
    if isinstance(t, TBase):
        x = _read(bits, pos, t.bits)
        if t.kind == "bool":
            return bool(x)
        if t.kind == "int" and x >= 1 << (t.bits - 1):
            x -= 1 << t.bits
        return x
    if isinstance(t, Enum):
        return _read(bits, pos, t.bits)
    if isinstance(t, TArray):
        ahead = None
        if t.ext:
            ahead = _read(bits, pos, 16)
        start = pos[0]
        out = [decode_bits(t.elem, bits, pos) for _ in range(t.cap)]
        if t.ext and ahead is not None and ahead > t.cap:
            # the sender's array has `ahead` elements of the same element type
            pos[0] = max(pos[0], start + ahead * _elem_bits_consumed(start, pos[0], t.cap))
        return out
    if isinstance(t, Message):
        start = pos[0]
        ahead = None
        if t.ext:
            ahead = _read(bits, pos, 16)
        out = {}
        for f in t.sorted_fields():
            out[f.name] = decode_bits(f.type, bits, pos)
        if t.ext and ahead is not None:
            pos[0] = max(pos[0], start + ahead)
        return out
    raise TypeError(t)


def _elem_bits_consumed(start: int, end: int, cap: int) -> int:
    # all elements of one array consume the same number of bits *when the
    # element type itself was not extended*; used only by the spec decoder's
    # self test (C05 uses projection instead of this arithmetic).
    return (end - start) // cap if cap else 0


def decode(m: Message, buf: bytes) -> Any:
    return decode_bits(m, unpack(buf), [0])


# ---------------------------------------------------------------------------
# Projection of a newer value onto an older schema (C05 oracle)
# ---------------------------------------------------------------------------


def project(old: Any, new: Any, v: Any) -> Any:
    """Value of schema `new` restricted to what exists in `old` (same shape up to
    appended fields / grown arrays)."""
    old = resolve(old)
    new = resolve(new)
    if isinstance(old, (TBase, Enum)):
        return v
    if isinstance(old, TArray):
        assert isinstance(new, TArray)
        return [project(old.elem, new.elem, v[k]) for k in range(old.cap)]
    if isinstance(old, Message):
        assert isinstance(new, Message)
        newf = {f.number: f for f in new.fields()}
        out = {}
        for f in old.sorted_fields():
            nf = newf[f.number]
            out[f.name] = project(f.type, nf.type, v[nf.name])
        return out
    raise TypeError(old)


# ---------------------------------------------------------------------------
# Expected target-language names (documented scheme, style-guide names)
# ---------------------------------------------------------------------------


def py_class_name(d: Any) -> str:
    return "_".join([m.name for m in enclosing_messages(d)] + [d.name])


def c_type_name(d: Any, prefix: str = "") -> str:
    """Pascal-case names concatenated (valid for PascalCase alphabetic names)."""
    from_prefix = "".join(p[:1].upper() + p[1:] for p in prefix.split("_") if p)
    return from_prefix + "".join([m.name for m in enclosing_messages(d)] + [d.name])


def go_struct_name(d: Any) -> str:
    return "".join([m.name for m in enclosing_messages(d)] + [d.name])


def go_enum_name(d: Any) -> str:
    return "_".join([m.name for m in enclosing_messages(d)] + [d.name])


def upper_snake(name: str) -> str:
    """UPPER_SNAKE of a PascalCase alphabetic name: split before each capital."""
    out = []
    for i, ch in enumerate(name):
        if ch.isupper() and i > 0 and (not name[i - 1].isupper()) and name[i - 1] != "_":
            out.append("_")
        out.append(ch.upper())
    return "".join(out)


def enum_member_name(e: Enum, member: str) -> str:
    """Flattened enum member name used by C/Go/Python outputs."""
    encl = [upper_snake(m.name) for m in enclosing_messages(e)]
    return "_".join(encl + [member])


def go_field_name(name: str) -> str:
    return "".join(p[:1].upper() + p[1:] for p in name.split("_") if p)
