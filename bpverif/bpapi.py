"""The code under test: in-process parse / lint / render and the CLI."""

from __future__ import annotations

import io
import os
import subprocess
import sys
from contextlib import contextmanager
from typing import Any, Dict, Iterator, List, Optional, Tuple

from . import env

env.pin()

import bitproto  # noqa: E402
import bitproto._main as bp_main  # noqa: E402
import bitproto.errors as bp_errors  # noqa: E402
import bitproto.linter as bp_linter  # noqa: E402
import bitproto.parser as bp_parser  # noqa: E402
import bitproto.renderer as bp_renderer  # noqa: E402
import bitproto.utils as bp_utils  # noqa: E402

ParserError = bp_errors.ParserError
RendererError = bp_errors.RendererError


class Fatal(Exception):
    """bitproto._main.fatal() was called (it would os._exit)."""

    def __init__(self, message: str, code: int):
        super().__init__(message)
        self.message = message
        self.code = code


def _fatal(s: str = "", code: int = 1):
    if s:
        sys.stderr.write(s + "\n")
    raise Fatal(s, code)


@contextmanager
def capture_stderr() -> Iterator[io.StringIO]:
    old = sys.stderr
    buf = io.StringIO()
    sys.stderr = buf
    try:
        yield buf
    finally:
        sys.stderr = old


def write_files(d: str, files: Dict[str, str], symlinked: bool = False) -> None:
    for k, (name, text) in enumerate(files.items()):
        p = os.path.join(d, name)
        os.makedirs(os.path.dirname(p), exist_ok=True)
        if symlinked:
            store = os.path.join(d, ".vendor")
            os.makedirs(store, exist_ok=True)
            real = os.path.join(store, f"blob{k}_v3.bitproto")
            with open(real, "w", newline="") as f:
                f.write(text)
            os.symlink(os.path.relpath(real, os.path.dirname(p)), p)
            continue
        with open(p, "w", newline="") as f:
            f.write(text)


def parse(path: str, traditional_mode: bool = False) -> Any:
    """bitproto.parser.parse with stderr (typedef deprecation notes) swallowed."""
    with capture_stderr():
        return bp_parser.parse(path, traditional_mode=traditional_mode)


def lint(proto: Any) -> Tuple[int, str]:
    with capture_stderr() as buf:
        n = bp_linter.lint(proto)
    return n, buf.getvalue()


def render(
    proto: Any,
    lang: str,
    outdir: str,
    optimize: bool = False,
    filter_messages: Optional[List[str]] = None,
    endian: str = "both",
) -> List[str]:
    os.makedirs(outdir, exist_ok=True)
    return bp_renderer.render(
        proto,
        lang,
        outdir=outdir,
        optimization_mode=optimize,
        optimization_mode_filter_messages=filter_messages,
        optimization_mode_endian=endian,
    )


def compile_file(
    path: str,
    lang: str,
    outdir: str,
    optimize: bool = False,
    filter_messages: Optional[List[str]] = None,
    endian: str = "both",
) -> List[str]:
    proto = parse(path, traditional_mode=optimize)
    return render(proto, lang, outdir, optimize, filter_messages, endian)


class MainResult:
    def __init__(self, code: int, stderr: str, exc: Optional[BaseException] = None):
        self.code = code
        self.stderr = stderr
        self.exc = exc

    def __repr__(self) -> str:
        return f"MainResult(code={self.code}, stderr={self.stderr[:200]!r}, exc={self.exc!r})"


def main_inprocess(
    filepath: str,
    lang: str = "",
    outdir: str = "",
    disable_linter: bool = False,
    check: bool = False,
    enable_optimize: bool = False,
    filter_messages: Optional[List[str]] = None,
    endian: str = "both",
) -> MainResult:
    """Run bitproto._main.main() in this process with fatal() intercepted.

    Exit code semantics mirror the CLI: 0 on return, fatal's code otherwise.
    Any other exception is returned in .exc (the CLI would print a traceback
    and exit 1)."""
    old_fatal = bp_main.fatal
    bp_main.fatal = _fatal  # type: ignore
    try:
        with capture_stderr() as buf:
            try:
                bp_main.main(
                    filepath,
                    lang=lang,
                    outdir=outdir,
                    disable_linter=disable_linter,
                    check=check,
                    enable_optimize=enable_optimize,
                    filter_messages=filter_messages,
                    endian=endian,
                )
                return MainResult(0, buf.getvalue())
            except Fatal as f:
                return MainResult(f.code, buf.getvalue())
            except Exception as e:  # internal error: CLI would traceback
                return MainResult(1, buf.getvalue(), e)
    finally:
        bp_main.fatal = old_fatal  # type: ignore


def cli(args: List[str], cwd: Optional[str] = None, env_extra: Optional[dict] = None, timeout: float = 120) -> subprocess.CompletedProcess:
    """The real command line, from the repo tree."""
    cmd = [env.PYTHON, "-c", "from bitproto._main import run_bitproto; run_bitproto()"] + list(args)
    return subprocess.run(
        cmd,
        cwd=cwd,
        env=env.subprocess_env(env_extra),
        stdin=subprocess.DEVNULL,
        stdout=subprocess.PIPE,
        stderr=subprocess.PIPE,
        timeout=timeout,
        text=True,
    )
