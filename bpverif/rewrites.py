"""C12: wire-preserving schema rewrites over the model."""

from __future__ import annotations

import copy
from typing import Any, Callable, Dict, List, Optional, Tuple

from hypothesis import strategies as st

from . import ref, render_bp, scoping
from .model import Alias, Const, Enum, Field, File, Import, Message, TArray, TBase, TRef, Unit, enclosing_messages, file_of, iter_messages, set_parents, unit_messages


def _all_trefs(unit: Unit) -> List[Tuple[Any, TRef]]:
    out: List[Tuple[Any, TRef]] = []

    def walk_t(owner: Any, t: Any) -> None:
        if isinstance(t, TRef):
            out.append((owner, t))
        elif isinstance(t, TArray):
            walk_t(owner, t.elem)

    for f in unit.files:
        for it in f.items:
            if isinstance(it, Alias):
                walk_t(it, it.type)
        for m in iter_messages(f):
            for fl in m.fields():
                walk_t(fl, fl.type)
    return out


def hazard(unit: Unit) -> Optional[str]:
    """Shapes of recorded findings that must not be produced by a rewrite (C10 owns them)."""
    set_parents(unit)
    for owner, t in _all_trefs(unit):
        if file_of(t.target) is not file_of(owner):
            if enclosing_messages(t.target):
                return "D7: type nested in a message of an imported file"
            if t.text_.count(".") >= 2:
                return "N3: type reached through two imports"
    for f in unit.files:
        if f.base != f.proto:
            return "D11"
    return None


def top_ancestor(d: Any) -> Any:
    while not isinstance(d.parent, File):
        d = d.parent
    return d


# Each rewrite: (draw, unit) -> kind string if applied, None otherwise.  The
# unit is mutated in place (callers pass a deep copy) and must be re-`retext`ed.


def rw_rename(draw: Any, unit: Unit) -> Optional[str]:
    which = draw(st.sampled_from(["messages", "fields", "enums", "aliases", "constants", "all"]))
    for f in unit.files:
        for it in f.items:
            if isinstance(it, Const) and which in ("constants", "all"):
                it.name = it.name + "_R"
            if isinstance(it, Alias) and which in ("aliases", "all"):
                it.name = "R" + it.name.lower()
            if isinstance(it, Enum) and which in ("enums", "all"):
                _rename_enum(it)
        for m in iter_messages(f):
            if which in ("messages", "all"):
                m.name = "R" + m.name.lower()
            for it in m.items:
                if isinstance(it, Field) and which in ("fields", "all"):
                    it.name = it.name + "_r"
                if isinstance(it, Enum) and which in ("enums", "all"):
                    _rename_enum(it)
    return "rename:" + which


def _rename_enum(e: Enum) -> None:
    e.name = "R" + e.name.lower()
    e.members = [(n + "_R", v) for n, v in e.members]


def rw_rename_collide(draw: Any, unit: Unit) -> Optional[str]:
    """Give nested definitions that live in DIFFERENT, non-nested parent messages the same
    short name (legal: names are per scope).  The same identifier text then denotes different
    definitions in different scopes of one file; a rename must not change any byte."""
    for f in draw(st.permutations(unit.files)):
        cands = []
        for m in iter_messages(f):
            for it in m.nested():
                cands.append(it)
        if len(cands) < 2:
            continue
        picked: List[Any] = []
        for d in draw(st.permutations(cands)):
            anc = enclosing_messages(d)
            ok = True
            for q in picked:
                qa = enclosing_messages(q)
                # parents must not be the same scope nor ancestor-related, so no scope chain sees two of them
                if qa[-1] is anc[-1] or qa[-1] in anc or anc[-1] in qa:
                    ok = False
            if ok:
                picked.append(d)
            if len(picked) >= 3:
                break
        if len(picked) < 2:
            continue
        new = _fresh(unit, "Kind")
        # the new name must not be visible from any of the parents' scope chains already
        for d in picked:
            if isinstance(d, Enum):
                d.name = new
            else:
                d.name = new
        return "rename_collide"
    return None


def rw_permute_fields(draw: Any, unit: Unit) -> Optional[str]:
    msgs = [m for m in unit_messages(unit) if len(m.fields()) >= 2]
    if not msgs:
        return None
    m = draw(st.sampled_from(msgs))
    fields = m.fields()
    perm = draw(st.permutations(list(range(len(fields)))))
    if list(perm) == list(range(len(fields))):
        perm = list(reversed(perm))
    m.items = m.nested() + [fields[i] for i in perm]
    return "permute_fields"


def rw_swap_defs(draw: Any, unit: Unit) -> Optional[str]:
    f = draw(st.sampled_from(unit.files))
    idx = [i for i in range(len(f.items) - 1) if not isinstance(f.items[i], Import) and not isinstance(f.items[i + 1], Import)]
    if not idx:
        return None
    i = draw(st.sampled_from(idx))
    f.items[i], f.items[i + 1] = f.items[i + 1], f.items[i]
    return "swap_defs"


def _fresh(unit: Unit, base: str) -> str:
    used = set()
    for f in unit.files:
        for it in f.items:
            used.add(it.name)
        for m in iter_messages(f):
            for it in m.items:
                used.add(it.name)
    k = 0
    while True:
        n = f"{base}{'' if k == 0 else chr(ord('a') + k % 26) * (1 + k // 26)}"
        if n not in used:
            return n
        k += 1


def rw_intro_alias(draw: Any, unit: Unit) -> Optional[str]:
    """An alias for an unnamed type: a field's whole type, the ELEMENT type of a field's array, or the element type of the array
    an alias names (`type Row = uint4[4]` -> `type Cell = uint4; type Row = Cell[4]`)."""
    cands: List[Tuple[Any, str]] = []
    for m in unit_messages(unit):
        for fl in m.fields():
            if isinstance(fl.type, (TBase, TArray)):
                cands.append((fl, "whole"))
            if isinstance(fl.type, TArray) and isinstance(fl.type.elem, TBase):
                cands.append((fl, "elem"))
    for f in unit.files:
        for it in f.items:
            if isinstance(it, Alias) and isinstance(it.type, TArray) and isinstance(it.type.elem, TBase):
                cands.append((it, "elem"))
    if not cands:
        return None
    fl, how = draw(st.sampled_from(cands))
    f = file_of(fl)
    top = fl if isinstance(fl, Alias) else top_ancestor(fl)
    if how == "whole":
        a = Alias(_fresh(unit, "Zalias"), fl.type)
        f.items.insert(f.items.index(top), a)
        fl.type = TRef(a.name, a)
        return "intro_alias"
    a = Alias(_fresh(unit, "Zelem"), fl.type.elem)
    f.items.insert([k for k, x in enumerate(f.items) if x is top][0], a)
    fl.type.elem = TRef(a.name, a)
    return "intro_alias"


def rw_inline_alias(draw: Any, unit: Unit) -> Optional[str]:
    cands = []
    for m in unit_messages(unit):
        for fl in m.fields():
            t = fl.type
            if isinstance(t, TRef) and isinstance(t.target, Alias):
                cands.append((fl, "field"))
            elif isinstance(t, TArray) and isinstance(t.elem, TRef) and isinstance(t.elem.target, Alias) and not isinstance(t.elem.target.type, TArray):
                cands.append((fl, "elem"))
    for f in unit.files:
        for it in f.items:
            t = getattr(it, "type", None)
            if isinstance(it, Alias) and isinstance(t, TArray) and isinstance(t.elem, TRef) and isinstance(t.elem.target, Alias) and not isinstance(t.elem.target.type, TArray):
                cands.append((it, "elem"))  # `type Row = Cell[4]` with `type Cell = uint4` -> `type Row = uint4[4]`
    if not cands:
        return None
    fl, how = draw(st.sampled_from(cands))
    if how == "field":
        fl.type = _copy_type(fl.type.target.type)
    else:
        fl.type.elem = _copy_type(fl.type.elem.target.type)
    return "inline_alias"


def _copy_type(t: Any) -> Any:
    if isinstance(t, TBase):
        return TBase(t.kind, t.bits)
    if isinstance(t, TRef):
        return TRef(t.text_, t.target)
    return TArray(_copy_type(t.elem), t.cap, t.ext, t.cap_text, t.cap_const)


def rw_hoist(draw: Any, unit: Unit) -> Optional[str]:
    cands = []
    for m in unit_messages(unit):
        for it in m.nested():
            cands.append(it)
    if not cands:
        return None
    d = draw(st.sampled_from(cands))
    f = file_of(d)
    top = top_ancestor(d)
    d.parent.items.remove(d)
    f.items.insert(f.items.index(top), d)
    return "hoist_nested"


def rw_nest(draw: Any, unit: Unit) -> Optional[str]:
    cands = []
    for f in unit.files:
        tops = [it for it in f.items if isinstance(it, (Enum, Message))]
        for i, d in enumerate(tops):
            later = [x for x in f.items[f.items.index(d) + 1 :] if isinstance(x, Message)]
            if later:
                cands.append((f, d, later[0]))
    if not cands:
        return None
    f, d, host = draw(st.sampled_from(cands))
    f.items.remove(d)
    host.items.insert(0, d)
    return "nest_toplevel"


def rw_move_to_import(draw: Any, unit: Unit) -> Optional[str]:
    main = unit.main
    defs = [it for it in main.items if not isinstance(it, Import)]
    if len(defs) < 2:
        return None
    k = draw(st.integers(1, len(defs) - 1))
    moved = defs[:k]
    if not any(isinstance(x, Message) for x in defs[k:]):
        return None
    newf = File(_fresh_proto(unit), _fresh_proto(unit))
    for imp in main.imports():
        newf.items.append(Import(imp.file, imp.as_name))
    for d in moved:
        main.items.remove(d)
        newf.items.append(d)
    nimp = len(main.imports())
    main.items.insert(nimp, Import(newf, draw(st.sampled_from([None, "zz"]))))
    unit.files.insert(len(unit.files) - 1, newf)
    return "move_to_import"


def _fresh_proto(unit: Unit) -> str:
    used = {f.proto for f in unit.files}
    for f in unit.files:
        for imp in f.imports():
            used.add(imp.name)
    k = 0
    while True:
        n = "extra" + ("" if k == 0 else "x" * k)
        if n not in used:
            return n
        k += 1


def rw_cap_const(draw: Any, unit: Unit) -> Optional[str]:
    cands = []
    for owner, t in _all_arrays(unit):
        if t.cap_const is None:
            cands.append((owner, t))
    if not cands:
        return None
    owner, t = draw(st.sampled_from(cands))
    f = file_of(owner)
    cap = t.cap
    form = draw(st.integers(0, 7))
    if form == 5:
        # integers are exact at any size: a quotient of operands beyond 2**53 with a remainder close to the divisor
        k = draw(st.integers(2**53, 2**72))
        r = draw(st.sampled_from([0, 1, k // 2, k - 2, k - 1]))
        text = f"{cap * k + r} / {k}"
    elif form == 6:
        k = draw(st.integers(2**53, 2**72)) | 1
        text = f"(0 - {cap * k}) / (0 - {k})"
    elif form == 7:
        k = draw(st.integers(3, 2**40))
        text = f"({cap} * {k} * {k} + {k * k - 1}) / {k} / {k}"
    elif form == 0:
        a = draw(st.integers(0, cap))
        text = f"{a} + {cap - a}"
    elif form == 1:
        k = draw(st.integers(1, 9))
        text = f"{cap * k} / {k}"
    elif form == 2:
        text = hex(cap)
    elif form == 3:
        text = f"({cap} + 3) * 2 / 2 - 3"
    else:
        text = f"2 * {cap} - {cap}"
    c = Const(_fresh(unit, "K_ZCAP").upper(), cap, text)
    top = top_ancestor(owner) if not isinstance(owner, Alias) else owner
    f.items.insert(f.items.index(top), c)
    t.cap_const = c
    t.cap_text = c.name
    return "cap_const_expr"


def _all_arrays(unit: Unit) -> List[Tuple[Any, TArray]]:
    out = []
    for f in unit.files:
        for it in f.items:
            if isinstance(it, Alias) and isinstance(it.type, TArray):
                out.append((it, it.type))
        for m in iter_messages(f):
            for fl in m.fields():
                if isinstance(fl.type, TArray):
                    out.append((fl, fl.type))
    return out


def rw_renumber(draw: Any, unit: Unit) -> Optional[str]:
    msgs = [m for m in unit_messages(unit) if m.fields()]
    if not msgs:
        return None
    m = draw(st.sampled_from(msgs))
    flds = m.sorted_fields()
    nums = sorted(draw(st.lists(st.integers(1, 255), unique=True, min_size=len(flds), max_size=len(flds))))
    if nums == [f.number for f in flds]:
        return None
    for fl, n in zip(flds, nums):
        fl.number = n
    return "renumber"


STYLE_REWRITES = ["style"]

REWRITES: List[Callable[[Any, Unit], Optional[str]]] = [
    rw_rename,
    rw_rename_collide,
    rw_permute_fields,
    rw_swap_defs,
    rw_intro_alias,
    rw_inline_alias,
    rw_hoist,
    rw_nest,
    rw_move_to_import,
    rw_cap_const,
    rw_renumber,
]


def draw_style(draw: Any) -> render_bp.Style:
    return render_bp.Style(
        indent=draw(st.sampled_from([4, 4, 2, 0, 8, 3])),
        semicolons=draw(st.sampled_from(["none", "all", "mixed"])),
        comments=draw(st.booleans()),
        blank_lines=draw(st.integers(0, 3)),
        leading_blank=draw(st.integers(0, 2)),
        hex_numbers=draw(st.booleans()),
        seed=draw(st.integers(0, 1000)),
        trailing_newline=draw(st.booleans()),
        spicy_comments=draw(st.booleans()),
        trailing_comments=draw(st.booleans()),
        join_statements=draw(st.booleans()),
        proto_late=draw(st.integers(0, 3)) == 2,
        crlf=draw(st.integers(0, 3)) == 1,
        op_spacing=draw(st.booleans()),
    )


def apply_sequence(draw: Any, unit: Unit, msgs: List[Message], max_steps: int = 5, only: Optional[List[Callable[[Any, Unit], Optional[str]]]] = None) -> Tuple[Unit, List[Message], List[str], Optional[render_bp.Style], Dict[str, int]]:
    """Applies a drawn sequence of rewrites to a deep copy; returns the new unit,
    the corresponding message list, the kinds applied, a style, and exclusion counts."""
    unit2, msgs2 = copy.deepcopy((unit, msgs))
    applied: List[str] = []
    excluded: Dict[str, int] = {}
    nsteps = draw(st.integers(1, max_steps))
    for _ in range(nsteps):
        rw = draw(st.sampled_from(only or REWRITES))
        trial, tmsgs = copy.deepcopy((unit2, msgs2))
        set_parents(trial)
        kind = rw(draw, trial)
        if kind is None:
            continue
        ok = scoping.retext(trial) and scoping.names_unique(trial) and scoping.unit_type_names_shadow_free(trial)
        if not ok:
            excluded["rewrite not applicable here (breaks declare-before-use)"] = excluded.get("rewrite not applicable here (breaks declare-before-use)", 0) + 1
            continue
        hz = hazard(trial)
        if hz:
            excluded["would produce a recorded-finding shape: " + hz] = excluded.get("would produce a recorded-finding shape: " + hz, 0) + 1
            continue
        if any(ref.nbits(m) > 65535 for m in unit_messages(trial)):
            continue
        unit2, msgs2 = trial, tmsgs
        applied.append(kind)
    style = None
    if draw(st.booleans()):
        style = draw_style(draw)
        applied.append("style")
    return unit2, msgs2, applied, style, excluded
