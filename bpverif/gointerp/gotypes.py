"""Static type representation of the Go subset.

Basic types are singletons (``byte`` is the same object as ``uint8``, ``rune``
the same as ``int32``); named types are unique objects; composite types are
compared structurally with :func:`identical`.
"""

from __future__ import annotations

from typing import Dict, List, Optional, Tuple

from .errors import GoUnsupported


class Type:
    __slots__ = ()

    def underlying(self) -> "Type":
        return self


class Basic(Type):
    """bool, string, the sized integers, and the untyped constant kinds."""

    __slots__ = ("name", "kind", "bits", "signed", "lo", "hi", "mask", "half", "untyped", "canon")

    def __init__(self, name: str, kind: str, bits: int = 0, signed: bool = False, untyped: bool = False):
        self.name = name
        self.canon = self  # byte / rune are aliases: canon is uint8 / int32
        self.kind = kind  # 'int' 'bool' 'string' 'nil' 'float'
        self.bits = bits
        self.signed = signed
        self.untyped = untyped
        if kind == "int" and not untyped:
            self.mask = (1 << bits) - 1
            self.half = 1 << (bits - 1)
            if signed:
                self.lo, self.hi = -(1 << (bits - 1)), (1 << (bits - 1)) - 1
            else:
                self.lo, self.hi = 0, (1 << bits) - 1
        else:
            self.mask = self.half = self.lo = self.hi = None

    def underlying(self) -> "Type":
        return self.canon

    def __repr__(self):
        return f"<{self.name}>"


class Named(Type):
    """A defined type ``type Name Underlying``."""

    __slots__ = ("pkg", "pkgname", "name", "_under", "methods", "resolver", "decl")

    def __init__(self, pkg: str, pkgname: str, name: str):
        self.pkg = pkg  # import path of the defining package ('' for universe)
        self.pkgname = pkgname
        self.name = name
        self._under: Optional[Type] = None
        self.methods: Dict[str, "Method"] = {}
        self.resolver = None  # callable that sets _under lazily
        self.decl = None

    def underlying(self) -> Type:
        if self._under is None:
            if self.resolver is None:
                raise RuntimeError(f"unresolved named type {self.name}")
            self.resolver(self)
        return self._under

    def __repr__(self):
        return f"<named {self.pkgname}.{self.name}>"


class Pointer(Type):
    __slots__ = ("elem",)

    def __init__(self, elem: Type):
        self.elem = elem


class Slice(Type):
    __slots__ = ("elem",)

    def __init__(self, elem: Type):
        self.elem = elem


class Array(Type):
    __slots__ = ("len", "elem")

    def __init__(self, length: int, elem: Type):
        self.len = length
        self.elem = elem


class StructField:
    __slots__ = ("name", "type", "tag", "pkg")

    def __init__(self, name: str, typ: Type, tag: Optional[str], pkg: str):
        self.name = name
        self.type = typ
        self.tag = tag
        self.pkg = pkg  # package of declaration (identity of unexported names)


class Struct(Type):
    __slots__ = ("fields", "index")

    def __init__(self, fields: List[StructField]):
        self.fields = fields
        self.index = {f.name: i for i, f in enumerate(fields) if f.name != "_"}


class Signature(Type):
    __slots__ = ("params", "results", "param_names", "result_names", "variadic")

    def __init__(self, params: List[Type], results: List[Type], param_names=None, result_names=None, variadic=False):
        self.params = params
        self.results = results
        self.param_names = param_names or [None] * len(params)
        self.result_names = result_names or [None] * len(results)
        self.variadic = variadic


class Interface(Type):
    __slots__ = ("methods",)

    def __init__(self, methods: Dict[str, Signature]):
        self.methods = dict(sorted(methods.items()))


class Tuple_(Type):
    """Result of a multi-value call."""

    __slots__ = ("types",)

    def __init__(self, types: List[Type]):
        self.types = types


class Method:
    __slots__ = ("name", "recv_named", "ptr_recv", "sig", "pyname", "decl", "pkg")

    def __init__(self, name, recv_named, ptr_recv, sig, pyname, decl, pkg):
        self.name = name
        self.recv_named = recv_named
        self.ptr_recv = ptr_recv
        self.sig = sig
        self.pyname = pyname
        self.decl = decl
        self.pkg = pkg


# ---------------------------------------------------------------------------
# universe
# ---------------------------------------------------------------------------
BOOL = Basic("bool", "bool")
STRING = Basic("string", "string")
INT = Basic("int", "int", 64, True)
INT8 = Basic("int8", "int", 8, True)
INT16 = Basic("int16", "int", 16, True)
INT32 = Basic("int32", "int", 32, True)
INT64 = Basic("int64", "int", 64, True)
UINT = Basic("uint", "int", 64, False)
UINT8 = Basic("uint8", "int", 8, False)
UINT16 = Basic("uint16", "int", 16, False)
UINT32 = Basic("uint32", "int", 32, False)
UINT64 = Basic("uint64", "int", 64, False)
UINTPTR = Basic("uintptr", "int", 64, False)
# alias names keep their spelling for type strings but are identical to
# uint8 / int32 (underlying() yields the canonical object)
BYTE = Basic("byte", "int", 8, False)
BYTE.canon = UINT8
RUNE = Basic("rune", "int", 32, True)
RUNE.canon = INT32

UNTYPED_INT = Basic("untyped int", "int", untyped=True)
UNTYPED_RUNE = Basic("untyped rune", "int", untyped=True)
UNTYPED_BOOL = Basic("untyped bool", "bool", untyped=True)
UNTYPED_STRING = Basic("untyped string", "string", untyped=True)
UNTYPED_NIL = Basic("untyped nil", "nil", untyped=True)
UNTYPED_FLOAT = Basic("untyped float", "float", untyped=True)

EMPTY_INTERFACE = Interface({})
ERROR = Named("", "", "error")
ERROR._under = Interface({"Error": Signature([], [STRING])})

UNIVERSE_TYPES: Dict[str, Type] = {
    "bool": BOOL, "string": STRING,
    "int": INT, "int8": INT8, "int16": INT16, "int32": INT32, "int64": INT64,
    "uint": UINT, "uint8": UINT8, "uint16": UINT16, "uint32": UINT32, "uint64": UINT64,
    "uintptr": UINTPTR, "byte": BYTE, "rune": RUNE,
    "error": ERROR, "any": EMPTY_INTERFACE,
}
UNSUPPORTED_UNIVERSE_TYPES = frozenset(["float32", "float64", "complex64", "complex128", "comparable"])
UNIVERSE_BUILTINS = frozenset([
    "append", "cap", "clear", "close", "complex", "copy", "delete", "imag", "len", "make",
    "max", "min", "new", "panic", "print", "println", "real", "recover",
])
UNIVERSE_CONSTS = frozenset(["true", "false", "iota", "nil"])
UNIVERSE_NAMES = frozenset(UNIVERSE_TYPES) | UNSUPPORTED_UNIVERSE_TYPES | UNIVERSE_BUILTINS | UNIVERSE_CONSTS


def default_type(t: Type) -> Type:
    if isinstance(t, Basic) and t.untyped:
        if t is UNTYPED_INT:
            return INT
        if t is UNTYPED_RUNE:
            return RUNE
        if t is UNTYPED_BOOL:
            return BOOL
        if t is UNTYPED_STRING:
            return STRING
        if t is UNTYPED_FLOAT:
            raise GoUnsupported("floating-point constants")
    return t


def is_untyped(t: Type) -> bool:
    return isinstance(t, Basic) and t.untyped


def is_integer(t: Type) -> bool:
    u = t.underlying()
    return isinstance(u, Basic) and u.kind == "int"


def is_boolean(t: Type) -> bool:
    u = t.underlying()
    return isinstance(u, Basic) and u.kind == "bool"


def is_string(t: Type) -> bool:
    u = t.underlying()
    return isinstance(u, Basic) and u.kind == "string"


def is_unsigned(t: Type) -> bool:
    u = t.underlying()
    return isinstance(u, Basic) and u.kind == "int" and not u.untyped and not u.signed


def is_interface(t: Type) -> bool:
    return isinstance(t.underlying(), Interface)


def is_agg(t: Type) -> bool:
    """Aggregates (struct / array) are represented as mutable Python lists and
    have value semantics implemented by explicit copies."""
    return isinstance(t.underlying(), (Struct, Array))


def is_named(t: Type) -> bool:
    """Named in the sense of the assignability rule: defined types and the
    predeclared basic types."""
    return isinstance(t, (Named, Basic))


def identical(a: Type, b: Type, ignore_tags: bool = False) -> bool:
    if a is b:
        return True
    if a.__class__ is Basic:
        a = a.canon
    if b.__class__ is Basic:
        b = b.canon
    if a is b:
        return True
    ta, tb = type(a), type(b)
    if ta is not tb:
        return False
    if ta is Basic or ta is Named:
        return False  # singletons / unique
    it = ignore_tags
    if ta is Pointer or ta is Slice:
        return identical(a.elem, b.elem, it)
    if ta is Array:
        return a.len == b.len and identical(a.elem, b.elem, it)
    if ta is Struct:
        if len(a.fields) != len(b.fields):
            return False
        for fa, fb in zip(a.fields, b.fields):
            if fa.name != fb.name or (not it and fa.tag != fb.tag) or not identical(fa.type, fb.type, it):
                return False
            if not is_exported(fa.name) and fa.pkg != fb.pkg:
                return False
        return True
    if ta is Signature:
        if len(a.params) != len(b.params) or len(a.results) != len(b.results) or a.variadic != b.variadic:
            return False
        return all(identical(x, y, it) for x, y in zip(a.params, b.params)) and all(
            identical(x, y, it) for x, y in zip(a.results, b.results)
        )
    if ta is Interface:
        if a.methods.keys() != b.methods.keys():
            return False
        return all(identical(a.methods[k], b.methods[k], it) for k in a.methods)
    if ta is Tuple_:
        return len(a.types) == len(b.types) and all(identical(x, y, it) for x, y in zip(a.types, b.types))
    return False


def is_exported(name: str) -> bool:
    return bool(name) and name[0].isupper()


def method_set(t: Type) -> Dict[str, Method]:
    """Methods callable through a value of static type t stored in an
    interface (the Go method set)."""
    if isinstance(t, Named):
        if isinstance(t.underlying(), (Pointer, Interface)):
            return {}
        return {n: m for n, m in t.methods.items() if not m.ptr_recv}
    if isinstance(t, Pointer) and isinstance(t.elem, Named):
        if isinstance(t.elem.underlying(), (Pointer, Interface)):
            return {}
        return dict(t.elem.methods)
    return {}


def missing_method(t: Type, iface: Interface, from_pkg: str = "") -> Optional[str]:
    """Name of the first method of iface that t does not implement (None if t
    implements iface)."""
    tu = t.underlying()
    if isinstance(tu, Interface):
        for name, sig in iface.methods.items():
            s2 = tu.methods.get(name)
            if s2 is None or not identical(sig, s2):
                return name
        return None
    ms = method_set(t)
    for name, sig in iface.methods.items():
        m = ms.get(name)
        if m is None or not identical(sig, m.sig):
            return name
    return None


def comparable(t: Type) -> bool:
    u = t.underlying()
    if isinstance(u, Basic):
        return u.kind != "nil"
    if isinstance(u, (Pointer, Interface)):
        return True
    if isinstance(u, Struct):
        return all(comparable(f.type) for f in u.fields)
    if isinstance(u, Array):
        return comparable(u.elem)
    return False


def type_str(t: Type, qualify: bool = True, rel_pkg: Optional[str] = None) -> str:
    """Go-style rendering.  Named types of packages other than ``rel_pkg`` are
    qualified with their *package name* when ``qualify`` is true."""
    if isinstance(t, Basic):
        return t.name
    if isinstance(t, Named):
        if qualify and t.pkg and t.pkg != rel_pkg:
            return f"{t.pkgname}.{t.name}"
        return t.name
    if isinstance(t, Pointer):
        return "*" + type_str(t.elem, qualify, rel_pkg)
    if isinstance(t, Slice):
        return "[]" + type_str(t.elem, qualify, rel_pkg)
    if isinstance(t, Array):
        return f"[{t.len}]" + type_str(t.elem, qualify, rel_pkg)
    if isinstance(t, Struct):
        parts = []
        for f in t.fields:
            s = f"{f.name} {type_str(f.type, qualify, rel_pkg)}"
            if f.tag is not None:
                s += " " + _go_quote(f.tag)
            parts.append(s)
        return "struct{" + "; ".join(parts) + "}"
    if isinstance(t, Signature):
        return "func" + sig_str(t, qualify, rel_pkg)
    if isinstance(t, Interface):
        if not t.methods:
            return "interface {}"
        return "interface { " + "; ".join(n + sig_str(s, qualify, rel_pkg) for n, s in t.methods.items()) + " }"
    if isinstance(t, Tuple_):
        return "(" + ", ".join(type_str(x, qualify, rel_pkg) for x in t.types) + ")"
    return repr(t)


def sig_str(s: Signature, qualify=True, rel_pkg=None) -> str:
    ps = ", ".join(type_str(p, qualify, rel_pkg) for p in s.params)
    out = f"({ps})"
    if len(s.results) == 1:
        out += " " + type_str(s.results[0], qualify, rel_pkg)
    elif s.results:
        out += " (" + ", ".join(type_str(r, qualify, rel_pkg) for r in s.results) + ")"
    return out


def _go_quote(s: str) -> str:
    return '"' + s.replace("\\", "\\\\").replace('"', '\\"') + '"'


def type_key(t: Type) -> str:
    """A canonical string that is equal for identical types (full import paths
    for named types).  Used as key of run-time type descriptors."""
    if isinstance(t, Basic):
        return t.canon.name
    if isinstance(t, Named):
        return f'"{t.pkg}".{t.name}'
    if isinstance(t, Pointer):
        return "*" + type_key(t.elem)
    if isinstance(t, Slice):
        return "[]" + type_key(t.elem)
    if isinstance(t, Array):
        return f"[{t.len}]" + type_key(t.elem)
    if isinstance(t, Struct):
        parts = []
        for f in t.fields:
            n = f.name if is_exported(f.name) else f'"{f.pkg}".{f.name}'
            s = f"{n} {type_key(f.type)}"
            if f.tag is not None:
                s += " " + _go_quote(f.tag)
            parts.append(s)
        return "struct{" + "; ".join(parts) + "}"
    if isinstance(t, Signature):
        return ("func(" + ",".join(type_key(p) for p in t.params) + ("..." if t.variadic else "") + ")("
                + ",".join(type_key(r) for r in t.results) + ")")
    if isinstance(t, Interface):
        return "interface{" + ";".join(n + type_key(s) for n, s in t.methods.items()) + "}"
    if isinstance(t, Tuple_):
        return "(" + ",".join(type_key(x) for x in t.types) + ")"
    raise TypeError(t)


def representable(val, t: Type) -> bool:
    """Is constant value val representable in (the underlying basic type of) t?"""
    u = t.underlying()
    if not isinstance(u, Basic):
        return False
    if u.kind == "int":
        if isinstance(val, bool) or not isinstance(val, int):
            return False
        if u.untyped:
            return True
        return u.lo <= val <= u.hi
    if u.kind == "bool":
        return isinstance(val, bool)
    if u.kind == "string":
        return isinstance(val, str)
    return False
