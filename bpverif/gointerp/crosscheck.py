"""Cross check: interpreted generated Go  vs  executed generated Python.

For every ``.bitproto`` under the repo's encoding test cases and examples (and
``/tmp/s1/*.bitproto`` when present) the schema is compiled to Go (standard
mode, and optimization mode ``-O`` when the schema is accepted there) and to
Python.  For every message and ~20 seeded pseudo random in-range values:

* the value is set in the Go struct (interpreter) and the Python dataclass,
* ``Encode()`` bytes must be equal,
* Go ``Decode(bytes)`` into a fresh zero struct must reproduce the value.

Run: ``cd /verif && /venv/bin/python -m bpverif.gointerp.crosscheck [-v] [paths...]``
Exit status 0 iff there is no mismatch that is attributable to the interpreter
(i.e. every mismatch is explained by a known genuine bitproto defect).
"""

from __future__ import annotations

import dataclasses
import glob
import importlib
import os
import random
import shutil
import sys
import tempfile
import time
import traceback
from typing import Dict, List, Optional, Tuple

sys.dont_write_bytecode = True

REPO = os.environ.get("BPVERIF_REPO", "/repo")
for _p in (os.path.join(REPO, "lib", "py"), os.path.join(REPO, "compiler")):
    if _p not in sys.path:
        sys.path.insert(0, _p)

import bitproto  # noqa: E402

assert os.path.abspath(bitproto.__file__).startswith(os.path.abspath(REPO) + os.sep), (
    f"bitproto imported from {bitproto.__file__}, expected the working tree under {REPO}")

from bitproto import _ast as BA  # noqa: E402
from bitproto.errors import ParserError, RendererError  # noqa: E402
from bitproto.parser import parse  # noqa: E402
from bitproto.renderer import render  # noqa: E402
from bitproto.renderer.impls.go.formatter import GoFormatter  # noqa: E402
from bitproto.renderer.impls.py.formatter import PyFormatter  # noqa: E402

from . import (RUNTIME_IMPORT_PATH, GoCompileError, GoPanic, GoSyntaxError, GoUnsupported, Program, parse_file,  # noqa: E402
               static_check)

VECTORS = 20
SEED = 1234
STUBS = ("strconv", "encoding/json", RUNTIME_IMPORT_PATH)

# Known genuine bitproto defects (never "fixed" inside the interpreter).
KNOWN = {
    "ext-array-skip": "decoding an extensible array skips ahead*capacity bits instead of ahead*element_bits",
    "py-enum-decode": "Python decode of enums whose value does not fit the first byte-chunk raises ValueError",
    "go-unqualified-nested": "Go output references a type nested in a message of an imported file unqualified",
    "go-O-late-import": "Go -O output places `import` of child protos after var declarations (rejected by Go)",
    "py-unqualified-nested": "Python output references a type nested in a message of an imported file unqualified (NameError)",
    "py-generated-broken": "generated Python module fails at import time (interpreter not involved)",
    "py-encode-error": "generated Python raises while encoding an in-range value (interpreter not involved)",
}


class Finding:
    def __init__(self, schema, mode, message, kind, detail, known: Optional[str] = None):
        self.schema, self.mode, self.message, self.kind, self.detail, self.known = schema, mode, message, kind, detail, known

    def __str__(self):
        tag = f"KNOWN[{self.known}]" if self.known else "UNEXPLAINED"
        return f"{tag} {os.path.basename(self.schema)} [{self.mode}] {self.message or '-'}: {self.kind}: {self.detail}"


# ---------------------------------------------------------------------------
# code generation
# ---------------------------------------------------------------------------
def go_import_path(proto: BA.Proto) -> str:
    """Mirror of GoFormatter.format_import_statement."""
    return proto.get_option_as_string_or_raise("go.package_path") or f"{proto.name}_bp"


def all_protos(proto: BA.Proto, acc=None) -> List[BA.Proto]:
    """proto and its (transitively) imported protos, dependencies first."""
    if acc is None:
        acc = []
    for _name, child in proto.protos(recursive=False):
        all_protos(child, acc)
    if all(p.filepath != proto.filepath for p in acc):
        acc.append(proto)
    return acc


def generate(path: str, lang: str, outdir: str, opt: bool) -> Tuple[BA.Proto, Dict[str, str]]:
    """Compile schema `path` and all protos it imports.  -> (proto, {proto filepath: generated file})"""
    proto = parse(path, traditional_mode=opt)
    outs: Dict[str, str] = {}
    for p in all_protos(proto):
        # each proto is rendered from its own parse (as the CLI would do)
        pp = p if p is proto else parse(p.filepath, traditional_mode=opt)
        files = render(pp, lang, outdir=outdir, optimization_mode=opt)
        outs[p.filepath] = files[0]
    return proto, outs


# ---------------------------------------------------------------------------
# value generation (driven by the bitproto AST; Go / Python sides are walked in
# parallel by field *position*, never by recomputed names)
# ---------------------------------------------------------------------------
def rand_int(rng: random.Random, lo: int, hi: int) -> int:
    r = rng.random()
    if r < 0.15:
        return lo
    if r < 0.30:
        return hi
    if r < 0.40:
        return 0 if lo <= 0 <= hi else lo
    if r < 0.50:
        return -1 if lo <= -1 <= hi else hi
    return rng.randint(lo, hi)


class Walker:
    """Generates a value for a bitproto type and applies it to both sides."""

    def __init__(self, prog: Program, gopkg_of: Dict[str, str], pymods: Dict[str, object], rng: random.Random):
        self.prog = prog
        self.rng = rng
        self.gofmt = GoFormatter()
        self.pyfmt = PyFormatter()

    def gen(self, t: BA.Type, go_desc: dict):
        """-> (go value, f) where f(current_python_value) returns the Python value to store (containers and
        nested messages created by the dataclass defaults are filled in place and returned)."""
        rng = self.rng
        if isinstance(t, BA.Alias):
            return self.gen(t.type, self.under(go_desc))
        if isinstance(t, BA.Bool):
            v = rng.random() < 0.5
            return v, (lambda cur: v)
        if isinstance(t, BA.Byte):
            v = rand_int(rng, 0, 255)
            return v, (lambda cur: v)
        if isinstance(t, BA.Uint):
            v = rand_int(rng, 0, (1 << t.nbits()) - 1)
            return v, (lambda cur: v)
        if isinstance(t, BA.Int):
            n = t.nbits()
            v = rand_int(rng, -(1 << (n - 1)), (1 << (n - 1)) - 1)
            return v, (lambda cur: v)
        if isinstance(t, BA.Enum):
            members = [f.value for f in t.fields()]
            v = rng.choice(members) if members else 0
            return v, (lambda cur: v)
        if isinstance(t, BA.Array):
            d = self.under(go_desc)
            assert d["kind"] == "array" and d["len"] == t.cap, (d, t.cap)
            items = [self.gen(t.element_type, d["elem_desc"]) for _ in range(t.cap)]
            go_v = [g for g, _ in items]

            def py_apply(cur, items=items):
                # list (or bytearray for byte[N]) created by the dataclass default factory: fill in place
                assert isinstance(cur, (list, bytearray)) and len(cur) == len(items), (cur, len(items))
                for i, (_g, f) in enumerate(items):
                    cur[i] = f(cur[i])
                return cur

            return go_v, py_apply
        if isinstance(t, BA.Message):
            return self.gen_message(t, go_desc)
        raise TypeError(t)

    def under(self, go_desc: dict) -> dict:
        """Expand a named Go type description to its structure."""
        if go_desc.get("kind") == "named" and "pkg" in go_desc and "name" in go_desc and go_desc.get("underlying_kind") in (
                "struct", "array"):
            return self.prog.type_info(go_desc["pkg"], go_desc["name"])
        return go_desc

    def gen_message(self, m: BA.Message, go_desc: dict):
        d = self.under(go_desc)
        assert d["kind"] == "struct", d
        fields = m.sorted_fields()
        assert len(fields) == len(d["fields"]), (m.name, len(fields), len(d["fields"]))
        parts = []
        go_v = {}
        for fld, gf in zip(fields, d["fields"]):
            g, f = self.gen(fld.type, gf["desc"])
            go_v[gf["name"]] = g
            parts.append(f)

        def py_apply(cur, parts=parts, m=m):
            assert dataclasses.is_dataclass(cur), f"python value for message {m.name} is {type(cur).__name__}"
            names = [f.name for f in dataclasses.fields(cur) if not f.name.startswith("_")]
            assert len(names) == len(parts), (m.name, names, len(parts))
            for name, f in zip(names, parts):
                setattr(cur, name, f(getattr(cur, name)))
            return cur

        return go_v, py_apply


# ---------------------------------------------------------------------------
def schema_features(path: str) -> Dict[str, bool]:
    text = open(path, encoding="utf-8").read()
    return {"extensible": "'" in text, "ext_array": "]'" in text.replace(" ", "")}


def check_schema(path: str, tmp: str, verbose: bool, findings: List[Finding], stats: dict) -> None:
    name = os.path.splitext(os.path.basename(path))[0]
    feats = schema_features(path)
    row = stats.setdefault(path, {"messages": 0, "vectors": 0, "mismatches": 0, "unsupported": 0, "modes": []})
    # ---- Python side
    pydir = os.path.join(tmp, name + "_py")
    os.makedirs(pydir, exist_ok=True)
    try:
        proto, pyouts = generate(path, "py", pydir, False)
    except (ParserError, RendererError) as e:
        row["modes"].append("skip(compile)")
        if verbose:
            print(f"  skip {path}: does not compile: {e}")
        return
    before = set(sys.modules)
    sys.path.insert(0, pydir)
    try:
        try:
            pymod = importlib.import_module(os.path.splitext(os.path.basename(pyouts[proto.filepath]))[0])
        except Exception as e:
            # The generated Python does not even import: the Go interpreter is not involved, so this is a
            # bitproto (Python generator) defect by construction.  Go is still checked (round trip only).
            known = "py-unqualified-nested" if isinstance(e, NameError) and list(proto.protos(recursive=False)) else "py-generated-broken"
            findings.append(Finding(path, "py", None, "python-import", f"{type(e).__name__}: {e}", known=known))
            row["mismatches"] += 1
            pymod = None
        for opt in (False, True):
            mode = "go-O" if opt else "go"
            godir = os.path.join(tmp, name + ("_goO" if opt else "_go"))
            os.makedirs(godir, exist_ok=True)
            try:
                gproto, goouts = generate(path, "go", godir, opt)
            except (ParserError, RendererError) as e:
                row["modes"].append(f"{mode}:n/a")
                continue
            run_mode(path, mode, gproto, goouts, pymod, feats, verbose, findings, row)
    finally:
        sys.path.remove(pydir)
        for k in set(sys.modules) - before:
            del sys.modules[k]


def run_mode(path, mode, proto: BA.Proto, goouts: Dict[str, str], pymod, feats, verbose, findings, row) -> None:
    rt_src = open(os.path.join(REPO, "lib", "go", "bitproto.go"), encoding="utf-8").read()
    packages: Dict[str, List[str]] = {RUNTIME_IMPORT_PATH: [rt_src]}
    main_pkg = None
    known_pkgs: Dict[str, set] = {}
    for p in all_protos(proto):
        ipath = go_import_path(p) if p is not proto else (go_import_path(p) + "#main")
        src = open(goouts[p.filepath], encoding="utf-8").read()
        packages[ipath.replace("#main", "")] = [src]
        if p is proto:
            main_pkg = ipath.replace("#main", "")
    # static check first (cheap, and independent of the interpreter)
    main_src = packages[main_pkg][0]
    for prob in static_check(main_src):
        known = None
        if "imports must appear before other declarations" in prob:
            known = "go-O-late-import"
        elif "undefined:" in prob and list(proto.protos(recursive=False)):
            known = "go-unqualified-nested"
        findings.append(Finding(path, mode, None, "static_check", prob, known))
        row["mismatches"] += 1
    try:
        prog = Program(packages)
    except GoUnsupported as e:
        row["unsupported"] += 1
        row["modes"].append(f"{mode}:unsupported")
        findings.append(Finding(path, mode, None, "unsupported", str(e), known="interpreter-limit"))
        return
    except GoSyntaxError as e:  # includes GoCompileError
        known = None
        if "imports must appear before other declarations" in str(e):
            known = "go-O-late-import"
        elif "undefined:" in str(e) and list(proto.protos(recursive=False)):
            known = "go-unqualified-nested"
        if not any(f.schema == path and f.mode == mode and f.kind == "static_check" for f in findings):
            findings.append(Finding(path, mode, None, "go-does-not-build", str(e), known))
            row["mismatches"] += 1
        row["modes"].append(f"{mode}:nobuild")
        return
    row["modes"].append(mode)
    gofmt, pyfmt = GoFormatter(), PyFormatter()
    rng = random.Random(SEED)
    walker = Walker(prog, {}, {}, rng)
    t0 = time.time()
    for _mname, msg in proto.messages(recursive=True):
        go_name = gofmt.format_message_name(msg)
        py_name = pyfmt.format_message_name(msg)
        if go_name not in prog.exported(main_pkg):
            findings.append(Finding(path, mode, go_name, "harness", "Go struct not found in generated package"))
            row["mismatches"] += 1
            continue
        pycls = getattr(pymod, py_name, None) if pymod is not None else None
        if pycls is None and pymod is not None:
            findings.append(Finding(path, mode, py_name, "harness", "Python class not found in generated module"))
            row["mismatches"] += 1
            continue
        if mode == "go":
            row["messages"] += 1
        go_desc = prog.type_info(main_pkg, go_name)
        for vi in range(VECTORS):
            row["vectors"] += 1
            try:
                go_v, py_apply = walker.gen_message(msg, go_desc)
                ref = prog.new(main_pkg, go_name)
                prog.set_py(ref, go_v)
                want = prog.get_py(ref)
                enc_py = None
                if pycls is not None:
                    pyobj = pycls()
                    py_apply(pyobj)
                    try:
                        enc_py = bytes(pyobj.encode())
                    except Exception as e:
                        findings.append(Finding(path, mode, go_name, "python-encode-error", f"{type(e).__name__}: {e}",
                                                known="py-encode-error"))
                        row["mismatches"] += 1
                        pycls = None
                enc_go = prog.call_method(ref, "Encode")
                if prog.get_py(ref) != want:
                    findings.append(Finding(path, mode, go_name, "encode-mutated-value", f"vector {vi}"))
                    row["mismatches"] += 1
                if enc_py is not None and enc_go != enc_py:
                    findings.append(Finding(path, mode, go_name, "encode-mismatch",
                                            f"vector {vi}: go={enc_go.hex()} py={enc_py.hex()} value={go_v}"))
                    row["mismatches"] += 1
                    break
                eq_size = prog.call_method(ref, "Size")
                if eq_size != len(enc_go):
                    findings.append(Finding(path, mode, go_name, "size-mismatch", f"Size()={eq_size} len(Encode())={len(enc_go)}"))
                    row["mismatches"] += 1
                    break
                ref2 = prog.new(main_pkg, go_name)
                prog.call_method(ref2, "Decode", enc_go)
                got = prog.get_py(ref2)
                if got != want:
                    known = "ext-array-skip" if feats["ext_array"] else None
                    findings.append(Finding(path, mode, go_name, "go-roundtrip-mismatch",
                                            f"vector {vi}: bytes={enc_go.hex()} want={want} got={got}", known))
                    row["mismatches"] += 1
                    break
            except GoUnsupported as e:
                row["unsupported"] += 1
                findings.append(Finding(path, mode, go_name, "unsupported", str(e), known="interpreter-limit"))
                break
            except GoPanic as e:
                findings.append(Finding(path, mode, go_name, "go-panic", str(e)))
                row["mismatches"] += 1
                break
    if verbose:
        print(f"  {os.path.basename(path)} [{mode}] {time.time() - t0:.2f}s")


# ---------------------------------------------------------------------------
def default_schemas() -> List[str]:
    out = sorted(glob.glob(os.path.join(REPO, "tests", "test_encoding", "encoding-cases", "**", "*.bitproto"), recursive=True))
    out += sorted(glob.glob(os.path.join(REPO, "example", "*.bitproto")))
    out += sorted(glob.glob("/tmp/s1/*.bitproto"))
    return out


def main(argv: Optional[List[str]] = None) -> int:
    argv = list(sys.argv[1:] if argv is None else argv)
    verbose = "-v" in argv
    paths = [a for a in argv if not a.startswith("-")] or default_schemas()
    tmp = tempfile.mkdtemp(prefix="gointerp_crosscheck_")
    findings: List[Finding] = []
    stats: Dict[str, dict] = {}
    t0 = time.time()
    try:
        for path in paths:
            try:
                check_schema(path, tmp, verbose, findings, stats)
            except Exception as e:  # harness / interpreter crash: always unexplained
                findings.append(Finding(path, "-", None, "crash", f"{type(e).__name__}: {e}\n{traceback.format_exc()}"))
                stats.setdefault(path, {"messages": 0, "vectors": 0, "mismatches": 0, "unsupported": 0, "modes": []})["mismatches"] += 1
    finally:
        shutil.rmtree(tmp, ignore_errors=True)
    # ---- report
    w = max(len(os.path.relpath(p, REPO)) if p.startswith(REPO) else len(p) for p in stats) if stats else 10
    print(f"{'schema':<{w}}  {'msgs':>4} {'vectors':>7} {'mismatch':>8} {'unsupp':>6}  modes")
    tot = {"messages": 0, "vectors": 0, "mismatches": 0, "unsupported": 0}
    for p, r in stats.items():
        rel = os.path.relpath(p, REPO) if p.startswith(REPO) else p
        print(f"{rel:<{w}}  {r['messages']:>4} {r['vectors']:>7} {r['mismatches']:>8} {r['unsupported']:>6}  {','.join(r['modes'])}")
        for k in tot:
            tot[k] += r[k]
    print(f"{'TOTAL (' + str(len(stats)) + ' schemas)':<{w}}  {tot['messages']:>4} {tot['vectors']:>7} {tot['mismatches']:>8} {tot['unsupported']:>6}")
    print(f"elapsed {time.time() - t0:.1f}s")
    unexplained = [f for f in findings if f.known is None]
    explained = [f for f in findings if f.known is not None]
    if explained:
        print("\nFindings explained by known genuine bitproto defects / interpreter limits:")
        for f in explained:
            print("  " + str(f)[:400])
            if f.known in KNOWN:
                print(f"      -> {KNOWN[f.known]}")
    if unexplained:
        print("\nUNEXPLAINED findings (interpreter-attributable until analysed):")
        for f in unexplained:
            print("  " + str(f)[:1200])
        return 1
    print("\nno interpreter-attributable mismatch")
    return 0


if __name__ == "__main__":
    sys.exit(main())
