"""AST node classes of the Go subset parser.

Every node has ``line`` and ``col`` (1-based position of its first token).
The node classes are deliberately plain (``__slots__`` + positional ctor) -
they are created in large numbers.
"""

from __future__ import annotations

from typing import Any, List, Optional, Tuple


class Node:
    __slots__ = ("line", "col")
    _fields: Tuple[str, ...] = ()

    def __init__(self, *args: Any, line: int = 0, col: int = 0):
        fields = self._fields
        if len(args) != len(fields):
            raise TypeError(f"{type(self).__name__} expects {len(fields)} args {fields}, got {len(args)}")
        for name, val in zip(fields, args):
            setattr(self, name, val)
        self.line = line
        self.col = col

    def __repr__(self) -> str:  # pragma: no cover - debugging aid
        inner = ", ".join(f"{f}={getattr(self, f)!r}" for f in self._fields)
        return f"{type(self).__name__}({inner})"

    def children(self):
        """Yield direct child nodes (used by generic walkers)."""
        for f in self._fields:
            v = getattr(self, f)
            if isinstance(v, Node):
                yield v
            elif isinstance(v, (list, tuple)):
                for x in v:
                    if isinstance(x, Node):
                        yield x
                    elif isinstance(x, (list, tuple)):
                        for y in x:
                            if isinstance(y, Node):
                                yield y


def _node(name: str, fields: str, base=Node):
    fl = tuple(fields.split())
    return type(name, (base,), {"__slots__": fl, "_fields": fl})


class Expr(Node):
    __slots__ = ()


class Stmt(Node):
    __slots__ = ()


class Decl(Node):
    __slots__ = ()


# ---- file level -----------------------------------------------------------
File = _node("File", "package imports decls")
File.__doc__ = """package: str; imports: [(alias_or_None, path)] ; decls: [Decl] in source
order; ``import_specs`` style details are in ``imports`` only."""
ImportSpec = _node("ImportSpec", "alias path", Decl)

# A const spec.  ``values``/``type`` are already expanded for implicit
# repetition; ``iota`` is the index of the spec inside its const group;
# ``implicit`` tells that type/values were copied from a previous spec.
ConstSpec = _node("ConstSpec", "names type values iota implicit", Decl)
VarSpec = _node("VarSpec", "names type values", Decl)
TypeSpec = _node("TypeSpec", "name type is_alias", Decl)
# recv: Field or None ; type: FuncType ; body: BlockStmt or None
FuncDecl = _node("FuncDecl", "name recv type body", Decl)

# names: [Ident] (possibly empty for anonymous params / embedded fields)
Field = _node("Field", "names type tag embedded")

# ---- expressions ----------------------------------------------------------
Ident = _node("Ident", "name", Expr)
# kind: INT FLOAT IMAG RUNE STRING ; value: decoded ; text: source text
BasicLit = _node("BasicLit", "kind value text", Expr)
CompositeLit = _node("CompositeLit", "type elts", Expr)
KeyValue = _node("KeyValue", "key value", Expr)
ParenExpr = _node("ParenExpr", "x", Expr)
SelectorExpr = _node("SelectorExpr", "x sel", Expr)
IndexExpr = _node("IndexExpr", "x index", Expr)
SliceExpr = _node("SliceExpr", "x lo hi max slice3", Expr)
StarExpr = _node("StarExpr", "x", Expr)
UnaryExpr = _node("UnaryExpr", "op x", Expr)
BinaryExpr = _node("BinaryExpr", "op x y", Expr)
CallExpr = _node("CallExpr", "fun args ellipsis", Expr)
TypeAssertExpr = _node("TypeAssertExpr", "x type", Expr)
FuncLit = _node("FuncLit", "type body", Expr)

# ---- type expressions -----------------------------------------------------
# len: Expr, or None for a slice type, or the string "..." for [...]T
ArrayType = _node("ArrayType", "len elem", Expr)
StructType = _node("StructType", "fields", Expr)
FuncType = _node("FuncType", "params results", Expr)
# methods: [Field] (names=[Ident], type=FuncType) ; embeds: [Expr]
InterfaceType = _node("InterfaceType", "methods embeds", Expr)
MapType = _node("MapType", "key value", Expr)
Ellipsis = _node("Ellipsis", "elt", Expr)

# ---- statements -----------------------------------------------------------
BlockStmt = _node("BlockStmt", "stmts", Stmt)
ExprStmt = _node("ExprStmt", "x", Stmt)
IncDecStmt = _node("IncDecStmt", "x op", Stmt)
# op: '=' ':=' '+=' ...
AssignStmt = _node("AssignStmt", "lhs op rhs", Stmt)
DeclStmt = _node("DeclStmt", "specs", Stmt)
ReturnStmt = _node("ReturnStmt", "results", Stmt)
BranchStmt = _node("BranchStmt", "tok label", Stmt)
IfStmt = _node("IfStmt", "init cond body else_", Stmt)
ForStmt = _node("ForStmt", "init cond post body", Stmt)
# key/value: Expr or None ; define: ':=' used
RangeStmt = _node("RangeStmt", "key value define x body", Stmt)
SwitchStmt = _node("SwitchStmt", "init tag cases", Stmt)
# exprs is None for the default clause
CaseClause = _node("CaseClause", "exprs body", Stmt)
TypeSwitchStmt = _node("TypeSwitchStmt", "init bind x cases", Stmt)
DeferStmt = _node("DeferStmt", "call", Stmt)
LabeledStmt = _node("LabeledStmt", "label stmt", Stmt)
EmptyStmt = _node("EmptyStmt", "", Stmt)
