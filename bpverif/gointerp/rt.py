"""Run-time support for the Python code generated from Go functions.

Value representation
--------------------
=================  ==========================================================
Go                 Python
=================  ==========================================================
intN / uintN       int, always normalised to the range of the Go type
bool               bool
string             str (bytes decoded with utf-8/surrogateescape)
struct             list of field values (mutable, *storage identity*)
[N]T               list of N element values (mutable, storage identity)
*T, T aggregate    the list object of the pointee itself (nil = None)
*T, T scalar       ``Ptr(container, key)`` (nil = None)
[]T                ``SliceV(a, o, n, c)`` - backing list, offset, len, cap;
                   immutable; the nil slice has ``a is None``
interface          ``(RType, value)`` tuple (nil = None)
func               Python callable (nil = None)
=================  ==========================================================

Aggregates are never replaced inside their container: assignment copies *into*
the existing list (recursively), so that pointers into fields / elements stay
valid exactly as in Go.
"""

from __future__ import annotations

import operator
from typing import Callable, Dict, Optional

from . import gotypes as T
from .errors import GoPanic, GoUnsupported


class Ptr:
    """Pointer to a scalar slot ``c[k]``."""

    __slots__ = ("c", "k")

    def __init__(self, c, k):
        self.c = c
        self.k = k

    def __repr__(self):  # pragma: no cover
        return f"Ptr(@{id(self.c):x}[{self.k}])"


class SliceV:
    __slots__ = ("a", "o", "n", "c")

    def __init__(self, a, o, n, c):
        self.a = a
        self.o = o
        self.n = n
        self.c = c

    def __repr__(self):  # pragma: no cover
        if self.a is None:
            return "SliceV(nil)"
        return f"SliceV({self.a[self.o:self.o + self.n]!r}, cap={self.c})"


NILS = SliceV(None, 0, 0, 0)


class FuncStub:
    """An opaque function of a stub package (strconv.FormatInt ...)."""

    __slots__ = ("name",)

    def __init__(self, name):
        self.name = name

    def __call__(self, *a):
        raise GoUnsupported(f"call of opaque stub function {self.name}")


# ---------------------------------------------------------------------------
# arithmetic helpers
# ---------------------------------------------------------------------------
def _div_zero():
    raise GoPanic("integer divide by zero")


def quo(a, b):
    """Go integer division: truncates toward zero (caller wraps the result)."""
    if b == 0:
        _div_zero()
    q = abs(a) // abs(b)
    return -q if (a < 0) != (b < 0) else q


def rem(a, b):
    """Go remainder: sign of the dividend."""
    if b == 0:
        _div_zero()
    r = abs(a) % abs(b)
    return -r if a < 0 else r


def shl_u(x, n, mask):
    """x << n for an unsigned left operand type with the given mask."""
    if n < 64:
        if n < 0:
            raise GoPanic("negative shift amount")
        return (x << n) & mask
    return 0


def shl_s(x, n, mask, half):
    """x << n for a signed left operand type."""
    if n < 64:
        if n < 0:
            raise GoPanic("negative shift amount")
        return (((x << n) + half) & mask) - half
    return 0


def shr(x, n):
    """x >> n (x already normalised: arithmetic shift for negative x)."""
    if n < 64:
        if n < 0:
            raise GoPanic("negative shift amount")
        return x >> n
    return -1 if x < 0 else 0


# ---------------------------------------------------------------------------
# indexing helpers
# ---------------------------------------------------------------------------
def oob(i, n):
    raise GoPanic(f"index out of range [{i}] with length {n}")


def aix(i, n):
    """Checked array index."""
    if 0 <= i < n:
        return i
    raise GoPanic(f"index out of range [{i}] with length {n}")


def six(s, i):
    """Checked slice index -> index into the backing list."""
    if 0 <= i < s.n:
        return s.o + i
    raise GoPanic(f"index out of range [{i}] with length {s.n}")


def sget(s, i):
    if 0 <= i < s.n:
        return s.a[s.o + i]
    raise GoPanic(f"index out of range [{i}] with length {s.n}")


def nn(p):
    """nil check of a pointer (explicit dereference)."""
    if p is None:
        raise GoPanic("invalid memory address or nil pointer dereference")
    return p


def str_bytes(s: str) -> bytes:
    return s.encode("utf-8", "surrogateescape")


def str_len(s: str) -> int:
    if s.isascii():
        return len(s)
    return len(s.encode("utf-8", "surrogateescape"))


def str_index(s: str, i: int) -> int:
    b = s.encode("utf-8", "surrogateescape")
    if 0 <= i < len(b):
        return b[i]
    raise GoPanic(f"index out of range [{i}] with length {len(b)}")


def str_slice(s: str, lo, hi) -> str:
    b = s.encode("utf-8", "surrogateescape")
    n = len(b)
    if hi is None:
        hi = n
    if lo is None:
        lo = 0
    if not (0 <= lo <= hi <= n):
        raise GoPanic(f"slice bounds out of range [{lo}:{hi}] with length {n}")
    return b[lo:hi].decode("utf-8", "surrogateescape")


def str_cmp(a: str, b: str) -> int:
    x, y = str_bytes(a), str_bytes(b)
    return (x > y) - (x < y)


def bytes_to_str(s: SliceV) -> str:
    if s.a is None:
        return ""
    return bytes(s.a[s.o:s.o + s.n]).decode("utf-8", "surrogateescape")


def str_to_bytes(s: str) -> SliceV:
    b = list(s.encode("utf-8", "surrogateescape"))
    return SliceV(b, 0, len(b), len(b))


def rune_to_str(r: int) -> str:
    if r < 0 or r > 0x10FFFF or 0xD800 <= r <= 0xDFFF:
        return "�"
    return chr(r)


# ---------------------------------------------------------------------------
# slices
# ---------------------------------------------------------------------------
def mkslice(n, c, rt):
    """make([]T, n, c); rt is the RType of the element type."""
    if n < 0:
        raise GoPanic("makeslice: len out of range")
    if c is None:
        c = n
    if c < n:
        raise GoPanic("makeslice: cap out of range")
    if c > (1 << 31):
        raise GoUnsupported("makeslice: capacity too large for the interpreter")
    if rt.agg:
        zero = rt.zero
        a = [zero() for _ in range(c)]
    else:
        a = [rt.zero()] * c
    return SliceV(a, 0, n, c)


def slice_s(s, lo, hi, mx):
    """s[lo:hi:mx] on a slice value."""
    c = s.c
    if lo is None:
        lo = 0
    if hi is None:
        hi = s.n
    if mx is None:
        if not (0 <= lo <= hi <= c):
            if not (0 <= hi <= c):
                raise GoPanic(f"slice bounds out of range [:{hi}] with capacity {c}")
            raise GoPanic(f"slice bounds out of range [{lo}:{hi}]")
        return SliceV(s.a, s.o + lo, hi - lo, c - lo)
    if not (0 <= lo <= hi <= mx <= c):
        raise GoPanic(f"slice bounds out of range [{lo}:{hi}:{mx}] with capacity {c}")
    return SliceV(s.a, s.o + lo, hi - lo, mx - lo)


def slice_a(a, lo, hi, mx):
    """a[lo:hi:mx] on an (addressable) array or pointer to array."""
    if a is None:
        raise GoPanic("invalid memory address or nil pointer dereference")
    n = len(a)
    if lo is None:
        lo = 0
    if hi is None:
        hi = n
    if mx is None:
        mx = n
    if not (0 <= lo <= hi <= mx <= n):
        raise GoPanic(f"slice bounds out of range [{lo}:{hi}:{mx}] with length {n}")
    return SliceV(a, lo, hi - lo, mx - lo)


def append(s, elems, rt):
    """append(s, elems...).  elems are already private copies; rt is the RType
    of the element type."""
    k = len(elems)
    if k == 0:
        return s
    n = s.n
    m = n + k
    if m <= s.c:
        a = s.a
        base = s.o + n
        if not rt.agg:
            a[base:base + k] = elems
        else:
            # aggregates are assigned in place to keep storage identity
            assign = rt.assign
            for j in range(k):
                assign(a[base + j], elems[j])
        return SliceV(a, s.o, m, s.c)
    # grow: amortised doubling (the exact growth policy is implementation
    # defined in Go)
    c = s.c * 2 if s.c < 256 else s.c + (s.c + 768) // 4
    if c < m:
        c = m
    if s.a is None:
        old = []
    elif not rt.agg:
        old = s.a[s.o:s.o + n]
    else:
        copy = rt.copy
        old = [copy(x) for x in s.a[s.o:s.o + n]]
    old.extend(elems)
    pad = c - m
    if pad:
        if rt.agg:
            zero = rt.zero
            old.extend(zero() for _ in range(pad))
        else:
            old.extend([rt.zero()] * pad)
    return SliceV(old, 0, m, c)


def copy_slice(dst, src, rt):
    n = min(dst.n, src.n)
    if n == 0:
        return 0
    vals = src.a[src.o:src.o + n]
    if not rt.agg:
        dst.a[dst.o:dst.o + n] = vals
    else:
        copy, assign = rt.copy, rt.assign
        vals = [copy(x) for x in vals]  # snapshot first (overlap)
        a, o = dst.a, dst.o
        for j in range(n):
            assign(a[o + j], vals[j])
    return n


def slice_list(s, rt):
    """Elements of a slice as a fresh Python list (private copies)."""
    if s.a is None:
        return []
    vals = s.a[s.o:s.o + s.n]
    if rt.agg:
        copy = rt.copy
        vals = [copy(x) for x in vals]
    return vals


def gopanic(v):
    """panic(v) - v is an interface value (or None for panic(nil))."""
    raise GoPanic(v, runtime=False)


def copy_from_str(dst, s):
    b = s.encode("utf-8", "surrogateescape")
    n = min(dst.n, len(b))
    dst.a[dst.o:dst.o + n] = list(b[:n])
    return n


def peq(a, b):
    """Equality of scalar pointers."""
    if a is b:
        return True
    if a is None or b is None:
        return False
    return a.c is b.c and a.k == b.k


def ifeq(a, b):
    """Equality of interface values."""
    if a is None or b is None:
        return a is b
    if a[0] is not b[0]:
        return False
    eq = a[0].eq
    if eq is None:
        raise GoPanic(f"comparing uncomparable type {a[0].name}")
    return eq(a[1], b[1])


def run_defers(d):
    """Run deferred calls in LIFO order."""
    while d:
        fn, args = d.pop()
        fn(*args)


# ---------------------------------------------------------------------------
# type directed helpers (zero / copy / assign / eq)
# ---------------------------------------------------------------------------
def scalar_zero(t: T.Type):
    u = t.underlying()
    if isinstance(u, T.Basic):
        if u.kind == "int":
            return 0
        if u.kind == "bool":
            return False
        if u.kind == "string":
            return ""
        raise GoUnsupported(f"zero value of {u.name}")
    if isinstance(u, T.Slice):
        return NILS
    if isinstance(u, (T.Pointer, T.Interface, T.Signature)):
        return None
    raise TypeError(f"not a scalar type: {T.type_str(t)}")


def is_flat(t: T.Type) -> bool:
    """Aggregate whose elements are all scalars."""
    u = t.underlying()
    if isinstance(u, T.Struct):
        return all(not T.is_agg(f.type) for f in u.fields)
    if isinstance(u, T.Array):
        return not T.is_agg(u.elem)
    return False


def make_zero(t: T.Type) -> Callable[[], object]:
    u = t.underlying()
    if isinstance(u, T.Struct):
        parts = []
        for f in u.fields:
            if T.is_agg(f.type):
                parts.append((True, make_zero(f.type)))
            else:
                parts.append((False, scalar_zero(f.type)))
        if all(not p[0] for p in parts):
            proto = [p[1] for p in parts]
            return proto.copy
        return lambda: [p[1]() if p[0] else p[1] for p in parts]
    if isinstance(u, T.Array):
        n = u.len
        if T.is_agg(u.elem):
            ez = make_zero(u.elem)
            return lambda: [ez() for _ in range(n)]
        z = scalar_zero(u.elem)
        proto = [z] * n
        return proto.copy
    z = scalar_zero(t)
    return lambda: z


def make_copy(t: T.Type) -> Optional[Callable]:
    """Deep copier of an aggregate type (None for scalars)."""
    u = t.underlying()
    if isinstance(u, T.Struct):
        if is_flat(t):
            return list.copy
        cps = [make_copy(f.type) for f in u.fields]
        idx = [(i, c) for i, c in enumerate(cps) if c is not None]

        def copy_struct(v):
            out = v.copy()
            for i, c in idx:
                out[i] = c(v[i])
            return out

        return copy_struct
    if isinstance(u, T.Array):
        if is_flat(t):
            return list.copy
        ec = make_copy(u.elem)
        return lambda v: [ec(x) for x in v]
    return None


def make_assign(t: T.Type) -> Optional[Callable]:
    """In-place assignment dst <- src of an aggregate type."""
    u = t.underlying()
    if isinstance(u, T.Struct):
        if is_flat(t):
            def assign_flat(dst, src):
                dst[:] = src
            return assign_flat
        asg = [make_assign(f.type) for f in u.fields]

        def assign_struct(dst, src):
            if dst is src:
                return
            i = 0
            for a in asg:
                if a is None:
                    dst[i] = src[i]
                else:
                    a(dst[i], src[i])
                i += 1

        return assign_struct
    if isinstance(u, T.Array):
        if is_flat(t):
            def assign_flat_arr(dst, src):
                dst[:] = src
            return assign_flat_arr
        ea = make_assign(u.elem)

        def assign_arr(dst, src):
            if dst is src:
                return
            for i in range(len(dst)):
                ea(dst[i], src[i])

        return assign_arr
    return None


def _basic_leaf(t: T.Type) -> bool:
    return isinstance(t.underlying(), T.Basic)


def make_eq(t: T.Type) -> Optional[Callable]:
    if not T.comparable(t):
        return None
    u = t.underlying()
    if isinstance(u, T.Basic):
        return operator.eq
    if isinstance(u, T.Pointer):
        return operator.is_ if T.is_agg(u.elem) else peq
    if isinstance(u, T.Interface):
        return ifeq
    if isinstance(u, T.Struct):
        if all(_basic_leaf(f.type) for f in u.fields):
            return operator.eq
        # blank fields are ignored by ==
        eqs = [(i, make_eq(f.type)) for i, f in enumerate(u.fields) if f.name != "_"]
        return lambda a, b: all(e(a[i], b[i]) for i, e in eqs)
    if isinstance(u, T.Array):
        if _basic_leaf(u.elem):
            return operator.eq
        ee = make_eq(u.elem)
        return lambda a, b: all(ee(x, y) for x, y in zip(a, b))
    return None


class RType:
    """Run-time type descriptor (one per distinct type per Program)."""

    __slots__ = ("t", "key", "name", "mt", "zero", "copy", "assign", "eq", "agg")

    def __init__(self, t: T.Type, key: str):
        self.t = t
        self.key = key
        self.name = T.type_str(t)
        self.mt: Dict[str, Callable] = {}
        self.agg = T.is_agg(t)
        self.zero = make_zero(t)
        self.copy = make_copy(t)
        self.assign = make_assign(t)
        self.eq = make_eq(t)

    def __repr__(self):  # pragma: no cover
        return f"<RType {self.name}>"


NIL_DEREF_MARKERS = (
    "'NoneType' object is not subscriptable",
    "'NoneType' object does not support item assignment",
    "'NoneType' object has no attribute 'c'",
    "'NoneType' object has no attribute 'k'",
    "'NoneType' object is not callable",
    "'NoneType' object is not iterable",
    "'NoneType' object has no attribute 'copy'",
)


def translate_exception(e: BaseException) -> Optional[BaseException]:
    """Map the Python exceptions that generated code deliberately relies on
    (nil dereference = operation on None) to GoPanic.  Anything else is an
    interpreter bug and is not translated."""
    if isinstance(e, (TypeError, AttributeError)):
        msg = str(e)
        for m in NIL_DEREF_MARKERS:
            if m in msg:
                return GoPanic("invalid memory address or nil pointer dereference")
    return None
