"""Semantics table of the selftest: Go snippets with the results required by
the Go language specification.

Each case is ``(name, ret, body, expect, decls)``:

* ``ret``    result type(s) of the generated ``func f() ret`` ("" = none)
* ``body``   function body
* ``expect`` the Python value returned through the Program API, or
             ``PANIC(substr)``, ``COMPILE(substr)``, ``UNSUPPORTED``,
             ``SYNTAX``
* ``decls``  optional package level declarations (then the case gets its own
             package)
"""

from __future__ import annotations


class PANIC:
    def __init__(self, sub=""):
        self.sub = sub


class COMPILE:
    def __init__(self, sub=""):
        self.sub = sub


class _Marker:
    def __init__(self, name):
        self.name = name

    def __repr__(self):
        return self.name


UNSUPPORTED = _Marker("UNSUPPORTED")          # GoUnsupported when building or calling
SYNTAX = _Marker("SYNTAX")                    # GoSyntaxError (not GoCompileError)

CASES = []


def C(name, ret, body, expect, decls=""):
    CASES.append((name, ret, body, expect, decls))


MAXU64 = (1 << 64) - 1
MINI64 = -(1 << 63)

# ---------------------------------------------------------------- wrap-around
C("uint8 255+1", "uint8", "var x uint8 = 255; x++; return x", 0)
C("uint8 0-1", "uint8", "var x uint8 = 0; x--; return x", 255)
C("int8 127+1", "int8", "var x int8 = 127; x++; return x", -128)
C("int8 -128-1", "int8", "var x int8 = -128; x--; return x", 127)
C("uint16 wrap", "uint16", "var x uint16 = 65535; x += 1; return x", 0)
C("int16 wrap", "int16", "var x int16 = 32767; x += 1; return x", -32768)
C("uint32 wrap", "uint32", "var x uint32 = 4294967295; x += 1; return x", 0)
C("int32 wrap", "int32", "var x int32 = 2147483647; x += 1; return x", -2147483648)
C("uint64 wrap", "uint64", "var x uint64 = 18446744073709551615; x += 1; return x", 0)
C("int64 wrap", "int64", "var x int64 = 9223372036854775807; x += 1; return x", MINI64)
C("int is 64 bit", "int", "x := 9223372036854775807; x++; return x", MINI64)
C("uint is 64 bit", "uint", "var x uint = 0; x--; return x", MAXU64)
C("uintptr wrap", "uintptr", "var x uintptr = 0; x--; return x", MAXU64)
C("uint8 mul", "uint8", "var x uint8 = 200; return x * 2", 144)
C("int8 mul", "int8", "var x int8 = 100; return x * 3", 44)
C("int8 neg min", "int8", "var x int8 = -128; return -x", -128)
C("uint8 neg", "uint8", "var x uint8 = 1; return -x", 255)
C("uint8 complement", "uint8", "var x uint8 = 0x0f; return ^x", 0xF0)
C("int8 complement", "int8", "var x int8 = 5; return ^x", -6)
C("uint32 mul overflow", "uint32", "var x uint32 = 65536; return x * x", 0)
C("int32 mul overflow", "int32", "var x int32 = 65537; return x * x", 131073)
C("int64 mul overflow", "int64", "var x int64 = 1 << 62; return x * 4", 0)
C("int16 sub wrap", "int16", "var x int16 = -32768; return x - 1", 32767)
C("uint16 mul wrap", "uint16", "var x uint16 = 256; return x * x", 0)
C("int8 min / -1", "int8", "var x int8 = -128; var y int8 = -1; return x / y", -128)
C("int8 min % -1", "int8", "var x int8 = -128; var y int8 = -1; return x % y", 0)
C("int64 min / -1", "int64", "var x int64 = -9223372036854775808; y := int64(-1); return x / y", MINI64)
C("uint8 add nonconst wraps", "uint8", "var a uint8 = 255; return a + 1", 0)
C("uint64 sub", "uint64", "var a, b uint64 = 1, 2; return a - b", MAXU64)
C("int32 -x", "int32", "var a int32 = -2147483648; return -a", -2147483648)
C("uint16 ^", "uint16", "var a uint16 = 1; return ^a", 65534)
C("uint64 ^0", "uint64", "var a uint64; return ^a", MAXU64)
C("int ^0", "int", "a := 0; return ^a", -1)

# ---------------------------------------------------------------- division
C("7/2", "int", "a, b := 7, 2; return a / b", 3)
C("-7/2", "int", "a, b := -7, 2; return a / b", -3)
C("7/-2", "int", "a, b := 7, -2; return a / b", -3)
C("-7/-2", "int", "a, b := -7, -2; return a / b", 3)
C("7%2", "int", "a, b := 7, 2; return a % b", 1)
C("-7%2", "int", "a, b := -7, 2; return a % b", -1)
C("7%-2", "int", "a, b := 7, -2; return a % b", 1)
C("-7%-2", "int", "a, b := -7, -2; return a % b", -1)
C("-7/2 by const", "int", "a := -7; return a / 2", -3)
C("-7%2 by const", "int", "a := -7; return a % 2", -1)
C("-7/2 by const (expr)", "int", "a := -6; return (a - 1) / 2", -3)
C("-8%3 by const (expr)", "int", "a := -7; return (a - 1) % 3", -2)
C("div by zero", "int", "a, b := 1, 0; return a / b", PANIC("divide by zero"))
C("mod by zero", "int", "a, b := 1, 0; return a % b", PANIC("divide by zero"))
C("uint div by zero", "uint8", "var a, b uint8 = 1, 0; return a / b", PANIC("divide by zero"))
C("const expr div", "int", "return 7 / 2 * 2", 6)
C("const -7/2", "int", "return -7 / 2", -3)
C("const -7%3", "int", "return -7 % 3", -1)
C("uint8 div", "uint8", "var a uint8 = 200; return a / 3", 66)
C("uint8 mod const", "uint8", "var x uint8 = 250; return x % 7", 5)
C("int8 /2", "int8", "var x int8 = -7; return x / 2", -3)
C("int8 %2", "int8", "var x int8 = -7; return x % 2", -1)
C("int8 >>1", "int8", "var x int8 = -7; return x >> 1", -4)
C("division by const zero", "int", "x := 1; return x / 0", COMPILE("division by zero"))
C("unary binds tighter", "int", "x := 5; return -x % 3", -2)

# ---------------------------------------------------------------- shifts
C("uint8 << 7", "uint8", "var x uint8 = 1; return x << 7", 128)
C("uint8 << 8 const count", "uint8", "var x uint8 = 1; return x << 8", 0)
C("uint8 << 8 var count", "uint8", "var s uint = 8; var x uint8 = 1; return x << s", 0)
C("uint32 << 200", "uint32", "var s uint = 200; var x uint32 = 1; return x << s", 0)
C("uint8 >> 8", "uint8", "var x uint8 = 0x80; var s uint = 8; return x >> s", 0)
C("int8 -128 >> 8", "int8", "var x int8 = -128; var s uint = 8; return x >> s", -1)
C("int8 -128 >> 7", "int8", "var x int8 = -128; return x >> 7", -1)
C("int8 64 >> 7", "int8", "var x int8 = 64; return x >> 7", 0)
C("int8 64 >> 100 const", "int8", "var x int8 = 64; return x >> 100", 0)
C("int8 -1 >> 100", "int8", "var x int8 = -1; var s uint = 100; return x >> s", -1)
C("int64 arithmetic >>", "int64", "var x int64 = -8; return x >> 1", -4)
C("int8 1<<7", "int8", "var x int8 = 1; var s uint = 7; return x << s", -128)
C("negative shift count <<", "int", "s := -1; x := 1; return x << s", PANIC("negative shift amount"))
C("negative shift count >>", "int", "s := -1; x := 1; return x >> s", PANIC("negative shift amount"))
C("negative shift int8 count", "uint8", "var s int8 = -3; var x uint8 = 1; return x << s", PANIC("negative shift amount"))
C("const negative shift count", "int", "x := 1; return x << -1", COMPILE("negative shift count"))
C("int8 sign extension 5 bit", "int8", "var x int8 = 0x1d; x <<= 3; x >>= 3; return x", -3)
C("int8 sign extension positive", "int8", "var x int8 = 0x0d; x <<= 3; x >>= 3; return x", 13)
C("int32 sign extension 24 bit", "int32", "var x int32 = 0xffffff; x <<= 8; x >>= 8; return x", -1)
C("int64 sign extension 37 bit", "int64", "var x int64 = 1 << 36; x <<= 27; x >>= 27; return x", -(1 << 36))
C("int16 sign extension 11 bit", "int16", "var x int16 = 0x400; x <<= 5; x >>= 5; return x", -1024)
C("shift count uint8", "int", "var s uint8 = 3; x := 1; return x << s", 8)
C("huge int64 count <<", "uint64", "var s int64 = 1 << 40; var x uint64 = 1; return x << s", 0)
C("huge int64 count >>", "uint64", "var s int64 = 1 << 40; var x uint64 = 1; return x >> s", 0)
C("huge uint64 count signed >>", "int8", "var s uint64 = 1 << 63; var x int8 = -5; return x >> s", -1)
C("uint64 1<<63", "uint64", "var x uint64 = 1; return x << 63", 1 << 63)
C("typed left operand keeps type", "uint8", "var b byte = 0xff; lshift := 4; return uint8(b) << lshift", 0xF0)
C("named type shift", "uint8", "var b byte = 0x81; lshift := 1; return uint8(Color(b) << lshift)", 2, "type Color uint8")
C("1<<c int ctx 62", "int", "c := 62; return 1 << c", 1 << 62)
C("1<<c int ctx 63", "int", "c := 63; return 1 << c", MINI64)
C("1<<c int ctx 64", "int", "c := 64; return 1 << c", 0)
C("getMask rule", "int", "c := 5; return (1 << c) - 1", 31)
C("getMask rule 2", "int", "k, c := 2, 5; return (1 << ((k + 1 + c) - 1)) - (1 << ((k + 1) - 1))", 124)
C("spec: var i = 1<<s", "int", "var s uint = 33; var i = 1 << s; return i", 1 << 33)
C("spec: var j int32 = 1<<s", "int32", "var s uint = 33; var j int32 = 1 << s; return j", 0)
C("spec: uint64(1<<s)", "uint64", "var s uint = 33; var k = uint64(1 << s); return k", 1 << 33)
C("spec: 1<<s == j", "bool", "var s uint = 33; var j int32 = 1 << s; var n = 1<<s == j; return n", True)
C("spec: 1<<s == 2<<s", "bool", "var s uint = 33; var o = 1<<s == 2<<s; return o", False)
C("spec: 1<<s == 1<<33", "bool", "var s uint = 33; var p = 1<<s == 1<<33; return p", True)
C("spec: a[1<<s] panics", "int", "var a []int; var s uint = 33; return a[1<<s]", PANIC("index out of range"))
C("spec: make([]byte, 1<<s)", "int", "var s uint = 10; b := make([]byte, 1<<s); return len(b)", 1024)
C("1<<c as uint8 var", "uint8", "var c uint = 10; var x uint8 = 1 << c; return x", 0)
C("1<<c untyped arithmetic uint8", "int8", "var c uint = 3; var x int8 = (1 << c) + 120; return x", -128)
C("uint8(1<<c)", "uint8", "var c uint = 9; return uint8(1 << c)", 0)
C("300<<c as uint8 illegal", "uint8", "var c uint = 1; var x uint8 = 300 << c; return x", COMPILE("overflows"))
C("u32 <<31>>31", "uint32", "var u uint32 = 1; return u << 31 >> 31", 1)
C("i32 <<31>>31", "int32", "var i int32 = 1; return i << 31 >> 31", -1)
C("const shift typed overflow", "uint8", "return uint8(1) << 8", COMPILE("overflows"))
C("shift of bool illegal", "int", "b := true; return b << 1", COMPILE("must be integer"))
C("shift count string illegal", "int", "x := 1; return x << \"a\"", COMPILE(""))

# ---------------------------------------------------------------- conversions
C("byte(0x1234)", "byte", "x := 0x1234; return byte(x)", 0x34)
C("uint8(-1)", "uint8", "x := -1; return uint8(x)", 255)
C("int8(200)", "int8", "var x uint8 = 200; return int8(x)", -56)
C("uint16(int8(-1))", "uint16", "var x int8 = -1; return uint16(x)", 65535)
C("uint64(int8(-1))", "uint64", "var x int8 = -1; return uint64(x)", MAXU64)
C("int64(uint64 1<<63)", "int64", "var x uint64 = 1 << 63; return int64(x)", MINI64)
C("byte(w>>8)", "byte", "var w uint16 = 0xabcd; return byte(w >> 8)", 0xAB)
C("int64(byte(x))", "int64", "x := -1; return int64(byte(x))", 255)
C("int32(int64)", "int32", "var x int64 = 0x1_8000_0001; return int32(x)", -2147483647)
C("uint8(256) const", "uint8", "return uint8(256)", COMPILE("overflows"))
C("uint(-1) const", "uint", "return uint(-1)", COMPILE("overflows"))
C("int8(-128) const", "int8", "return int8(-128)", -128)
C("var uint8 = 256", "uint8", "var x uint8 = 256; return x", COMPILE("overflows"))
C("var int8 = 127+1", "int8", "var x int8 = 127 + 1; return x", COMPILE("overflows"))
C("Color(b)", "uint8", "var b byte = 7; c := Color(b); return uint8(c) + 1", 8, "type Color uint8")
C("Ts(b)", "int64", "var b byte = 200; t := Ts(b) << 56; return int64(t)", -(56 << 56), "type Ts int64")
C("bool(named)", "int", "var b Bl = true; if bool(b) { return 1 }; return 0", 1, "type Bl bool")
C("Bl(bool)", "bool", "x := 3 > 2; var b Bl = Bl(x); return bool(b)", True, "type Bl bool")
C("mismatched types", "int", "var a int8 = 1; var b int16 = 2; return int(a + b)", COMPILE("mismatched types"))
C("named vs underlying mismatched", "int", "var a Color = 1; var b uint8 = 2; return int(a + b)", COMPILE("mismatched types"),
  "type Color uint8")
C("const does not fit operand type", "uint8", "var a uint8 = 1; return a + 256", COMPILE("overflows"))
C("typed const overflow", "uint8", "return A + 100", COMPILE("overflows"), "const A uint8 = 200")
C("typed const into var wraps", "uint8", "var x = A; return x + 100", 44, "const A uint8 = 200")
C("assign int to int64 illegal", "int64", "x := 1; var y int64 = x; return y", COMPILE("cannot use"))
C("int(ahead)", "int", "var ahead uint16 = 65535; return int(ahead) * 3", 196605)
C("uint16(capacity)", "uint16", "capacity := 70000; return uint16(capacity)", 4464)
C("string(rune)", "int", "r := 'é'; s := string(r); return len(s)", 2)
C("[]byte(string)", "int", "b := []byte(\"hi\"); return int(b[1])", 105)
C("string([]byte)", "string", "b := []byte{104, 105}; return string(b)", "hi")

# ---------------------------------------------------------------- constants
C("big constant", "int", "const big = 1 << 100; return big >> 98", 4)
C("1<<64-1", "uint64", "const x = 1<<64 - 1; return uint64(x)", MAXU64)
C("const exact", "int", "return 1 << 64 >> 60", 16)
C("var = 1<<63 overflows int", "int", "var x = 1 << 63; return x", COMPILE("overflows"))
C("rune const", "int32", "return 'a' + 1", 98)
C("rune default type", "int32", "x := 'a'; x += 2; return x", 99)
C("untyped bool const", "int", "const t = 1 < 2; if t { return 1 }; return 0", 1)
C("len of const string", "int", "return len(\"héllo\")", 6)
C("const string concat", "int", "const s = \"ab\" + \"cd\"; return len(s)", 4)
C("iota", "int", "return C", 2, "const (\n A = iota\n B\n C\n)")
C("iota shift", "int", "return D", 8, "const (\n A = 1 << iota\n B\n C\n D\n)")
C("iota skip", "int", "return MB", 1 << 20, "const (\n _ = iota\n KB = 1 << (10 * iota)\n MB\n)")
C("iota typed implicit repetition", "int", "return int(C.Twice())", 8,
  "type W int\nconst (\n A W = iota * 2\n B\n C\n)\nfunc (w W) Twice() W { return w * 2 }")
C("generator enum: GREEN untyped", "int64", "var x int64 = GREEN; return x", 1,
  "type Color uint8\nconst (\n RED Color = 0\n GREEN = 1\n)")
C("generator enum: RED typed", "int64", "var x int64 = RED; return x", COMPILE("cannot use"),
  "type Color uint8\nconst (\n RED Color = 0\n GREEN = 1\n)")
C("iota two per line", "int", "return d*100 + c", 1001, "const (\n a, b = iota, iota * 10\n c, d\n)")
C("iota resets", "int", "return X*10 + Y", 1, "const (\n P = iota\n Q\n)\nconst (\n X = iota\n Y\n)")
C("iota outside const", "int", "return iota", COMPILE("iota"))
C("const refers to later const", "int", "return A", 5, "const A = B + 2\nconst B = 3")
C("const cycle", "int", "return A", COMPILE("cycle"), "const A = B\nconst B = A")
C("non-constant in const", "int", "return A", COMPILE("not constant"), "var v = 1\nconst A = v")
C("untyped const to interface takes int", "bool", "var i interface{} = 1; var j interface{} = int(1); return i == j", True)
C("typed const keeps type", "uint8", "const c uint8 = 3; x := c; x -= 4; return x", 255)
C("local const iota", "int", "const (\n a = iota + 5\n b\n)\nreturn b", 6)
C("precedence << with *", "int", "return 1 + 2*3<<1", 13)
C("precedence & with ==", "bool", "a, b := 6, 3; return a&b == 2", True)
C("precedence &^", "uint8", "var x uint8 = 0xff; return x &^ 0x0f | 1", 0xF1)
C("hex/octal/binary literals", "int", "return 0x10 + 0o10 + 010 + 0b10 + 1_000", 16 + 8 + 8 + 2 + 1000)

# ---------------------------------------------------------------- arrays / slices
C("array assignment copies", "int", "a := [3]int{1, 2, 3}; b := a; b[0] = 9; return a[0]", 1)
C("array param copies", "int", "a := [3]int{1, 2, 3}; mod(a); return a[0]", 1, "func mod(a [3]int) { a[0] = 9 }")
C("array returned is copy", "int", "a := get(); a[0] = 5; b := get(); return b[0]", 1,
  "var g = [2]int{1, 2}\nfunc get() [2]int { return g }")
C("slice aliases", "int", "a := []int{1, 2, 3}; b := a; b[0] = 9; return a[0]", 9)
C("slice of array aliases", "int", "a := [3]int{1, 2, 3}; s := a[:]; s[1] = 7; return a[1]", 7)
C("array in struct copies", "int", "x := S{}; y := x; y.A[0] = 5; return x.A[0]", 0, "type S struct{ A [2]int }")
C("nested arrays copy", "int", "a := [2][2]int{{1, 2}, {3, 4}}; b := a; b[1][1] = 9; return a[1][1]", 4)
C("nested array row copy", "int", "a := [2][2]int{{1, 2}, {3, 4}}; r := a[1]; r[0] = 9; return a[1][0]", 3)
C("nested array row assign", "int", "a := [2][2]int{{1, 2}, {3, 4}}; p := &a[0][1]; a[0] = a[1]; return *p", 4)
C("array ==", "bool", "a := [2]int{1, 2}; b := [2]int{1, 2}; return a == b", True)
C("array !=", "bool", "a := [2]int{1, 2}; b := [2]int{1, 3}; return a != b", True)
C("array elem struct copy", "int", "a := [2]P{}; p := a[0]; p.X = 3; return a[0].X", 0, "type P struct{ X int }")
C("range over array copy", "int", "a := [3]int{1, 2, 3}; s := 0; for _, v := range a { a[2] = 10; s += v }; return s", 6)
C("range over slice live", "int", "a := []int{1, 2, 3}; s := 0; for _, v := range a { a[2] = 10; s += v }; return s", 13)
C("range over ptr to array live", "int", "a := [3]int{1, 2, 3}; s := 0; for _, v := range &a { a[2] = 10; s += v }; return s", 13)
C("range slice len fixed", "int", "a := []int{1, 2}; n := 0; for range a { a = append(a, 0); n++ }; return n", 2)
C("range index only", "int", "a := [4]int{}; s := 0; for i := range a { s += i }; return s", 6)
C("range assign form", "int", "var i, v int; for i, v = range []int{5, 6, 7} {}; return i*10 + v", 27)
C("range value struct copy", "int", "a := []P{{1}, {2}}; for _, p := range a { p.X = 9 }; return a[0].X", 1, "type P struct{ X int }")
C("slice index oob", "int", "a := []int{1}; i := 1; return a[i]", PANIC("index out of range"))
C("array index oob dynamic", "int", "a := [2]int{}; i := 2; return a[i]", PANIC("index out of range"))
C("array index oob const", "int", "a := [2]int{}; return a[2]", COMPILE("out of bounds"))
C("negative index dynamic", "int", "a := [2]int{}; i := -1; return a[i]", PANIC("index out of range"))
C("negative index expr", "int", "a := []int{1, 2}; i := 0; return a[i-1]", PANIC("index out of range"))
C("index store oob", "int", "a := []int{1}; i := 3; a[i] = 1; return 0", PANIC("index out of range"))
C("uint8 index", "int", "a := [300]int{}; a[255] = 7; var i uint8 = 255; return a[i]", 7)
C("len cap make", "int", "s := make([]int, 2, 5); return len(s)*10 + cap(s)", 25)
C("append within cap aliases", "int", "s := make([]int, 1, 2); t := append(s, 5); u := append(s, 6); _ = u; return t[1]", 6)
C("append beyond cap copies", "int", "s := []int{1}; t := append(s, 2); t[0] = 9; return s[0]", 1)
C("append to nil", "int", "var s []int; s = append(s, 1, 2, 3); return len(s)*10 + s[2]", 33)
C("append slice...", "int", "a := []int{1}; b := []int{2, 3}; a = append(a, b...); return len(a)*10 + a[2]", 33)
C("slice expr len cap", "int", "s := []int{0, 1, 2, 3, 4}; t := s[1:3]; return len(t)*10 + cap(t)", 24)
C("3-index slice", "int", "s := []int{0, 1, 2, 3, 4}; t := s[1:3:4]; return len(t)*10 + cap(t)", 23)
C("slice bounds panic", "int", "s := []int{1, 2}; n := 3; t := s[:n]; return len(t)", PANIC("slice bounds out of range"))
C("slice up to cap", "int", "s := make([]int, 1, 3); t := s[:3]; return len(t)", 3)
C("slice inverted panic", "int", "s := []int{1, 2, 3}; i, j := 2, 1; t := s[i:j]; return len(t)", PANIC("slice bounds out of range"))
C("slice of slice shares", "int", "s := []int{0, 1, 2, 3}; t := s[1:]; t[0] = 9; return s[1]", 9)
C("nil slice", "bool", "var s []int; return s == nil && len(s) == 0 && cap(s) == 0", True)
C("empty literal not nil", "bool", "s := []int{}; return s != nil", True)
C("copy builtin", "int", "a := []int{1, 2, 3}; b := make([]int, 2); n := copy(b, a); return n*100 + b[1]", 202)
C("copy overlapping", "int", "a := []int{1, 2, 3, 4}; copy(a[1:], a); return a[3]*10 + a[1]", 31)
C("array literal keys", "int", "a := [5]int{1: 10, 3: 30}; return a[3] + a[2] + a[1]", 40)
C("array literal ...", "int", "a := [...]int{1, 2, 3}; return len(a)", 3)
C("slice literal key", "int", "a := []int{2: 7}; return len(a)*10 + a[2]", 37)
C("len of array is const", "int", "var a [7]int; const n = len(a); return n", 7)
C("slice == slice illegal", "bool", "a := []int{}; b := []int{}; return a == b", COMPILE("only be compared to nil"))
C("zero array", "int", "var a [3]uint8; return int(a[0]) + int(a[2])", 0)
C("make negative const", "int", "s := make([]int, -1); return len(s)", COMPILE("negative"))
C("make negative dynamic", "int", "n := -1; s := make([]int, n); return len(s)", PANIC("len out of range"))
C("multi-dim index", "int", "var a [2][3]uint8; a[1][2] = 7; i, j := 1, 2; return int(a[i][j])", 7)
C("slice of structs append", "int", "var s []P; s = append(s, P{1}); p := s[0]; p.X = 5; return s[0].X", 1, "type P struct{ X int }")
C("slice elem field assign", "int", "s := []P{{1}}; s[0].X = 5; return s[0].X", 5, "type P struct{ X int }")

# ---------------------------------------------------------------- pointers
C("pointer to local", "int", "x := 1; p := &x; *p = 5; return x", 5)
C("pointer to array elem", "int", "a := [3]int{}; p := &a[1]; *p = 7; return a[1]", 7)
C("pointer to field", "int", "s := S{}; p := &s.B; *p = 3; return s.B", 3, "type S struct{ A, B int }")
C("pointer to struct", "int", "s := S{}; p := &s; p.A = 4; return s.A", 4, "type S struct{ A, B int }")
C("pointer into nested array of struct", "int", "m := M{}; p := &(m.Ds[1]); p.Z = 9; return m.Ds[1].Z", 9,
  "type D struct{ Z int }\ntype M struct{ Ds [2]D }")
C("field pointer survives struct assign", "int", "s := S{1, 2}; p := &s.B; s = S{5, 6}; return *p", 6, "type S struct{ A, B int }")
C("nested field pointer survives assign", "int", "o := O{}; p := &o.In.V; o = O{I{8}}; return *p", 8,
  "type I struct{ V int }\ntype O struct{ In I }")
C("nil struct pointer deref", "int", "var p *S; return p.A", PANIC("nil pointer"), "type S struct{ A, B int }")
C("nil struct pointer store", "int", "var p *S; p.A = 1; return 0", PANIC("nil pointer"), "type S struct{ A, B int }")
C("nil int pointer deref", "int", "var p *int; return *p", PANIC("nil pointer"))
C("nil struct deref copy", "int", "var p *S; s := *p; return s.A", PANIC("nil pointer"), "type S struct{ A, B int }")
C("new(int)", "int", "p := new(int); *p = 3; return *p", 3)
C("new(struct)", "int", "p := new(S); p.B = 3; return p.A + p.B", 3, "type S struct{ A, B int }")
C("&T{} shared", "int", "p := &S{A: 1}; q := p; q.A = 2; return p.A", 2, "type S struct{ A, B int }")
C("pointer equality", "bool", "a := [2]int{}; p, q := &a[0], &a[0]; return p == q && &a[0] != &a[1]", True)
C("struct pointer equality", "bool", "s := S{}; t := S{}; return &s == &s && &s != &t", True, "type S struct{ A, B int }")
C("pointer to pointer", "int", "x := 1; p := &x; pp := &p; **pp = 4; return x", 4)
C("pointer to slice elem", "int", "s := []int{1, 2}; p := &s[0]; *p = 9; return s[0]", 9)
C("deref copy", "int", "s := S{1, 2}; p := &s; t := *p; t.A = 9; return s.A", 1, "type S struct{ A, B int }")
C("store through struct ptr", "int", "s := S{1, 2}; p := &s; *p = S{7, 8}; return s.A*10 + s.B", 78, "type S struct{ A, B int }")
C("pointer param", "int", "x := 0; set(&x); return x", 3, "func set(p *int) { *p = 3 }")
C("pointer to array indexing", "int", "a := [3]int{}; p := &a; p[1] = 5; return a[1]*10 + len(p)", 53)
C("fresh variable per iteration body", "int",
  "var ps []*int; for i := 0; i < 3; i++ { x := i; ps = append(ps, &x) }; return *ps[0] + *ps[1]*10 + *ps[2]*100", 210)
C("incdec via pointer", "int", "x := 10; p := &x; q := p; *q++; return x", 11)
C("pointer to global", "int", "p := &g; *p = 4; return g", 4, "var g int")
C("pointer to named int via method", "int", "var c Cnt; c.Inc(); c.Inc(); return int(c)", 2,
  "type Cnt int\nfunc (c *Cnt) Inc() { *c++ }")
C("address of loop var unsupported", "int", "s := 0; for i := 0; i < 2; i++ { p := &i; s += *p }; return s", UNSUPPORTED)
C("address of non-addressable", "int", "p := &f(); return *p", COMPILE("address"), "func f() int { return 1 }")
C("swap through pointers", "int", "a, b := 1, 2; p, q := &a, &b; *p, *q = *q, *p; return a*10 + b", 21)

# ---------------------------------------------------------------- methods / interfaces
_SH = """
type Shape interface { Area() int }
type Sq struct{ side int }
type Rect struct{ w, h int }
func (s Sq) Area() int { return s.side * s.side }
func (r *Rect) Area() int { return r.w * r.h }
func (r *Rect) Grow() { r.w++ }
"""
C("value receiver copy", "int", "c := Cv{}; c.Inc(); return c.N", 0, "type Cv struct{ N int }\nfunc (c Cv) Inc() { c.N++ }")
C("pointer receiver auto address", "int", "c := Cp{}; c.Inc(); c.Inc(); return c.N", 2,
  "type Cp struct{ N int }\nfunc (c *Cp) Inc() { c.N++ }")
C("named int method wraps", "int64", "var t Ts = 1 << 62; return int64(t.Double())", MINI64,
  "type Ts int64\nfunc (t Ts) Double() Ts { return t * 2 }")
C("interface dispatch", "int", "shapes := []Shape{Sq{3}, &Rect{2, 5}}; s := 0; for _, x := range shapes { s += x.Area() }; return s", 19, _SH)
C("interface holds copy", "int", "sq := Sq{2}; var s Shape = sq; sq.side = 10; return s.Area()", 4, _SH)
C("interface holds pointer", "int", "r := &Rect{2, 3}; var s Shape = r; r.Grow(); return s.Area()", 9, _SH)
C("nil interface", "bool", "var s Shape; return s == nil", True, _SH)
C("non-nil interface", "bool", "var s Shape = Sq{1}; return s != nil", True, _SH)
C("typed nil pointer in interface != nil", "bool", "var r *Rect; var s Shape = r; return s != nil", True, _SH)
C("nil interface method call", "int", "var s Shape; return s.Area()", PANIC("nil pointer"), _SH)
C("value method via pointer", "int", "p := &Sq{4}; return p.Area()", 16, _SH)
C("value method via nil pointer", "int", "var p *Sq; return p.Area()", PANIC("nil pointer"), _SH)
C("value type lacks pointer method", "int", "var s Shape = Rect{1, 2}; return s.Area()", COMPILE("does not implement"), _SH)
C("pointer method on non-addressable", "int", "return mk().Area()", COMPILE("not addressable"), _SH + "func mk() Rect { return Rect{1, 2} }")
C("interface equality", "bool", "var a Shape = Sq{2}; var b Shape = Sq{2}; var c Shape = Sq{3}; return a == b && a != c", True, _SH)
C("interface pointer identity", "bool", "r := &Rect{}; var a Shape = r; var b Shape = r; var c Shape = &Rect{}; return a == b && a != c", True, _SH)
C("value receiver via interface does not leak", "int", "var s Setter = V{1}; s.Set(5); return s.Get()", 1,
  "type Setter interface { Set(int); Get() int }\ntype V struct{ n int }\nfunc (v V) Set(n int) { v.n = n }\nfunc (v V) Get() int { return v.n }")
C("interface to interface", "int", "var b Big = &Rect{2, 2}; var s Shape = b; return s.Area()", 4,
  _SH + "type Big interface { Area() int; Grow() }")
C("array type method copy", "int", "a := Arr{1, 2, 3}; a.Zero(); return a.Sum()", 6,
  "type Arr [3]uint8\nfunc (a Arr) Zero() { a[0] = 0 }\nfunc (a Arr) Sum() int { s := 0; for _, v := range a { s += int(v) }; return s }")
C("method on composite literal ptr", "int", "return (&Rect{3, 4}).Area()", 12, _SH)
C("method on conversion", "int", "return (Cl(3)).Twice()", 6, "type Cl uint8\nfunc (c Cl) Twice() int { return int(c) * 2 }")
C("blank receiver and params", "int", "x := &T0{}; return x.F(1, 2)", 2, "type T0 struct{}\nfunc (_ *T0) F(_ int, b int) int { return b }")
C("duplicate method", "int", "return 0", COMPILE("already declared"), "type T0 struct{}\nfunc (T0) F() {}\nfunc (*T0) F() {}")
C("field and method same name", "int", "return 0", COMPILE("field and method"), "type T0 struct{ Size int }\nfunc (T0) Size() int { return 0 }")
C("unexported field access", "int", "s := Sq{3}; return s.side", 3, _SH)
C("unknown field", "int", "s := Sq{3}; return s.nope", COMPILE("no field or method"), _SH)
C("interface in struct field", "int", "h := H{Sq{2}}; return h.s.Area()", 4, _SH + "type H struct{ s Shape }")

# ---------------------------------------------------------------- switch
C("switch no fallthrough", "int", "x := 1; r := 0; switch x { case 1: r += 1; case 2: r += 10 }; return r", 1)
C("switch multi values", "int", "x := 2; r := 0; switch x { case 1, 2, 3: r = 5; default: r = 9 }; return r", 5)
C("switch default", "int", "x := 7; r := 0; switch x { case 1, 2, 3: r = 5; default: r = 9 }; return r", 9)
C("switch default in the middle", "int", "x := 5; r := 0; switch x { case 1: r = 2; default: r = 9; case 5: r = 1 }; return r", 1)
C("tagless switch", "int", "x := 5; switch { case x > 3: return 1; case x > 1: return 2 }; return 3", 1)
C("switch init", "int", "x := 2; switch y := x * 2; y { case 4: return y + 1 }; return 0", 5)
C("break in switch in for", "int", "n := 0; for i := 0; i < 3; i++ { switch i { case 1: break }; n++ }; return n", 3)
C("continue in switch in for", "int", "n := 0; for i := 0; i < 5; i++ { switch { case i%2 == 0: continue }; n += i }; return n", 4)
C("continue through breaking switch", "int",
  "n := 0; for i := 0; i < 6; i++ { switch { case i == 1: break; case i%2 == 0: continue }; n += i }; return n", 9)
C("continue through nested breaking switches", "int",
  "n := 0; for i := 0; i < 4; i++ { switch { case true: switch { case i == 2: continue; case i == 3: break }; if i == 0 { break }; n += 10 }; n++ }; return n", 23)
C("conditional break in switch", "int", "x := 1; r := 0; switch { case true: if x > 0 { break }; r = 5 }; return r", 0)
C("switch on named type", "string", "return name(1) + name(7)", "GREENother",
  "type Color uint8\nfunc name(v Color) string { switch v { case 0: return \"RED\"; case 1: return \"GREEN\"; default: return \"other\" } }")
C("switch duplicate case", "int", "x := 1; switch x { case 1: return 1; case 1: return 2 }; return 0", COMPILE("duplicate case"))
C("switch tag evaluated once", "int", "switch next() { case 5: return 0; case 1: return cnt }; return -1", 1,
  "var cnt int\nfunc next() int { cnt++; return cnt }")
C("switch case mismatched type", "int", "x := 1; switch x { case \"a\": return 1 }; return 0", COMPILE(""))
C("fallthrough unsupported", "int", "x := 1; switch x { case 1: fallthrough; case 2: return 2 }; return 0", UNSUPPORTED)
C("switch return terminates", "int", "x := 1; switch x { case 1: return 1; default: return 2 }", 1)
C("missing return", "int", "x := 1; switch x { case 1: return 1 }", COMPILE("missing return"))

# ---------------------------------------------------------------- loops / defer / functions
C("three clause for", "int", "s := 0; for i := 0; i < 5; i++ { s += i }; return s", 10)
C("condition only for", "int", "i := 0; for i < 7 { i += 2 }; return i", 8)
C("infinite for break", "int", "i := 0; for { i++; if i == 4 { break } }; return i", 4)
C("for with continue runs post", "int", "s := 0; for i := 0; i < 5; i++ { if i == 2 { continue }; s += i }; return s", 8)
C("for without cond with post", "int", "s := 0; for i := 0; ; i++ { if i > 3 { break }; s += i }; return s", 6)
C("nested loops break inner", "int", "n := 0; for i := 0; i < 3; i++ { for j := 0; j < 3; j++ { if j == 1 { break }; n++ } }; return n", 3)
C("for range count", "int", "n := 0; for range []int{1, 2, 3} { n++ }; return n", 3)
C("for post uses outer var", "int", "i := 0; for i = 0; i < 3; i++ {}; return i", 3)
_LOG = "var log []int\nfunc push(n int) { log = append(log, n) }\nfunc enc() int { r := 0; for _, v := range log { r = r*10 + v }; return r }\n"
C("defer LIFO", "int", "g(); return enc()", 21, _LOG + "func g() { defer push(1); defer push(2); push(0) }")
C("defer args evaluated early", "int", "g(); return enc()", 1, _LOG + "func g() { x := 1; defer push(x); x = 2 }")
C("defer in loop", "int", "g(); return enc()", 210, _LOG + "func g() { for i := 0; i < 3; i++ { defer push(i) } }")
C("defer method on pointer", "int", "d := &Dp{}; g(d); return d.n", 11,
  "type Dp struct{ n int }\nfunc (d *Dp) Up() { d.n += 10 }\nfunc (d *Dp) Down() { d.n++ }\nfunc g(d *Dp) { d.Up(); defer d.Down() }")
C("defer runs before return value used", "int", "return g()", 5,
  "var st = 5\nfunc reset() { st = 0 }\nfunc g() int { defer reset(); return st }")
C("multi value return", "int", "q, r := dm(7, 2); return q*10 + r", 31, "func dm(a, b int) (int, int) { return a / b, a % b }")
C("blank in multi assign", "int", "v, _ := dm(7, 2); return v", 3, "func dm(a, b int) (int, int) { return a / b, a % b }")
C("named results", "int", "a, b := nr(); return a*10 + b", 12, "func nr() (x int, y int) { x = 1; y = 2; return }")
C("f(g()) multi", "int", "return add(dm(7, 2))", 4, "func dm(a, b int) (int, int) { return a / b, a % b }\nfunc add(a, b int) int { return a + b }")
C("return f() multi", "int", "a, b := w(); return a*10 + b", 31,
  "func dm(a, b int) (int, int) { return a / b, a % b }\nfunc w() (int, int) { return dm(7, 2) }")
C("grouped params", "int", "return f3(1, 2, 3)", 123, "func f3(a, b int, c uint8) int { return a*100 + b*10 + int(c) }")
C("recursion", "int", "return fib(15)", 610, "func fib(n int) int { if n < 2 { return n }; return fib(n-1) + fib(n-2) }")
C("shadowing", "int", "x := 1; { x := 2; _ = x }; return x", 1)
C("if init scope", "int", "x := 1; if x := 5; x > 3 { return x }; return x", 5)
C("if else chain", "int", "x := 5; if x < 3 { return 1 } else if x < 6 { return 2 } else { return 3 }", 2)
C("else if with init", "int", "x := 5; if x < 3 { return 1 } else if y := x * 2; y == 10 { return y } else { return 3 }", 10)
C("swap", "int", "x, y := 1, 2; x, y = y, x; return x*10 + y", 21)
C("spec: i, a[i] = 1, 5", "int", "i := 0; a := []int{0, 0}; i, a[i] = 1, 5; return a[0]*10 + a[1]", 50)
C("op assign chain", "int", "x := 6; x |= 1; x &= 5; x ^= 2; x += 3; x -= 1; x *= 2; x /= 3; x %= 4; x <<= 2; x >>= 1; x &^= 2; return x", 4)
C("short circuit", "int", "if false && t() {}; if true || t() {}; return cnt", 0, "var cnt int\nfunc t() bool { cnt++; return true }")
C("string ops", "int", "s := \"a\"; s += \"b\"; if s < \"b\" && s == \"ab\" { return len(s + \"c\") }; return 0", 3)
C("string index", "int", "s := \"héllo\"; return int(s[1])", 0xC3)
C("string slice", "string", "s := \"hello\"; return s[1:3]", "el")
C("struct ==", "bool", "return S{1, 2} == S{1, 2} && S{1, 2} != S{1, 3}", True, "type S struct{ A, B int }")
C("global init order", "int", "return a", 3, "var a = b + 1\nvar b = 2")
C("global init via func", "int", "return a", 5, "var a = f()\nvar b = 4\nfunc f() int { return b + 1 }")
C("global init cycle", "int", "return a", COMPILE("cycle"), "var a = b\nvar b = a")
C("function value global", "int", "return fv(1, 2)", 3, "func add(a, b int) int { return a + b }\nvar fv = add")
C("function value local", "int", "g := add; return g(2, 2)", 4, "func add(a, b int) int { return a + b }")
C("nil func call", "int", "var g func() int; return g()", PANIC("nil pointer"))
C("type alias", "int", "var f Flag = 3; var i int = f; return i", 3, "type Flag = int")
C("alias const untyped quirk", "int", "var x int64 = FlagInt; return int(x) + FlagBool", 3,
  "type Flag = int\nconst (\n FlagBool Flag = 1\n FlagInt = 2\n)")
C("struct literals", "int", "a := S{1, 2}; b := S{B: 5}; var c S; return a.A + a.B + b.A + b.B + c.A", 8, "type S struct{ A, B int }")
C("struct literal too few", "int", "a := S{1}; return a.A", COMPILE("too few"), "type S struct{ A, B int }")
C("struct literal unknown field", "int", "a := S{C: 1}; return a.A", COMPILE("unknown field"), "type S struct{ A, B int }")
C("elided pointer literals", "int", "ps := []*S{{1, 2}, {3, 4}}; return ps[1].A", 3, "type S struct{ A, B int }")
C("elided nested literals", "int", "m := [2]S{{1, 2}, {B: 4}}; return m[1].B + m[0].A", 5, "type S struct{ A, B int }")
C("package level min shadows builtin", "int", "return min(min(5, 3), 4)", 3, "func min(a, b int) int { if a < b { return a }; return b }")
C("var block zero values", "int", "var a int; var b bool; var s string; var p *int; if !b && s == \"\" && p == nil { return a + 1 }; return 0", 1)
C("undefined name", "int", "return nope", COMPILE("undefined: nope"))
C("redeclared", "int", "x := 1; x := 2; return x", COMPILE("no new variables"))
C("assign to undeclared", "int", "y = 1; return 0", COMPILE("undefined: y"))
C("wrong arg count", "int", "return add(1)", COMPILE("wrong number of arguments"), "func add(a, b int) int { return a + b }")
C("arg range const", "int", "return int(f8(300))", COMPILE("overflows"), "func f8(a uint8) uint8 { return a }")
C("bool arithmetic illegal", "bool", "a, b := true, false; return a + b", COMPILE("not defined"))
C("non-bool condition", "int", "x := 1; if x { return 1 }; return 0", COMPILE("non-boolean"))
C("unused result", "int", "x := 1; x + 1; return x", COMPILE("not used"))
C("panic builtin", "int", "panic(\"boom\")", PANIC("boom"))
C("panic with int", "int", "x := 1; if x == 1 { panic(42) }; return 0", PANIC("42"))

# ---------------------------------------------------------------- unsupported / syntax
C("labeled break", "int", "L: for { break L }; return 0", UNSUPPORTED)
C("goto", "int", "goto L; L: return 0", UNSUPPORTED)
C("closure", "int", "f := func() int { return 1 }; return f()", UNSUPPORTED)
C("map", "int", "m := map[string]int{}; return len(m)", UNSUPPORTED)
C("float", "int", "x := 1.5; return int(x)", UNSUPPORTED)
C("float type", "int", "var x float64; return int(x)", UNSUPPORTED)
C("type assertion", "int", "var i interface{} = 1; return i.(int)", UNSUPPORTED)
C("goroutine", "int", "go f(); return 0", UNSUPPORTED, "func f() {}")
C("channel", "int", "c := make(chan int); return len(c)", UNSUPPORTED)
C("select", "int", "select {}; return 0", UNSUPPORTED)
C("generic func", "int", "return id[int](1)", UNSUPPORTED, "func id[T any](x T) T { return x }")
C("variadic decl", "int", "return v(1, 2)", UNSUPPORTED, "func v(a ...int) int { return len(a) }")
C("embedded struct", "int", "var x E; return x.A", UNSUPPORTED, "type B0 struct{ A int }\ntype E struct{ B0 }")
C("method value", "int", "s := S1{}; f := s.M; return f()", UNSUPPORTED, "type S1 struct{}\nfunc (S1) M() int { return 1 }")
C("stub call", "string", "return formatInt(5, 10)", UNSUPPORTED, 'import "strconv"\nvar formatInt = strconv.FormatInt')
C("stub unknown member", "string", "return strconv.Itoa(5)", UNSUPPORTED, 'import "strconv"')
C("unknown import", "int", "return 0", UNSUPPORTED, 'import "fmt"\nvar _ = fmt.Sprint')
C("unused import", "int", "return 0", COMPILE("imported as strconv and not used"), 'import "strconv"')
C("unbalanced paren", "int", "return (1 + 2", SYNTAX)
C("bad token", "int", "return 1 # 2", SYNTAX)
C("missing brace", "int", "if true { return 1 ", SYNTAX)
C("else on new line", "int", "if true { return 1 }\nelse { return 2 }", SYNTAX)

# ---------------------------------------------------------------- more evaluation-order / aliasing probes
_CNT = ("var cnt int\nfunc next() int { cnt++; return cnt }\nvar gs = []int{0, 0, 0, 0}\nvar calls int\n"
        "func sl() []int { calls++; return gs }\n")
C("op-assign target evaluated once", "int", "sl()[next()] += 5; return calls*100 + cnt*10 + gs[1]", 115, _CNT)
C("loop condition re-evaluated", "int", "n := 0; for next() < 4 { n++ }; return n*10 + cnt", 34, _CNT)
C("args left to right", "int", "return sub(next(), next())", -1, _CNT + "func sub(a, b int) int { return a - b }")
C("index then value order", "int", "gs[next()] = next(); return gs[1]", 2, _CNT)
C("array swap", "int", "a, b := [2]int{1, 2}, [2]int{3, 4}; a, b = b, a; return a[0]*1000 + a[1]*100 + b[0]*10 + b[1]", 3412)
C("struct with slice shares backing", "int", "a := H{[]int{1}}; b := a; b.s[0] = 7; return a.s[0]", 7, "type H struct{ s []int }")
C("struct conversion copies", "int", "a := A1{1}; b := B1(a); b.X = 5; return a.X", 1, "type A1 struct{ X int }\ntype B1 struct{ X int }")
C("2d array to func", "int", "a := [2][2]int{{1, 2}, {3, 4}}; z(a); return a[1][1]", 4, "func z(a [2][2]int) { a[1][1] = 0 }")
C("2d array via pointer", "int", "a := [2][2]int{{1, 2}, {3, 4}}; zp(&a); return a[1][1]", 0, "func zp(a *[2][2]int) { a[1][1] = 0 }")
C("local shadows package func", "int", "next := 5; return next + 1", 6, _CNT)
C("loop counter wraps", "int", "n := 0; for i := uint8(250); i != 4; i++ { n++ }; return n", 10)
C("divide by negative const", "int", "x := 7; return x / -2 * 10 + x % -2", -29)
C("interface == concrete", "bool", "var s Shape = Sq{2}; return s == Sq{2} && s != Sq{3}", True, _SH)
C("switch on interface nil", "int", "var s Shape; switch s { case nil: return 1 }; return 0", 1, _SH)
C("const ^0 into uint8", "uint8", "var x uint8 = ^0; return x", COMPILE("overflows"))
C("^uint8(0)", "uint8", "return ^uint8(0)", 255)
C("-c unsigned const", "uint8", "const c uint8 = 1; return -c", COMPILE("overflows"))
C("named result boxed", "int", "return nb()", 7, "func set(p *int) { *p = 7 }\nfunc nb() (r int) { set(&r); return }")
C("param boxed", "int", "p := pb(3); return *p", 3, "func pb(x int) *int { return &x }")
C("len evaluates call operand", "int", "n := len(arr()); return n*10 + cnt", 31, "var cnt int\nfunc arr() [3]int { cnt++; return [3]int{} }")
C("array of interfaces", "int", "a := [2]Shape{Sq{2}, &Rect{1, 3}}; return a[0].Area() + a[1].Area()", 7, _SH)
C("string += in loop", "string", "s := \"\"; for i := 0; i < 3; i++ { s += \"ab\" }; return s", "ababab")
C("deep recursion", "int", "return down(3000)", 3000, "func down(n int) int { if n == 0 { return 0 }; return 1 + down(n-1) }")
C("walrus temp in nested index", "int", "m := [][]int{{1, 2}, {3, 4}}; m[1][0] += m[0][1]; return m[1][0]", 5)
C("pointer to slice elem after append realloc", "int", "s := []int{1}; p := &s[0]; s = append(s, 2); *p = 9; return s[0]", 1)
C("pointer to slice elem no realloc", "int", "s := make([]int, 1, 4); p := &s[0]; s = append(s, 2); *p = 9; return s[0]", 9)
C("struct array field via pointer method", "int", "m := &Ms{}; m.Set(1, 200); m.Set(1, 100); return int(m.A[1])", 44,
  "type Ms struct{ A [2]uint8 }\nfunc (m *Ms) Set(i int, v uint8) { m.A[i] += v }")
C("generated BpSetByte shape", "int", "m := &Mg{}; m.BpSetByte(1, 8, 0xab); m.BpSetByte(1, 0, 0xcd); m.BpSetByte(0, 4, 0xff); return int(m.A[1])*256 + int(m.C)",
  0xABCD * 256 + 0xF0,
  "type Cg uint8\ntype Mg struct{ C Cg; A [2]uint16 }\nfunc (m *Mg) BpSetByte(f int, lshift int, b byte) { switch f { case 0: m.C |= (Cg(b) << lshift); case 1: m.A[f] |= (uint16(b) << lshift); default: return } }")
C("generated BpGetByte shape", "int", "m := &Mg{-2}; return int(m.Get(8))*256 + int(m.Get(0))", 0xFFFE,
  "type Mg struct{ W int16 }\nfunc (m *Mg) Get(rshift int) byte { return byte(m.W >> rshift) }")
C("op-mode encode shape", "int", "m := &Mo{-3, true}; s := make([]byte, 2); s[0] |= (byte(m.Sv) << 1) & 62; s[0] |= (byte(b2b(bool(m.B)))) & 1; s[1] |= (byte(m.Sv>>8) >> 2) & 63; return int(s[0])*256 + int(s[1])",
  (((0xFD << 1) & 62) | 1) * 256 + 63,
  "type Bl bool\ntype Mo struct{ Sv int16; B Bl }\nfunc b2b(b bool) byte { if b { return 1 }; return 0 }")
C("op-mode decode shape", "int64", "var w int64; s := []byte{0xff, 0x1f}; w |= int64(byte(s[0]>>6) & 3); w |= int64(byte(s[1]<<2) & 252); w |= int64(byte(s[1]>>6) & 3) << 8; w <<= 51; w >>= 51; return w",
  (lambda v: v - (1 << 13) if v & (1 << 12) else v)((3 | ((0x1F << 2) & 252)) & 0x1FFF))
C("target operands evaluated before rhs call", "int", "old := s; s[0] = grow(); return old[0]*10 + s[0]", 71,
  "var s = []int{1}\nfunc grow() int { s = append(s, 0, 0, 0); return 7 }")
C("field target evaluated before rhs call", "int", "old := p; p.X = swap(); return old.X*10 + p.X", 70,
  "type P struct{ X int }\nvar p = &P{}\nfunc swap() int { p = &P{}; return 7 }")
C("byte and uint8 identical", "int", "var a byte = 200; var b uint8 = a; var r rune = 'x'; var i int32 = r; return int(b) + int(i)", 320)
C("method name mangling unambiguous", "int", "var a A_B; var b A; return a.C() + b.B_C()", 3,
  "type A_B int\ntype A int\nfunc (A_B) C() int { return 1 }\nfunc (A) B_C() int { return 2 }")
C("unicode identifiers", "int", "größe := 2; return größe * Überall(3)", 12, "func Überall(n int) int { return n * 2 }")
C("conversion ignoring tags unsupported", "int", "a := Ta{1}; b := Tb(a); return b.X", UNSUPPORTED,
  "type Ta struct{ X int `a:\"1\"` }\ntype Tb struct{ X int `b:\"2\"` }")
C("const shift count bound", "int", "return 1 << 1075 >> 1074", COMPILE("shift count"))
C("const precision bound", "int", "const a = 1 << 400; return a * a >> 799", COMPILE("overflow"))
C("func typed param", "int", "return apply(dbl, 4)", 8, "func dbl(x int) int { return x * 2 }\nfunc apply(f func(int) int, x int) int { return f(x) }")
C("anonymous struct", "int", "p := struct{ X, Y int }{1, 2}; q := p; q.X = 5; return p.X + q.X + p.Y", 8)
C("embedded interface", "int", "var rw RW = &Fl{}; rw.W(3); return rw.R()", 3,
  "type Rd interface{ R() int }\ntype Wr interface{ W(int) }\ntype RW interface { Rd; Wr }\ntype Fl struct{ v int }\nfunc (f *Fl) R() int { return f.v }\nfunc (f *Fl) W(v int) { f.v = v }")
C("nil receiver pointer method", "int", "var p *Np; return p.Safe()", 1, "type Np struct{ v int }\nfunc (p *Np) Safe() int { if p == nil { return 1 }; return p.v }")
C("builtin min unsupported", "int", "return min(1, 2)", UNSUPPORTED)
C("range over int unsupported", "int", "s := 0; for i := range 3 { s += i }; return s", UNSUPPORTED)
C("recover unsupported", "int", "defer recover(); return 1", UNSUPPORTED)
C("local type unsupported", "int", "type L int; var x L = 1; return int(x)", UNSUPPORTED)
C("error interface", "string", "var e error = &Er{}; return e.Error()", "bad", "type Er struct{}\nfunc (e *Er) Error() string { return \"bad\" }")
C("const shift precision bound", "int", "return 1 << 1000 >> 999", COMPILE("overflow"))
C("const shift 1<<511 ok", "int", "return 1 << 511 >> 510", 2)
