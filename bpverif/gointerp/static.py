"""Token / AST level static checks that ``go vet`` / ``go build`` would also
reject.  Works on a single file without loading its imports.

``static_check(src, known_packages)`` returns a list of human readable problem
strings (``"line:col: message"``), empty when nothing was found.
"""

from __future__ import annotations

from typing import Dict, List, Optional, Set

from . import nodes as A
from .errors import GoSyntaxError
from .gotypes import UNIVERSE_NAMES, is_exported
from .lexer import tokenize
from .parser import parse_file

_OPEN = {"(": ")", "[": "]", "{": "}"}
_CLOSE = {")": "(", "]": "[", "}": "{"}


def check_brackets(src: str) -> List[str]:
    """Balanced / correctly nested () [] {} on the token stream (comments and
    string literals are ignored since they are tokens of their own)."""
    problems: List[str] = []
    try:
        toks = tokenize(src)
    except GoSyntaxError as e:
        return [f"{e}"]
    stack = []
    for t in toks:
        if t.kind != "OP":
            continue
        v = t.value
        if t.text != v:
            continue  # automatically inserted semicolon
        if v in _OPEN:
            stack.append(t)
        elif v in _CLOSE:
            if not stack:
                problems.append(f"{t.line}:{t.col}: unbalanced brackets: unexpected {v!r} without matching {_CLOSE[v]!r}")
                return problems
            o = stack.pop()
            if _OPEN[o.value] != v:
                problems.append(
                    f"{t.line}:{t.col}: mismatched brackets: {o.value!r} opened at {o.line}:{o.col} closed by {v!r}")
                return problems
    for o in stack:
        problems.append(f"{o.line}:{o.col}: unbalanced brackets: {o.value!r} is never closed")
    return problems


class _Scope:
    __slots__ = ("names", "parent")

    def __init__(self, parent: Optional["_Scope"]):
        self.names: Set[str] = set()
        self.parent = parent

    def has(self, name: str) -> bool:
        s = self
        while s is not None:
            if name in s.names:
                return True
            s = s.parent
        return False


class _Checker:
    def __init__(self, file: A.File, known: Optional[Dict[str, Set[str]]]):
        self.file = file
        self.known = known or {}
        self.problems: List[str] = []
        self.imports: Dict[str, str] = {}      # local name -> path
        self.import_pos: Dict[str, A.Node] = {}
        self.used_imports: Set[str] = set()
        self.pkg = _Scope(None)
        self.scope = self.pkg

    def problem(self, node, msg: str):
        self.problems.append(f"{getattr(node, 'line', 0)}:{getattr(node, 'col', 0)}: {msg}")

    # -- package level ---------------------------------------------------
    def run(self) -> List[str]:
        f = self.file
        for d in f.decls:
            if isinstance(d, A.ImportSpec):
                if d.alias == "_":
                    continue
                if d.alias == ".":
                    self.problem(d, "dot import is not supported by the static checker")
                    continue
                local = d.alias or d.path.rsplit("/", 1)[-1]
                if local in self.imports:
                    self.problem(d, f"{local} redeclared in this block (duplicate import name)")
                    continue
                self.imports[local] = d.path
                self.import_pos[local] = d
        # package level declarations
        declared: Dict[str, A.Node] = {}
        methods: Dict[str, Dict[str, A.Node]] = {}
        struct_fields: Dict[str, Set[str]] = {}

        def declare(name: str, node):
            if name == "_":
                return
            if name == "init" and isinstance(node, A.FuncDecl):
                return
            if name in declared:
                self.problem(node, f"{name} redeclared in this block (previous declaration at line {declared[name].line})")
                return
            if name in self.imports:
                self.problem(node, f"{name} already declared through import of package {self.imports[name]!r}")
            declared[name] = node
            self.pkg.names.add(name)

        for d in f.decls:
            if isinstance(d, (A.ConstSpec, A.VarSpec)):
                for n in d.names:
                    declare(n.name, n)
            elif isinstance(d, A.TypeSpec):
                declare(d.name.name, d.name)
                if isinstance(d.type, A.StructType):
                    names: Set[str] = set()
                    for fld in d.type.fields:
                        for n in fld.names:
                            if n.name != "_" and n.name in names:
                                self.problem(n, f"{n.name} redeclared (duplicate field in struct {d.name.name})")
                            names.add(n.name)
                    struct_fields[d.name.name] = names
            elif isinstance(d, A.FuncDecl):
                if d.recv is None:
                    declare(d.name.name, d)
                else:
                    base = self.receiver_base(d.recv.type)
                    if base is None:
                        self.problem(d, "invalid receiver type")
                        continue
                    ms = methods.setdefault(base, {})
                    if d.name.name != "_" and d.name.name in ms:
                        self.problem(d, f"method {base}.{d.name.name} already declared at line {ms[d.name.name].line}")
                    ms[d.name.name] = d
        for base, ms in methods.items():
            for name, d in ms.items():
                if name in struct_fields.get(base, ()):
                    self.problem(d, f"field and method with the same name {name} (type {base})")
            if base not in declared:
                any_d = next(iter(ms.values()))
                if base in UNIVERSE_NAMES:
                    self.problem(any_d, f"cannot define new methods on non-local type {base}")
                else:
                    self.problem(any_d, f"undefined: {base} (receiver type)")
        # walk everything
        for d in f.decls:
            if isinstance(d, A.ConstSpec):
                if d.type is not None:
                    self.typ(d.type)
                if not d.implicit:
                    for v in d.values:
                        self.expr(v)
            elif isinstance(d, A.VarSpec):
                if d.type is not None:
                    self.typ(d.type)
                for v in d.values:
                    self.expr(v)
            elif isinstance(d, A.TypeSpec):
                self.typ(d.type)
            elif isinstance(d, A.FuncDecl):
                self.func(d.recv, d.type, d.body)
        for local, node in self.import_pos.items():
            if local not in self.used_imports:
                self.problem(node, f'"{self.imports[local]}" imported as {local} and not used')
        return self.problems

    @staticmethod
    def receiver_base(t) -> Optional[str]:
        while isinstance(t, (A.ParenExpr, A.StarExpr)):
            t = t.x
        if isinstance(t, A.IndexExpr):
            t = t.x
        if isinstance(t, A.Ident):
            return t.name
        return None

    # -- scopes ------------------------------------------------------------
    def push(self):
        self.scope = _Scope(self.scope)

    def pop(self):
        self.scope = self.scope.parent

    def declare_local(self, name: str):
        if name != "_":
            self.scope.names.add(name)

    def resolve(self, ident: A.Ident):
        name = ident.name
        if name == "_":
            return
        if self.scope.has(name):
            return
        if name in self.imports:
            self.used_imports.add(name)
            self.problem(ident, f"use of package {name} without selector")
            return
        if name in UNIVERSE_NAMES:
            return
        self.problem(ident, f"undefined: {name}")

    # -- functions -----------------------------------------------------------
    def func(self, recv, ftype: A.FuncType, body):
        self.push()
        if recv is not None:
            self.typ(recv.type)
            for n in recv.names:
                self.declare_local(n.name)
        self.signature(ftype, declare=True)
        if body is not None:
            self.push()
            self.stmts(body.stmts)
            self.pop()
        self.pop()

    def signature(self, ft: A.FuncType, declare: bool):
        for fld in list(ft.params) + list(ft.results):
            self.typ(fld.type)
        if declare:
            for fld in list(ft.params) + list(ft.results):
                for n in fld.names:
                    self.declare_local(n.name)

    # -- types -----------------------------------------------------------------
    def typ(self, t):
        if t is None:
            return
        if isinstance(t, A.Ident):
            self.resolve(t)
        elif isinstance(t, A.SelectorExpr):
            self.selector(t)
        elif isinstance(t, (A.StarExpr, A.ParenExpr)):
            self.typ(t.x)
        elif isinstance(t, A.ArrayType):
            if t.len is not None and t.len != "...":
                self.expr(t.len)
            self.typ(t.elem)
        elif isinstance(t, A.StructType):
            for fld in t.fields:
                self.typ(fld.type)
        elif isinstance(t, A.FuncType):
            self.signature(t, declare=False)
        elif isinstance(t, A.InterfaceType):
            for m in t.methods:
                self.signature(m.type, declare=False)
            for emb in t.embeds:
                self.typ(emb)
        elif isinstance(t, A.MapType):
            self.typ(t.key)
            self.typ(t.value)
        elif isinstance(t, A.Ellipsis):
            self.typ(t.elt)
        else:
            self.expr(t)

    def selector(self, e: A.SelectorExpr):
        x = e.x
        if isinstance(x, A.Ident) and not self.scope.has(x.name) and x.name in self.imports:
            self.used_imports.add(x.name)
            path = self.imports[x.name]
            if not is_exported(e.sel):
                self.problem(e, f"name {e.sel} not exported by package {x.name}")
            elif path in self.known and e.sel not in self.known[path]:
                self.problem(e, f"undefined: {x.name}.{e.sel} (package {path!r} has no such exported name)")
            return
        if isinstance(x, A.Ident) and not self.scope.has(x.name) and x.name not in UNIVERSE_NAMES:
            self.problem(x, f"undefined: {x.name} (neither a declared name nor an imported package)")
            return
        self.expr(x)

    # -- expressions -----------------------------------------------------------
    def expr(self, e):
        if e is None:
            return
        if isinstance(e, A.Ident):
            self.resolve(e)
        elif isinstance(e, A.BasicLit):
            pass
        elif isinstance(e, A.SelectorExpr):
            self.selector(e)
        elif isinstance(e, A.CompositeLit):
            self.composite(e, None)
        elif isinstance(e, A.FuncLit):
            self.func(None, e.type, e.body)
        elif isinstance(e, (A.ParenExpr, A.StarExpr)):
            self.expr(e.x)
        elif isinstance(e, A.UnaryExpr):
            self.expr(e.x)
        elif isinstance(e, A.BinaryExpr):
            self.expr(e.x)
            self.expr(e.y)
        elif isinstance(e, A.CallExpr):
            self.expr(e.fun)
            for a in e.args:
                self.expr(a)
        elif isinstance(e, A.IndexExpr):
            self.expr(e.x)
            self.expr(e.index)
        elif isinstance(e, A.SliceExpr):
            self.expr(e.x)
            self.expr(e.lo)
            self.expr(e.hi)
            self.expr(e.max)
        elif isinstance(e, A.TypeAssertExpr):
            self.expr(e.x)
            self.typ(e.type)
        elif isinstance(e, A.KeyValue):
            self.expr(e.key)
            self.expr(e.value)
        elif isinstance(e, (A.ArrayType, A.StructType, A.FuncType, A.InterfaceType, A.MapType, A.Ellipsis)):
            self.typ(e)
        else:
            self.problem(e, f"static checker: unhandled expression node {type(e).__name__}")

    def composite(self, e: A.CompositeLit, parent_keys_are_exprs: Optional[bool]):
        t = e.type
        if t is not None:
            self.typ(t)
            tt = t
            while isinstance(tt, A.ParenExpr):
                tt = tt.x
            keys_are_exprs = isinstance(tt, (A.ArrayType, A.MapType))
            elem_t = tt.elem if isinstance(tt, A.ArrayType) else (tt.value if isinstance(tt, A.MapType) else None)
        else:
            keys_are_exprs = False  # unknown: be lenient
            elem_t = None
        for el in e.elts:
            if isinstance(el, A.KeyValue):
                k = el.key
                if isinstance(k, A.CompositeLit):
                    self.composite(k, None)
                elif isinstance(k, A.Ident) and not keys_are_exprs:
                    pass  # struct field name
                else:
                    self.expr(k)
                v = el.value
            else:
                v = el
            if isinstance(v, A.CompositeLit):
                self.composite(v, None)
            else:
                self.expr(v)

    # -- statements ------------------------------------------------------------
    def stmts(self, stmts):
        for s in stmts:
            self.stmt(s)

    def block(self, stmts):
        self.push()
        self.stmts(stmts)
        self.pop()

    def stmt(self, s):
        if s is None or isinstance(s, (A.EmptyStmt, A.BranchStmt)):
            return
        if isinstance(s, A.ExprStmt):
            self.expr(s.x)
        elif isinstance(s, A.IncDecStmt):
            self.expr(s.x)
        elif isinstance(s, A.AssignStmt):
            for r in s.rhs:
                self.expr(r)
            if s.op == ":=":
                for l in s.lhs:
                    if isinstance(l, A.Ident):
                        self.declare_local(l.name)
                    else:
                        self.problem(l, "non-name on left side of :=")
            else:
                for l in s.lhs:
                    self.expr(l)
        elif isinstance(s, A.DeclStmt):
            for spec in s.specs:
                if isinstance(spec, A.TypeSpec):
                    self.declare_local(spec.name.name)
                    self.typ(spec.type)
                else:
                    if spec.type is not None:
                        self.typ(spec.type)
                    if not (isinstance(spec, A.ConstSpec) and spec.implicit):
                        for v in spec.values:
                            self.expr(v)
                    for n in spec.names:
                        self.declare_local(n.name)
        elif isinstance(s, A.ReturnStmt):
            for r in s.results:
                self.expr(r)
        elif isinstance(s, A.BlockStmt):
            self.block(s.stmts)
        elif isinstance(s, A.IfStmt):
            self.push()
            self.stmt(s.init)
            self.expr(s.cond)
            self.block(s.body.stmts)
            if s.else_ is not None:
                self.stmt(s.else_)
            self.pop()
        elif isinstance(s, A.ForStmt):
            self.push()
            self.stmt(s.init)
            self.expr(s.cond)
            self.stmt(s.post)
            self.block(s.body.stmts)
            self.pop()
        elif isinstance(s, A.RangeStmt):
            self.push()
            self.expr(s.x)
            if s.define:
                for v in (s.key, s.value):
                    if isinstance(v, A.Ident):
                        self.declare_local(v.name)
            else:
                self.expr(s.key)
                self.expr(s.value)
            self.block(s.body.stmts)
            self.pop()
        elif isinstance(s, A.SwitchStmt):
            self.push()
            self.stmt(s.init)
            self.expr(s.tag)
            for c in s.cases:
                for x in (c.exprs or []):
                    self.expr(x)
                self.block(c.body)
            self.pop()
        elif isinstance(s, A.TypeSwitchStmt):
            self.push()
            self.stmt(s.init)
            self.expr(s.x)
            for c in s.cases:
                for x in (c.exprs or []):
                    if not (isinstance(x, A.Ident) and x.name == "nil"):
                        self.typ(x)
                self.push()
                if isinstance(s.bind, A.Ident):
                    self.declare_local(s.bind.name)
                self.stmts(c.body)
                self.pop()
            self.pop()
        elif isinstance(s, A.DeferStmt):
            self.expr(s.call)
        elif isinstance(s, A.LabeledStmt):
            self.stmt(s.stmt)
        elif isinstance(s, A.CaseClause):
            self.block(s.body)
        else:
            self.problem(s, f"static checker: unhandled statement node {type(s).__name__}")


def static_check(src: str, known_packages: Optional[Dict[str, Set[str]]] = None) -> List[str]:
    problems = check_brackets(src)
    if problems:
        return problems
    try:
        file = parse_file(src)
    except GoSyntaxError as e:
        return [f"syntax error: {e}"]
    return _Checker(file, known_packages).run()
