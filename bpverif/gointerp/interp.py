"""Program: loading, linking and calling compiled Go packages."""

from __future__ import annotations

import sys
from typing import Dict, List, Optional, Set

from . import gotypes as T
from . import rt
from .compiler import RUNTIME_HELPERS, PkgUnit, make_stub_unit, parse_cached, source_hash
from .errors import GoCompileError, GoPanic, GoSyntaxError, GoUnsupported

RUNTIME_IMPORT_PATH = "github.com/hit9/bitproto/lib/go"
STUB_PACKAGES = ("strconv", "encoding/json")

_UNIT_CACHE: Dict[tuple, PkgUnit] = {}
_STUB_CACHE: Dict[str, PkgUnit] = {}
_NO_LIMIT = 1 << 62


def clear_caches():
    from .compiler import _PARSE_CACHE
    _UNIT_CACHE.clear()
    _STUB_CACHE.clear()
    _PARSE_CACHE.clear()


class Value:
    """An opaque Go value handed out by the Program API (pointers, structs,
    interfaces, ...).  ``type`` is the static Go type, ``v`` the run-time
    representation."""

    __slots__ = ("type", "v")

    def __init__(self, type_: T.Type, v):
        self.type = type_
        self.v = v

    def __repr__(self):
        return f"<go value {T.type_str(self.type)}>"


Ref = Value


class Program:
    def __init__(self, packages: Dict[str, List[str]], max_steps: Optional[int] = None, cache: bool = True):
        self.packages = {p: ([s] if isinstance(s, str) else list(s)) for p, s in packages.items()}
        self.cache = cache
        self.units: Dict[str, PkgUnit] = {}
        self.ns: Dict[str, dict] = {}
        self.ST = [0, max_steps if max_steps is not None else _NO_LIMIT]
        self.rtypes: Dict[str, rt.RType] = {}
        self._loading: List[str] = []
        self._order: List[str] = []
        for path in self.packages:
            self._load(path)
        for path in self._order:
            self._instantiate(self.units[path])

    # ------------------------------------------------------------------
    # steps
    # ------------------------------------------------------------------
    @property
    def steps(self) -> int:
        return self.ST[0]

    @property
    def max_steps(self) -> Optional[int]:
        return None if self.ST[1] == _NO_LIMIT else self.ST[1]

    @max_steps.setter
    def max_steps(self, v: Optional[int]):
        self.ST[1] = _NO_LIMIT if v is None else v

    def _budget(self):
        raise GoUnsupported(f"step budget exceeded ({self.ST[0]} > {self.ST[1]} statements)")

    # ------------------------------------------------------------------
    # loading
    # ------------------------------------------------------------------
    def _load(self, path: str) -> PkgUnit:
        u = self.units.get(path)
        if u is not None:
            return u
        if path in self._loading:
            cyc = " -> ".join(self._loading[self._loading.index(path):] + [path])
            raise GoCompileError(f"import cycle not allowed: {cyc}")
        sources = self.packages.get(path)
        if sources is None:
            if path not in STUB_PACKAGES:
                raise GoUnsupported(f"import of package {path!r}: no source given and no stub available")
            u = _STUB_CACHE.get(path)
            if u is None:
                u = _STUB_CACHE[path] = make_stub_unit(path)
            self.units[path] = u
            self._order.append(path)
            return u
        self._loading.append(path)
        try:
            hashes = tuple(source_hash(s) for s in sources)
            deps: List[str] = []
            for s in sources:
                for _alias, ipath in parse_cached(s, self.cache).imports:
                    if ipath not in deps:
                        deps.append(ipath)
            dep_keys = []
            for d in sorted(deps):
                dep_keys.append(self._load(d).key)
            key = (path, hashes, tuple(dep_keys))
            u = _UNIT_CACHE.get(key) if self.cache else None
            if u is None:
                u = PkgUnit(path, sources, lambda p, _importer: self.units[p], use_cache=self.cache)
                u.key = key
                if self.cache:
                    if len(_UNIT_CACHE) > 256:
                        _UNIT_CACHE.clear()
                    _UNIT_CACHE[key] = u
            self.units[path] = u
            self._order.append(path)
            return u
        finally:
            self._loading.pop()

    def _instantiate(self, unit: PkgUnit):
        ns = {name: getattr(rt, name) for name in RUNTIME_HELPERS}
        ns["ST"] = self.ST
        ns["budget"] = self._budget
        ns["_rt"] = self.rtype
        ns["TYPES"] = unit.types_list

        def unsupported_call(pyname, unit=unit):
            raise GoUnsupported(f"call of {pyname}: body uses unsupported construct: {unit.func_unsupported.get(pyname)}")

        ns["unsupported_call"] = unsupported_call
        for j, dpath in enumerate(unit.deps):
            dns = self.ns[dpath]
            pre = f"Q{j}_"
            for k, v in dns.items():
                if k == "GV" or k.startswith("F_") or k.startswith("M_"):
                    ns[pre + k] = v
        exec(unit.code, ns)
        self.ns[unit.path] = ns
        self._register_methods(unit, ns)
        self._invoke(ns["_init_pkg"])

    def _register_methods(self, unit: PkgUnit, ns: dict):
        nn = rt.nn
        for tname, ms in ns["_METHODS"].items():
            named = unit.scope[tname].type
            rt_v = self.rtype(named)
            rt_p = self.rtype(T.Pointer(named))
            agg = T.is_agg(named)
            copy = rt_v.copy
            for mname, (fn, ptr_recv) in ms.items():
                if ptr_recv:
                    rt_p.mt[mname] = fn
                elif agg:
                    rt_v.mt[mname] = (lambda fn, copy: lambda r, *a: fn(copy(r), *a))(fn, copy)
                    rt_p.mt[mname] = (lambda fn, copy: lambda p, *a: fn(copy(nn(p)), *a))(fn, copy)
                else:
                    rt_v.mt[mname] = fn
                    rt_p.mt[mname] = (lambda fn: lambda p, *a: fn(nn(p).c[p.k], *a))(fn)

    def rtype(self, t: T.Type) -> rt.RType:
        key = T.type_key(t)
        r = self.rtypes.get(key)
        if r is None:
            r = self.rtypes[key] = rt.RType(t, key)
        return r

    # ------------------------------------------------------------------
    # invocation
    # ------------------------------------------------------------------
    def _invoke(self, fn, *args):
        old = sys.getrecursionlimit()
        if old < 20000:
            sys.setrecursionlimit(20000)
        try:
            return fn(*args)
        except (TypeError, AttributeError) as e:
            p = rt.translate_exception(e)
            if p is None:
                raise
            raise p from e
        except RecursionError as e:
            raise GoUnsupported("recursion too deep for the interpreter") from e
        finally:
            sys.setrecursionlimit(old)

    def _unit(self, pkg: str) -> PkgUnit:
        u = self.units.get(pkg)
        if u is None:
            raise KeyError(f"unknown package {pkg!r}")
        return u

    # ------------------------------------------------------------------
    # introspection
    # ------------------------------------------------------------------
    def exported(self, pkg: str) -> Set[str]:
        """All package-level names (exported or not)."""
        return set(self._unit(pkg).scope)

    def const(self, pkg: str, name: str):
        u = self._unit(pkg)
        ent = u.scope.get(name)
        if ent is None or ent.kind != "const":
            raise KeyError(f"{pkg}.{name} is not a constant")
        op = u.const_op(ent)
        return op.val, T.type_str(op.type, rel_pkg=pkg)

    def named_type(self, pkg: str, name: str) -> T.Type:
        u = self._unit(pkg)
        ent = u.scope.get(name)
        if ent is None or ent.kind != "type":
            raise KeyError(f"{pkg}.{name} is not a type")
        return u.type_of_ent(ent)

    def type_info(self, pkg: str, name: str) -> dict:
        t = self.named_type(pkg, name)
        return self._type_desc(t, pkg, top=True)

    def _type_desc(self, t: T.Type, rel: str, top: bool = False) -> dict:
        """Structural description.  For the top-level named type the
        underlying structure is expanded; nested named types are reported as
        {"kind": "named", ...} with their own location so that the caller can
        descend with type_info(pkg, name)."""
        if isinstance(t, T.Named) and not top:
            u = t.underlying()
            return {"kind": "named", "name": t.name, "pkg": t.pkg, "type": T.type_str(t, rel_pkg=rel),
                    "underlying": T.type_str(u, rel_pkg=t.pkg) if not isinstance(u, T.Struct) else "struct",
                    "underlying_kind": self._kind(u)}
        u = t.underlying()
        if isinstance(u, T.Struct):
            fields = []
            for f in u.fields:
                fields.append({"name": f.name, "type": T.type_str(f.type, rel_pkg=rel), "tag": f.tag,
                               "desc": self._type_desc(f.type, rel)})
            d = {"kind": "struct", "fields": fields}
        elif isinstance(u, T.Array):
            d = {"kind": "array", "len": u.len, "elem": T.type_str(u.elem, rel_pkg=rel),
                 "elem_desc": self._type_desc(u.elem, rel)}
        elif isinstance(u, T.Slice):
            d = {"kind": "slice", "elem": T.type_str(u.elem, rel_pkg=rel), "elem_desc": self._type_desc(u.elem, rel)}
        elif isinstance(u, T.Pointer):
            d = {"kind": "pointer", "elem": T.type_str(u.elem, rel_pkg=rel), "elem_desc": self._type_desc(u.elem, rel)}
        elif isinstance(u, T.Interface):
            d = {"kind": "interface", "methods": {n: T.sig_str(s, rel_pkg=rel) for n, s in u.methods.items()}}
        elif isinstance(u, T.Signature):
            d = {"kind": "func", "signature": T.sig_str(u, rel_pkg=rel)}
        elif isinstance(u, T.Basic):
            if isinstance(t, T.Named):
                d = {"kind": "named", "underlying": T.type_str(u)}
            else:
                d = {"kind": "basic", "name": T.type_str(u)}
            if u.kind == "int":
                d["bits"], d["signed"] = u.bits, u.signed
        else:  # pragma: no cover
            d = {"kind": "unknown"}
        if isinstance(t, T.Named):
            d["name"] = t.name
            d["pkg"] = t.pkg
            d["methods"] = sorted(t.methods)
            if d["kind"] != "named":
                d["named"] = True
        return d

    @staticmethod
    def _kind(u: T.Type) -> str:
        return {T.Struct: "struct", T.Array: "array", T.Slice: "slice", T.Pointer: "pointer",
                T.Interface: "interface", T.Signature: "func", T.Basic: "basic"}.get(type(u), "unknown")

    # ------------------------------------------------------------------
    # values
    # ------------------------------------------------------------------
    def new(self, pkg: str, typename: str) -> Value:
        t = self.named_type(pkg, typename)
        z = self.rtype(t).zero()
        if T.is_agg(t):
            return Value(T.Pointer(t), z)
        return Value(T.Pointer(t), rt.Ptr([z], 0))

    def _pointee(self, ref: Value):
        """-> (elem type, container, key) of a non-nil pointer Value."""
        if not isinstance(ref, Value):
            raise TypeError("expected a Value (pointer) obtained from Program.new / a call")
        u = ref.type.underlying()
        if not isinstance(u, T.Pointer):
            raise TypeError(f"expected a pointer Value, got {T.type_str(ref.type)}")
        if ref.v is None:
            raise GoPanic("invalid memory address or nil pointer dereference")
        if T.is_agg(u.elem):
            return u.elem, [ref.v], 0
        return u.elem, ref.v.c, ref.v.k

    def set_py(self, ref: Value, pyvalue) -> None:
        et, c, k = self._pointee(ref)
        if T.is_agg(et):
            self._fill(et, c[k], pyvalue, "")
        else:
            c[k] = self.to_go(et, pyvalue, "")

    def _fill(self, t: T.Type, dst: list, py, where: str):
        """In-place update of an aggregate from Python data."""
        u = t.underlying()
        if isinstance(py, Value):
            if not T.identical(py.type, t):
                raise TypeError(f"{where}: Value of type {T.type_str(py.type)} for {T.type_str(t)}")
            self.rtype(t).assign(dst, py.v)
            return
        if isinstance(u, T.Struct):
            if not isinstance(py, dict):
                raise TypeError(f"{where or T.type_str(t)}: expected dict for struct, got {type(py).__name__}")
            for key, val in py.items():
                i = u.index.get(key)
                if i is None:
                    raise ValueError(f"{where or T.type_str(t)}: no field {key!r} in {T.type_str(t)}")
                ft = u.fields[i].type
                if T.is_agg(ft):
                    self._fill(ft, dst[i], val, f"{where}.{key}")
                else:
                    dst[i] = self.to_go(ft, val, f"{where}.{key}")
            return
        if isinstance(u, T.Array):
            if isinstance(py, (bytes, bytearray)):
                py = list(py)
            if not isinstance(py, (list, tuple)):
                raise TypeError(f"{where or T.type_str(t)}: expected list for array, got {type(py).__name__}")
            if len(py) > u.len:
                raise ValueError(f"{where or T.type_str(t)}: {len(py)} elements for array of length {u.len}")
            for i, val in enumerate(py):
                if T.is_agg(u.elem):
                    self._fill(u.elem, dst[i], val, f"{where}[{i}]")
                else:
                    dst[i] = self.to_go(u.elem, val, f"{where}[{i}]")
            return
        raise TypeError(t)

    def to_go(self, t: T.Type, py, where: str = ""):
        """Python data -> run-time representation of Go type t (range checked)."""
        u = t.underlying()
        where = where or T.type_str(t)
        if isinstance(py, Value):
            fc_reason = self._assignable(py.type, t)
            if fc_reason is not None:
                raise TypeError(f"{where}: {fc_reason}")
            v = py.v
            if T.is_agg(py.type):
                v = self.rtype(py.type).copy(v)
            if isinstance(u, T.Interface) and not isinstance(py.type.underlying(), T.Interface):
                return (self.rtype(py.type), v)
            return v
        if isinstance(u, T.Basic):
            if u.kind == "int":
                if isinstance(py, bool) or not isinstance(py, int):
                    raise TypeError(f"{where}: expected int for {T.type_str(t)}, got {type(py).__name__}")
                if not (u.lo <= py <= u.hi):
                    raise ValueError(f"{where}: {py} out of range for {T.type_str(t)} [{u.lo}, {u.hi}]")
                return py
            if u.kind == "bool":
                if not isinstance(py, bool):
                    raise TypeError(f"{where}: expected bool for {T.type_str(t)}, got {type(py).__name__}")
                return py
            if u.kind == "string":
                if isinstance(py, (bytes, bytearray)):
                    return bytes(py).decode("utf-8", "surrogateescape")
                if not isinstance(py, str):
                    raise TypeError(f"{where}: expected str for {T.type_str(t)}")
                return py
        if isinstance(u, (T.Struct, T.Array)):
            z = self.rtype(t).zero()
            self._fill(t, z, py, where)
            return z
        if isinstance(u, T.Slice):
            if py is None:
                return rt.NILS
            if isinstance(py, (bytes, bytearray)):
                py = list(py)
            if not isinstance(py, (list, tuple)):
                raise TypeError(f"{where}: expected list/bytes for {T.type_str(t)}")
            a = [self.to_go(u.elem, x, f"{where}[{i}]") for i, x in enumerate(py)]
            return rt.SliceV(a, 0, len(a), len(a))
        if isinstance(u, (T.Pointer, T.Interface, T.Signature)):
            if py is None:
                return None
            raise TypeError(f"{where}: expected a Value or None for {T.type_str(t)}, got {type(py).__name__}")
        raise TypeError(f"{where}: cannot convert to {T.type_str(t)}")

    @staticmethod
    def _assignable(v: T.Type, target: T.Type) -> Optional[str]:
        if T.identical(v, target):
            return None
        tu = target.underlying()
        if isinstance(tu, T.Interface):
            miss = T.missing_method(v, tu)
            if miss is None:
                return None
            return f"{T.type_str(v)} does not implement {T.type_str(target)} (missing method {miss})"
        if T.identical(v.underlying(), tu) and (not T.is_named(v) or not T.is_named(target)):
            return None
        return f"cannot use value of type {T.type_str(v)} as {T.type_str(target)}"

    def get_py(self, ref: Value):
        """Nested Python data of the pointee of ref (or of a non-pointer Value)."""
        if isinstance(ref, Value) and isinstance(ref.type.underlying(), T.Pointer):
            et, c, k = self._pointee(ref)
            return self._to_py(et, c[k], set())
        if isinstance(ref, Value):
            return self._to_py(ref.type, ref.v, set())
        raise TypeError("expected a Value")

    def _to_py(self, t: T.Type, v, seen: set):
        u = t.underlying()
        if isinstance(u, T.Basic):
            return v
        if isinstance(u, T.Struct):
            return {f.name: self._to_py(f.type, v[i], seen) for i, f in enumerate(u.fields)}
        if isinstance(u, T.Array):
            return [self._to_py(u.elem, x, seen) for x in v]
        if isinstance(u, T.Slice):
            if v.a is None:
                return None if False else []
            return [self._to_py(u.elem, x, seen) for x in v.a[v.o:v.o + v.n]]
        if isinstance(u, T.Pointer):
            if v is None:
                return None
            if T.is_agg(u.elem):
                if id(v) in seen:
                    raise GoUnsupported("get_py: cyclic data structure")
                return self._to_py(u.elem, v, seen | {id(v)})
            return self._to_py(u.elem, v.c[v.k], seen)
        if isinstance(u, T.Interface):
            if v is None:
                return None
            return self._to_py(v[0].t, v[1], seen)
        if isinstance(u, T.Signature):
            return "<func>"
        raise TypeError(t)

    def from_go(self, t: T.Type, v):
        """Result conversion of the call API."""
        u = t.underlying()
        if isinstance(u, T.Basic):
            return v
        if isinstance(u, T.Slice) and u.elem.underlying() is T.UINT8:
            if v.a is None:
                return b""
            return bytes(v.a[v.o:v.o + v.n])
        return Value(t, v)

    # ------------------------------------------------------------------
    # calls
    # ------------------------------------------------------------------
    def _call(self, fn, sig: T.Signature, first, pyargs, what: str):
        if len(pyargs) != len(sig.params):
            raise TypeError(f"{what}: expected {len(sig.params)} argument(s), got {len(pyargs)}")
        args = [] if first is _NOARG else [first]
        for i, (pt, a) in enumerate(zip(sig.params, pyargs)):
            args.append(self.to_go(pt, a, f"{what} argument {i + 1}"))
        res = self._invoke(fn, *args)
        n = len(sig.results)
        if n == 0:
            return None
        if n == 1:
            return self.from_go(sig.results[0], res)
        return tuple(self.from_go(t, r) for t, r in zip(sig.results, res))

    def call_func(self, pkg: str, name: str, *pyargs):
        u = self._unit(pkg)
        ent = u.scope.get(name)
        if ent is None or ent.kind != "func":
            raise KeyError(f"{pkg}.{name} is not a function")
        fn = self.ns[pkg][ent.pyname]
        return self._call(fn, u.func_sig(ent), _NOARG, pyargs, f"{u.name}.{name}")

    def call_method(self, ref: Value, name: str, *pyargs):
        if not isinstance(ref, Value):
            raise TypeError("call_method needs a Value receiver")
        t = ref.type
        u = t.underlying()
        if isinstance(u, T.Interface):
            sig = u.methods.get(name)
            if sig is None:
                raise KeyError(f"{T.type_str(t)} has no method {name}")
            if ref.v is None:
                raise GoPanic("invalid memory address or nil pointer dereference")
            fn = ref.v[0].mt[name]
            return self._call(fn, sig, ref.v[1], pyargs, f"{T.type_str(t)}.{name}")
        named = None
        is_ptr = False
        if isinstance(t, T.Named):
            named = t
        elif isinstance(t, T.Pointer) and isinstance(t.elem, T.Named):
            named, is_ptr = t.elem, True
        m = named.methods.get(name) if named is not None else None
        if m is None:
            raise KeyError(f"{T.type_str(t)} has no method {name}")
        fn = self.ns[m.pkg][m.pyname]
        agg = T.is_agg(named)
        if m.ptr_recv:
            if not is_ptr:
                raise TypeError(f"method {name} has a pointer receiver; pass a pointer Value")
            first = ref.v
        else:
            if is_ptr:
                if ref.v is None:
                    raise GoPanic("invalid memory address or nil pointer dereference")
                first = self.rtype(named).copy(ref.v) if agg else ref.v.c[ref.v.k]
            else:
                first = self.rtype(named).copy(ref.v) if agg else ref.v
        return self._call(fn, m.sig, first, pyargs, f"{T.type_str(t)}.{name}")

    # ------------------------------------------------------------------
    # describe
    # ------------------------------------------------------------------
    def describe(self, value):
        if not isinstance(value, Value):
            return value
        return self._describe(value.type, value.v, ())

    def _describe(self, t: T.Type, v, stack: tuple):
        u = t.underlying()
        name = T.type_str(t, qualify=False)
        if isinstance(u, T.Basic):
            return v
        if isinstance(u, T.Struct):
            d = {"$type": name}
            for i, f in enumerate(u.fields):
                d[f.name] = self._describe(f.type, v[i], stack)
            return d
        if isinstance(u, T.Array):
            return [self._describe(u.elem, x, stack) for x in v]
        if isinstance(u, T.Slice):
            if v.a is None:
                return None
            return [self._describe(u.elem, x, stack) for x in v.a[v.o:v.o + v.n]]
        if isinstance(u, T.Pointer):
            if v is None:
                return None
            if T.is_agg(u.elem):
                if id(v) in stack:
                    return {"$type": name, "$cycle": True}
                inner = self._describe(u.elem, v, stack + (id(v),))
                if isinstance(inner, dict):
                    inner["$type"] = name
                    return inner
                return {"$type": name, "$elem": inner}
            return {"$type": name, "$elem": self._describe(u.elem, v.c[v.k], stack)}
        if isinstance(u, T.Interface):
            if v is None:
                return None
            dyn_t, dyn_v = v[0].t, v[1]
            inner = self._describe(dyn_t, dyn_v, stack)
            if isinstance(inner, dict):
                return inner
            return {"$type": T.type_str(dyn_t, qualify=False), "$value": inner}
        if isinstance(u, T.Signature):
            return {"$type": name, "$func": getattr(v, "__name__", repr(v)) if v is not None else None}
        raise TypeError(t)

    # ------------------------------------------------------------------
    def python_source(self, pkg: str) -> str:
        """The Python code generated for a package (debugging aid)."""
        return self._unit(pkg).pysrc

    def unsupported_functions(self, pkg: str) -> Dict[str, str]:
        return dict(self._unit(pkg).func_unsupported)


_NOARG = object()
