"""Package level checker / compiler: Go package -> Python module source.

A :class:`PkgUnit` is the immutable, cacheable result of compiling one Go
package: its scope (constants, types, variables, functions), the generated
Python source and code object.  Instantiation (executing the code object in a
fresh namespace with per-Program state) is done by :mod:`interp`.
"""

from __future__ import annotations

from typing import Callable, Dict, List, Optional, Set

from . import gotypes as T
from . import nodes as A
from .errors import GoCompileError, GoSyntaxError, GoUnsupported
from .exprs import ExprMixin
from .exprs2 import Expr2Mixin
from .ops import NeedBox, Op, const_literal, err, mangle, unsupported
from .parser import parse_file
from .stmts import StmtMixin

RUNTIME_HELPERS = (
    "Ptr SliceV NILS FuncStub quo rem shl_u shl_s shr oob aix six sget nn str_bytes str_len str_index "
    "str_slice str_cmp bytes_to_str str_to_bytes rune_to_str mkslice slice_s slice_a append copy_slice "
    "copy_from_str slice_list gopanic peq ifeq run_defers"
).split()


_PARSE_CACHE: Dict[str, A.File] = {}


def source_hash(src: str) -> str:
    import hashlib
    return hashlib.sha256(src.encode("utf-8", "surrogatepass")).hexdigest()


def parse_cached(src: str, use_cache: bool = True) -> A.File:
    """parse_file with a module level cache keyed by the source hash (the AST
    is never mutated by the compiler)."""
    if not use_cache:
        return parse_file(src)
    h = source_hash(src)
    ast = _PARSE_CACHE.get(h)
    if ast is None:
        ast = parse_file(src)
        if len(_PARSE_CACHE) > 512:
            _PARSE_CACHE.clear()
        _PARSE_CACHE[h] = ast
    return ast


class FileCtx:
    __slots__ = ("index", "ast", "imports", "used")

    def __init__(self, index: int, ast: A.File):
        self.index = index
        self.ast = ast
        self.imports: Dict[str, str] = {}  # local name -> import path
        self.used: Set[str] = set()


class Ent:
    """A package level entity."""

    __slots__ = ("kind", "name", "node", "file", "idx", "state", "op", "type", "gv", "sig", "pyname", "init_code")

    def __init__(self, kind, name, node, file, idx=0):
        self.kind = kind  # const type var func
        self.name = name
        self.node = node
        self.file = file
        self.idx = idx
        self.state = 0  # 0 new, 1 in progress, 2 done
        self.op = None
        self.type = None
        self.gv = None
        self.sig = None
        self.pyname = None
        self.init_code = None


class LocalVar:
    __slots__ = ("kind", "name", "py", "type", "boxed", "cval")

    def __init__(self, kind, name, py, type, boxed=False, cval=None):
        self.kind = kind  # var const type
        self.name = name
        self.py = py
        self.type = type
        self.boxed = boxed
        self.cval = cval


def _walk(node):
    """All nodes of a subtree (iterative pre-order)."""
    stack = [node]
    pop = stack.pop
    while stack:
        n = pop()
        yield n
        for f in n._fields:
            v = getattr(n, f)
            if v.__class__ is list:
                for x in v:
                    if isinstance(x, A.Node):
                        stack.append(x)
            elif isinstance(v, A.Node):
                stack.append(v)


# ---------------------------------------------------------------------------
class FuncCompiler(ExprMixin, Expr2Mixin, StmtMixin):
    """Compiles one function body (or package level expressions when decl is
    None)."""

    def __init__(self, pkgc: "PkgUnit", file: Optional[FileCtx], boxed: Optional[Set[str]] = None):
        self.pkgc = pkgc
        self.file = file
        self.file_imports = file.imports if file is not None else {}
        self.used_imports = file.used if file is not None else set()
        self.boxed: Set[str] = boxed if boxed is not None else set()
        self.scopes: List[Dict[str, LocalVar]] = []
        self.lines: List[Optional[str]] = []
        self.seg_ind: Dict[int, int] = {}
        self.ind = 1
        self.loops: List[dict] = []
        self.tmpn = 0
        self.varn = 0
        self.iota: Optional[int] = None
        self.sig: Optional[T.Signature] = None
        self.named_results: Optional[List[LocalVar]] = None
        self.uses_defer = False

    # -- services used by the mixins ---------------------------------------
    def rt_ref(self, t: T.Type) -> str:
        return self.pkgc.rt_ref(t)

    def tmp(self) -> str:
        self.tmpn += 1
        return f"_t{self.tmpn}"

    def push_scope(self):
        self.scopes.append({})

    def pop_scope(self):
        self.scopes.pop()

    def lookup_local(self, name: str) -> Optional[LocalVar]:
        for sc in reversed(self.scopes):
            lv = sc.get(name)
            if lv is not None:
                return lv
        return None

    def declare_var(self, name: str, typ: T.Type, node) -> LocalVar:
        if typ is None:
            err(node, f"cannot determine type of {name}")
        cur = self.scopes[-1]
        if name in cur:
            err(node, f"{name} redeclared in this block")
        self.varn += 1
        py = f"v{self.varn}_{mangle(name)}"
        boxed = name in self.boxed and not T.is_agg(typ)
        lv = LocalVar("var", name, py, typ, boxed)
        cur[name] = lv
        return lv

    def declare_const(self, name: str, typ: T.Type, val, node):
        cur = self.scopes[-1]
        if name in cur:
            err(node, f"{name} redeclared in this block")
        cur[name] = LocalVar("const", name, None, typ, cval=val)

    # -- function compilation ------------------------------------------------
    def compile_func(self, decl: A.FuncDecl, sig: T.Signature, pyname: str, recv, has_defer: bool = False) -> List[str]:
        """-> python source lines of the function."""
        self.sig = sig
        self.push_scope()
        params_py: List[str] = []
        prologue: List[str] = []
        fields = []
        if recv is not None:
            fields.append((decl.recv.names[0].name if decl.recv.names else "_", recv))
        i = 0
        for fld in decl.type.params:
            names = [n.name for n in fld.names] or ["_"]
            for n in names:
                fields.append((n, sig.params[i]))
                i += 1
        for n, t in fields:
            if n == "_":
                self.varn += 1
                params_py.append(f"_p{self.varn}")
                continue
            lv = self.declare_var(n, t, decl)
            params_py.append(lv.py)
            if lv.boxed:
                prologue.append(f"{lv.py} = [{lv.py}]")
        # named results
        self.named_results = None
        rnames = [n.name for fld in decl.type.results for n in fld.names]
        if rnames:
            self.named_results = []
            for n, t in zip(rnames, sig.results):
                if n == "_":
                    self.varn += 1
                    lv = LocalVar("var", "_", f"_r{self.varn}", t, False)
                else:
                    lv = self.declare_var(n, t, decl)
                self.named_results.append(lv)
                z = self.zero(t)
                prologue.append(f"{lv.py} = [{z}]" if lv.boxed else f"{lv.py} = {z}")
        if has_defer and self.named_results and any(lv.boxed for lv in self.named_results):
            unsupported(decl, "defer in a function whose named results have their address taken")
        self.ind = 2 if has_defer else 1
        self.lines = []
        self.budget_check()
        # the function body shares the scope of the parameters
        self.push_scope()
        self.stmt_list(decl.body.stmts)
        self.pop_scope()
        self.pop_scope()
        if sig.results and not terminates_list(decl.body.stmts):
            err(decl, f"missing return in function {decl.name.name}")
        body = [l for l in self.lines if l is not None]
        out = [f"def {pyname}({', '.join(params_py)}):"]
        out += ["    " + p for p in prologue]
        if has_defer:
            out.append("    _defers = []")
            out.append("    try:")
            out += body
            out.append("    finally:")
            out.append("        run_defers(_defers)")
        else:
            out += body
        return out


def terminates_list(stmts) -> bool:
    stmts = [s for s in stmts if not isinstance(s, A.EmptyStmt)]
    return bool(stmts) and terminates(stmts[-1])


def terminates(s) -> bool:
    """Go's "terminating statement" analysis."""
    from .stmts import _has_branch
    if isinstance(s, A.ReturnStmt):
        return True
    if isinstance(s, A.BranchStmt):
        return s.tok == "goto"
    if isinstance(s, A.ExprStmt):
        x = s.x
        while isinstance(x, A.ParenExpr):
            x = x.x
        return isinstance(x, A.CallExpr) and isinstance(x.fun, A.Ident) and x.fun.name == "panic"
    if isinstance(s, A.BlockStmt):
        return terminates_list(s.stmts)
    if isinstance(s, A.IfStmt):
        return s.else_ is not None and terminates_list(s.body.stmts) and terminates(s.else_)
    if isinstance(s, A.ForStmt):
        return s.cond is None and not _has_branch(s.body.stmts, "break", False)
    if isinstance(s, A.LabeledStmt):
        return terminates(s.stmt)
    if isinstance(s, (A.SwitchStmt, A.TypeSwitchStmt)):
        has_default = False
        for c in s.cases:
            if c.exprs is None:
                has_default = True
            if _has_branch(c.body, "break", False):
                return False
            body = [x for x in c.body if not isinstance(x, A.EmptyStmt)]
            if not body:
                return False
            last = body[-1]
            if isinstance(last, A.BranchStmt) and last.tok == "fallthrough":
                continue
            if not terminates(last):
                return False
        return has_default
    return False


# ---------------------------------------------------------------------------
class PkgUnit:
    def __init__(self, path: str, sources: List[str], loader: Callable[[str, object], "PkgUnit"],
                 use_cache: bool = True):
        self.path = path
        self.sources = sources
        self.loader = loader
        self.use_cache = use_cache
        self.key = None
        self.opaque = False
        self.name = ""
        self.files: List[FileCtx] = []
        self.scope: Dict[str, Ent] = {}
        self.methods_decls: List = []  # (FuncDecl, FileCtx)
        self.deps: List[str] = []
        self.dep_units: Dict[str, PkgUnit] = {}
        self.types_list: List[T.Type] = []
        self.rt_index: Dict[str, int] = {}
        self.var_ents: List[Ent] = []
        self.named_types: List[T.Named] = []
        self.func_unsupported: Dict[str, str] = {}
        self.method_table: Dict[str, Dict[str, T.Method]] = {}
        self.blank_vars: List = []
        self._method_files: Dict[str, FileCtx] = {}
        self._pynames: Set[str] = set()
        self.pysrc = ""
        self.code = None
        self.build()

    def claim_pyname(self, pyname: str, node):
        if pyname in self._pynames:
            unsupported(node, f"python name collision for {pyname} (non-ASCII identifier mangling)")
        self._pynames.add(pyname)

    # -- references to run-time objects ------------------------------------
    def rt_ref(self, t: T.Type) -> str:
        key = T.type_key(t)
        i = self.rt_index.get(key)
        if i is None:
            i = len(self.types_list)
            self.types_list.append(t)
            self.rt_index[key] = i
        return f"RT_{i}"

    def dep_prefix(self, unit: "PkgUnit") -> str:
        if unit is self:
            return ""
        return f"Q{self.deps.index(unit.path)}_"

    def method_ref(self, m: T.Method) -> str:
        if m.pkg == self.path:
            return m.pyname
        return f"Q{self.deps.index(m.pkg)}_{m.pyname}"

    def import_unit(self, path: str, e=None) -> "PkgUnit":
        return self.dep_units[path]

    # -- build ----------------------------------------------------------------
    def build(self):
        for i, src in enumerate(self.sources):
            ast = parse_cached(src, self.use_cache)
            self.files.append(FileCtx(i, ast))
        names = {f.ast.package for f in self.files}
        if len(names) != 1:
            raise GoCompileError(f"package {self.path}: files declare different package names {sorted(names)}")
        self.name = names.pop()
        # imports
        deps: List[str] = []
        for f in self.files:
            for alias, ipath in f.ast.imports:
                if alias == ".":
                    raise GoUnsupported("dot imports")
                if ipath not in deps:
                    deps.append(ipath)
        self.deps = sorted(deps)
        for ipath in self.deps:
            self.dep_units[ipath] = self.loader(ipath, self)
        for f in self.files:
            for spec in f.ast.decls:
                if not isinstance(spec, A.ImportSpec):
                    continue
                if spec.alias == "_":
                    continue
                local = spec.alias or self.dep_units[spec.path].name
                if local in f.imports:
                    err(spec, f"{local} redeclared in this block (import)")
                f.imports[local] = spec.path
        self.collect()
        self.resolve_all_types()
        self.attach_methods()
        for ent in list(self.scope.values()):
            if ent.kind == "const":
                self.const_op(ent)
        for ent in self.var_ents:
            self.var_type(ent)
        self.generate()

    def declare(self, ent: Ent, node):
        name = ent.name
        if name == "_":
            return False
        if name == "init" and ent.kind != "func":
            err(node, "cannot declare init - must be func")
        if name in self.scope:
            prev = self.scope[name]
            err(node, f"{name} redeclared in this block (previous declaration at line {getattr(prev.node, 'line', '?')})")
        for f in self.files:
            if name in f.imports and f is ent.file:
                err(node, f"{name} already declared through import of package")
        self.scope[name] = ent
        return True

    def collect(self):
        for f in self.files:
            for d in f.ast.decls:
                if isinstance(d, A.ConstSpec):
                    for i, n in enumerate(d.names):
                        self.declare(Ent("const", n.name, d, f, i), n)
                elif isinstance(d, A.VarSpec):
                    ents = []
                    for i, n in enumerate(d.names):
                        ent = Ent("var", n.name, d, f, i)
                        ent.gv = len(self.var_ents)
                        self.var_ents.append(ent)
                        self.declare(ent, n)
                        ents.append(ent)
                elif isinstance(d, A.TypeSpec):
                    ent = Ent("type", d.name.name, d, f)
                    if not d.is_alias:
                        nt = T.Named(self.path, self.name, d.name.name)
                        nt.decl = d
                        nt.resolver = lambda named, ent=ent: self.resolve_named(named, ent)
                        ent.type = nt
                        ent.state = 2
                        self.named_types.append(nt)
                    self.declare(ent, d.name)
                elif isinstance(d, A.FuncDecl):
                    if d.recv is not None:
                        self.methods_decls.append((d, f))
                        continue
                    if d.name.name == "init":
                        unsupported(d, "init functions")
                    if d.body is None:
                        unsupported(d, "function declarations without body")
                    ent = Ent("func", d.name.name, d, f)
                    ent.pyname = "F_" + mangle(d.name.name)
                    if d.name.name != "_":
                        self.claim_pyname(ent.pyname, d)
                    if d.name.name == "_":
                        continue
                    self.declare(ent, d.name)

    # -- types ---------------------------------------------------------------
    def pkg_fc(self, file: FileCtx) -> FuncCompiler:
        fc = FuncCompiler(self, file)
        return fc

    def resolve_named(self, named: T.Named, ent: Ent):
        if ent.op == "resolving":
            err(ent.node, f"invalid recursive type {named.name}")
        ent.op = "resolving"
        try:
            t = self.resolve_type(ent.node.type, self.pkg_fc(ent.file))
            named._under = t.underlying()
        finally:
            ent.op = None

    def type_of_ent(self, ent: Ent) -> T.Type:
        if ent.state == 2:
            return ent.type
        if ent.state == 1:
            err(ent.node, f"invalid recursive type alias {ent.name}")
        ent.state = 1
        ent.type = self.resolve_type(ent.node.type, self.pkg_fc(ent.file))
        ent.state = 2
        return ent.type

    def resolve_type(self, e, fc: FuncCompiler) -> T.Type:
        if isinstance(e, A.Ident):
            name = e.name
            lv = fc.lookup_local(name)
            if lv is not None:
                if lv.kind == "type":
                    return lv.type
                err(e, f"{name} is not a type")
            ent = self.scope.get(name)
            if ent is not None:
                if ent.kind != "type":
                    err(e, f"{name} is not a type")
                return self.type_of_ent(ent)
            if name in fc.file_imports:
                err(e, f"use of package {name} without selector")
            t = T.UNIVERSE_TYPES.get(name)
            if t is not None:
                return t
            if name in T.UNSUPPORTED_UNIVERSE_TYPES:
                unsupported(e, f"type {name} (floating-point / complex / constraint types)")
            if name in T.UNIVERSE_NAMES:
                err(e, f"{name} is not a type")
            err(e, f"undefined: {name}")
        if isinstance(e, A.SelectorExpr):
            if not isinstance(e.x, A.Ident):
                err(e, "invalid type expression")
            pname = e.x.name
            if fc.lookup_local(pname) is not None or pname in self.scope or pname not in fc.file_imports:
                if pname not in fc.file_imports:
                    err(e, f"undefined: {pname}")
                err(e, f"{pname}.{e.sel} is not a type")
            fc.used_imports.add(pname)
            unit = self.dep_units[fc.file_imports[pname]]
            ent = unit.scope.get(e.sel)
            if ent is None:
                if unit.opaque:
                    unsupported(e, f"{unit.path}.{e.sel} is not provided by the opaque stub package")
                err(e, f"undefined: {pname}.{e.sel}")
            if not T.is_exported(e.sel):
                err(e, f"name {e.sel} not exported by package {unit.name}")
            if ent.kind != "type":
                err(e, f"{pname}.{e.sel} is not a type")
            return unit.type_of_ent(ent)
        if isinstance(e, A.ParenExpr):
            return self.resolve_type(e.x, fc)
        if isinstance(e, A.StarExpr):
            return T.Pointer(self.resolve_type(e.x, fc))
        if isinstance(e, A.ArrayType):
            elem = self.resolve_type(e.elem, fc)
            if e.len is None:
                return T.Slice(elem)
            if e.len == "...":
                err(e, "invalid use of [...] array (outside a composite literal)")
            n = fc.value(e.len)
            if n.mode != "const":
                err(e.len, "array length must be a constant expression")
            if T.is_untyped(n.type):
                n = fc.convert_untyped(n, T.INT, e.len)
            if not T.is_integer(n.type):
                err(e.len, "array length must be integer")
            if n.val < 0:
                err(e.len, "invalid array length (negative)")
            if n.val > (1 << 24):
                unsupported(e, f"array length {n.val} too large for the interpreter")
            return T.Array(n.val, elem)
        if isinstance(e, A.StructType):
            fields = []
            seen = set()
            for fld in e.fields:
                if fld.embedded:
                    unsupported(fld, "embedded struct fields")
                ft = self.resolve_type(fld.type, fc)
                for n in fld.names:
                    if n.name != "_" and n.name in seen:
                        err(n, f"{n.name} redeclared (duplicate field)")
                    seen.add(n.name)
                    fields.append(T.StructField(n.name, ft, fld.tag, self.path))
            return T.Struct(fields)
        if isinstance(e, A.FuncType):
            return self.resolve_sig(e, fc)
        if isinstance(e, A.InterfaceType):
            methods: Dict[str, T.Signature] = {}
            for emb in e.embeds:
                et = self.resolve_type(emb, fc)
                eu = et.underlying()
                if not isinstance(eu, T.Interface):
                    unsupported(emb, "non-interface type embedded in interface (type constraints)")
                for k, v in eu.methods.items():
                    if k in methods and not T.identical(methods[k], v):
                        err(emb, f"duplicate method {k}")
                    methods[k] = v
            for m in e.methods:
                name = m.names[0].name
                if name in methods:
                    err(m, f"duplicate method {name}")
                methods[name] = self.resolve_sig(m.type, fc)
            return T.Interface(methods)
        if isinstance(e, A.MapType):
            unsupported(e, "map types")
        if isinstance(e, A.Ellipsis):
            unsupported(e, "variadic parameters")
        err(e, "expected a type expression")

    def resolve_sig(self, ft: A.FuncType, fc: FuncCompiler) -> T.Signature:
        params, pnames = [], []
        for fld in ft.params:
            if isinstance(fld.type, A.Ellipsis):
                unsupported(fld, "variadic parameters")
            t = self.resolve_type(fld.type, fc)
            for n in (fld.names or [None]):
                params.append(t)
                pnames.append(n.name if n is not None else None)
        results, rnames = [], []
        for fld in ft.results:
            t = self.resolve_type(fld.type, fc)
            for n in (fld.names or [None]):
                results.append(t)
                rnames.append(n.name if n is not None else None)
        seen = set()
        for n in pnames + rnames:
            if n and n != "_":
                if n in seen:
                    err(ft, f"duplicate argument {n}")
                seen.add(n)
        return T.Signature(params, results, pnames, rnames)

    def resolve_all_types(self):
        for ent in list(self.scope.values()):
            if ent.kind == "type":
                t = self.type_of_ent(ent)
                t.underlying()
        for nt in self.named_types:
            self.check_finite(nt, nt, set())

    def check_finite(self, root: T.Named, t: T.Type, seen: Set[int]):
        u = t.underlying() if isinstance(t, T.Named) else t
        if isinstance(t, T.Named):
            if id(t) in seen:
                if t is root:
                    raise GoCompileError(f"invalid recursive type {root.name}")
                return
            seen = seen | {id(t)}
        if isinstance(u, T.Struct):
            for f in u.fields:
                self.check_finite(root, f.type, seen)
        elif isinstance(u, T.Array):
            self.check_finite(root, u.elem, seen)

    def attach_methods(self):
        for d, f in self.methods_decls:
            fc = self.pkg_fc(f)
            rt = d.recv.type
            while isinstance(rt, A.ParenExpr):
                rt = rt.x
            ptr = False
            if isinstance(rt, A.StarExpr):
                ptr = True
                rt = rt.x
                while isinstance(rt, A.ParenExpr):
                    rt = rt.x
            if isinstance(rt, A.IndexExpr):
                unsupported(d, "generic receiver")
            if not isinstance(rt, A.Ident):
                err(d, "invalid receiver type")
            ent = self.scope.get(rt.name)
            if ent is None or ent.kind != "type":
                if ent is None and rt.name in T.UNIVERSE_TYPES:
                    err(d, f"cannot define new methods on non-local type {rt.name}")
                err(d, f"undefined: {rt.name}" if ent is None else f"{rt.name} is not a type")
            named = self.type_of_ent(ent)
            if not isinstance(named, T.Named) or named.pkg != self.path:
                err(d, f"cannot define new methods on non-local type {rt.name}")
            nu = named.underlying()
            if isinstance(nu, (T.Pointer, T.Interface)):
                err(d, f"invalid receiver type {rt.name} (pointer or interface type)")
            name = d.name.name
            if d.body is None:
                unsupported(d, "method declarations without body")
            sig = self.resolve_sig(d.type, fc)
            if name == "_":
                continue
            if name in named.methods:
                err(d, f"method {rt.name}.{name} already declared")
            if isinstance(nu, T.Struct) and name in nu.index:
                err(d, f"field and method with the same name {name}")
            # the index of the receiver type makes the name unambiguous
            # (type A_B method C  vs  type A method B_C)
            pyname = f"M_{self.named_types.index(named)}_{mangle(named.name)}_{mangle(name)}"
            self.claim_pyname(pyname, d)
            m = T.Method(name, named, ptr, sig, pyname, d, self.path)
            m_file = f
            named.methods[name] = m
            self.method_table.setdefault(named.name, {})[name] = m
            self._method_files[pyname] = m_file

    # -- constants -----------------------------------------------------------
    def const_op(self, ent: Ent) -> Op:
        if ent.state == 2:
            return ent.op
        if ent.state == 1:
            err(ent.node, f"initialization cycle: constant {ent.name} refers to itself")
        ent.state = 1
        spec = ent.node
        fc = self.pkg_fc(ent.file)
        fc.iota = spec.iota
        ve = spec.values[ent.idx]
        op = fc.value(ve)
        if op.mode != "const":
            err(ve, f"{fc.describe_expr(ve)} (value of type {T.type_str(op.type) if op.type else '?'}) is not constant")
        if spec.type is not None:
            typ = self.resolve_type(spec.type, fc)
            op = fc.const_to_type(op, typ, ve)
        ent.op = op
        ent.state = 2
        return op

    # -- variables -------------------------------------------------------------
    def var_type(self, ent: Ent) -> T.Type:
        if ent.state == 2:
            return ent.type
        if ent.state == 1:
            err(ent.node, f"initialization cycle or typechecking loop for {ent.name}")
        ent.state = 1
        spec = ent.node
        fc = self.pkg_fc(ent.file)
        if spec.type is not None:
            ent.type = self.resolve_type(spec.type, fc)
        else:
            if len(spec.values) == len(spec.names):
                op = fc.value(spec.values[ent.idx])
                if op.mode == "nil":
                    err(spec, "use of untyped nil in variable declaration")
                if op.mode == "func" and op.type is None:
                    unsupported(spec, "opaque function value")
                op = fc.default_op(op, spec)
                ent.type = op.type
            elif len(spec.values) == 1:
                op = fc.expr(spec.values[0])
                if op.mode != "tuple" or len(op.type.types) != len(spec.names):
                    err(spec, f"assignment mismatch: {len(spec.names)} variables but 1 value")
                ent.type = op.type.types[ent.idx]
            else:
                err(spec, f"assignment mismatch: {len(spec.names)} variables but {len(spec.values)} values")
        ent.state = 2
        return ent.type

    def entity_op(self, ent: Ent, unit: "PkgUnit", e) -> Op:
        """Operand for a package level entity of ``unit`` referenced from this
        package."""
        k = ent.kind
        if k == "const":
            return unit.const_op(ent)
        if k == "type":
            return Op("type", unit.type_of_ent(ent))
        prefix = self.dep_prefix(unit)
        if k == "var":
            t = unit.var_type(ent)
            gv = f"{prefix}GV"
            return Op("var", t, code=f"{gv}[{ent.gv}]", lv=("slot", gv, str(ent.gv)))
        if k == "func":
            sig = unit.func_sig(ent)
            return Op("func", sig, code=prefix + ent.pyname)
        raise AssertionError(k)

    def func_sig(self, ent: Ent) -> T.Signature:
        if ent.sig is None:
            ent.sig = self.resolve_sig(ent.node.type, self.pkg_fc(ent.file))
        return ent.sig

    # -- code generation -----------------------------------------------------
    def compile_function(self, decl: A.FuncDecl, file: FileCtx, sig: T.Signature, pyname: str, recv) -> List[str]:
        boxed: Set[str] = set()
        has_defer = False
        for n in _walk(decl.body):
            c = n.__class__
            if c is A.UnaryExpr:
                if n.op == "&":
                    x = n.x
                    while isinstance(x, A.ParenExpr):
                        x = x.x
                    if isinstance(x, A.Ident):
                        boxed.add(x.name)
            elif c is A.DeferStmt:
                has_defer = True
        for _attempt in range(64):
            fc = FuncCompiler(self, file, boxed)
            try:
                return fc.compile_func(decl, sig, pyname, recv, has_defer)
            except NeedBox as nb:
                if nb.name in boxed:
                    raise AssertionError(f"boxing loop for {nb.name}")
                boxed = boxed | {nb.name}
            except GoUnsupported as u:
                self.func_unsupported[pyname] = str(u)
                nparams = len(sig.params) + (1 if recv is not None else 0)
                return [f"def {pyname}(*_a):", f"    unsupported_call({pyname!r})"]
        raise AssertionError("too many recompilations")

    def var_init_order(self) -> List[A.VarSpec]:
        """Go package initialisation order of the var specs (dependency
        analysis on references to package level variables / functions)."""
        specs: List[A.VarSpec] = []
        spec_file = {}
        for f in self.files:
            for d in f.ast.decls:
                if isinstance(d, A.VarSpec):
                    specs.append(d)
                    spec_file[id(d)] = f
        self._spec_file = spec_file
        var_spec = {}
        for ent in self.var_ents:
            var_spec[ent.name] = ent.node
        # direct references of every function / method body, computed once
        methods_by_name: Dict[str, List[T.Method]] = {}
        for _tname, ms in self.method_table.items():
            for mname, m in ms.items():
                methods_by_name.setdefault(mname, []).append(m)
        direct_cache: Dict[int, tuple] = {}

        def direct(node):
            """-> (vars, funcs, method names) referenced directly inside node."""
            key = id(node)
            r = direct_cache.get(key)
            if r is None:
                vs: Set[str] = set()
                fs: Set[str] = set()
                sels: Set[str] = set()
                for n in _walk(node):
                    c = n.__class__
                    if c is A.Ident:
                        ent = self.scope.get(n.name)
                        if ent is not None:
                            if ent.kind == "var":
                                vs.add(n.name)
                            elif ent.kind == "func":
                                fs.add(n.name)
                    elif c is A.SelectorExpr:
                        if n.sel in methods_by_name:
                            sels.add(n.sel)
                r = direct_cache[key] = (vs, fs, sels)
            return r

        def refs_of(node, seen_funcs: Set[str]) -> Set[str]:
            """Package level variables referenced from node, transitively
            through functions and (conservatively, by name) methods."""
            out: Set[str] = set()
            work = [node]
            while work:
                cur = work.pop()
                vs, fs, sels = direct(cur)
                out |= vs
                for fn in fs:
                    if fn not in seen_funcs:
                        seen_funcs.add(fn)
                        work.append(self.scope[fn].node.body)
                for sel in sels:
                    for m in methods_by_name[sel]:
                        if m.pyname not in seen_funcs:
                            seen_funcs.add(m.pyname)
                            work.append(m.decl.body)
            return out

        deps = {}
        for s in specs:
            d: Set[str] = set()
            for v in s.values:
                d |= refs_of(v, set())
            deps[id(s)] = {id(var_spec[n]) for n in d if n in var_spec} - {id(s)}
            if any(n in d for n in (x.name for x in s.names)):
                err(s, f"initialization cycle: {s.names[0].name} refers to itself")
        done: Set[int] = set()
        order: List[A.VarSpec] = []
        remaining = list(specs)
        while remaining:
            for s in remaining:
                if deps[id(s)] <= done:
                    order.append(s)
                    done.add(id(s))
                    remaining.remove(s)
                    break
            else:
                err(remaining[0], "initialization cycle")
        return order

    def generate(self):
        lines: List[str] = []
        # functions
        for ent in self.scope.values():
            if ent.kind == "func":
                sig = self.func_sig(ent)
                lines += self.compile_function(ent.node, ent.file, sig, ent.pyname, None)
                lines.append("")
        for tname, ms in self.method_table.items():
            for name, m in ms.items():
                recv_t = T.Pointer(m.recv_named) if m.ptr_recv else m.recv_named
                lines += self.compile_function(m.decl, self._method_files[m.pyname], m.sig, m.pyname, recv_t)
                lines.append("")
        # package level variables
        gv_zero = []
        fc0 = FuncCompiler(self, None)
        for ent in self.var_ents:
            gv_zero.append(fc0.zero(ent.type))
        lines.append("GV = [" + ", ".join(gv_zero) + "]")
        lines.append("def _init_pkg():")
        init_lines: List[str] = []
        ent_by_spec: Dict[int, List[Ent]] = {}
        for ent in self.var_ents:
            ent_by_spec.setdefault(id(ent.node), []).append(ent)
        for spec in self.var_init_order():
            if not spec.values:
                continue
            f = self._spec_file[id(spec)]
            fc = FuncCompiler(self, f)
            fc.push_scope()
            ents = ent_by_spec[id(spec)]
            if len(spec.values) == len(spec.names):
                for ent, ve in zip(ents, spec.values):
                    op = fc.value(ve, ent.type)
                    code = fc.store(op, ent.type, ve, "variable declaration")
                    x = Op("var", ent.type, code=f"GV[{ent.gv}]", lv=("slot", "GV", str(ent.gv)))
                    if ent.name == "_":
                        fc.emit(code)
                    else:
                        fc.emit_store(x, code)
            else:
                op = fc.expr(spec.values[0])
                tmps = [fc.tmp() for _ in ents]
                fc.emit(f"{', '.join(tmps)} = {op.code}")
                for ent, tcode, tt in zip(ents, tmps, op.type.types):
                    if ent.name == "_":
                        continue
                    conv = fc.assign_conv(Op("value", tt, code=tcode, fresh=True), ent.type, spec)
                    x = Op("var", ent.type, code=f"GV[{ent.gv}]", lv=("slot", "GV", str(ent.gv)))
                    fc.emit_store(x, fc.rv(conv))
            init_lines += [l for l in fc.lines if l is not None]
        lines += init_lines or ["    pass"]
        lines.append("")
        # unused imports (Go: "imported and not used")
        for f in self.files:
            if self.func_unsupported:
                break  # bodies that were not compiled may hold the only use
            for local in f.imports:
                if local not in f.used:
                    raise GoCompileError(f'"{f.imports[local]}" imported as {local} and not used')
        # method registration
        lines.append("_METHODS = {")
        for tname, ms in self.method_table.items():
            inner = ", ".join(f"{name!r}: ({m.pyname}, {m.ptr_recv})" for name, m in ms.items())
            lines.append(f"    {tname!r}: {{{inner}}},")
        lines.append("}")
        header = [f"# generated from Go package {self.path}"]
        for i in range(len(self.types_list)):
            header.append(f"RT_{i} = _rt(TYPES[{i}])")
        self.pysrc = "\n".join(header + [""] + lines) + "\n"
        self.code = compile(self.pysrc, f"<go:{self.path}>", "exec")


# ---------------------------------------------------------------------------
def make_stub_unit(path: str) -> PkgUnit:
    """Opaque stub packages: names can be referenced as values, calling them
    raises GoUnsupported."""
    u = PkgUnit.__new__(PkgUnit)
    u.path = path
    u.sources = []
    u.loader = None
    u.use_cache = True
    u.key = ("stub", path)
    u.opaque = True
    u.files = []
    u.scope = {}
    u.methods_decls = []
    u.deps = []
    u.dep_units = {}
    u.types_list = []
    u.rt_index = {}
    u.var_ents = []
    u.named_types = []
    u.func_unsupported = {}
    u.method_table = {}
    u._method_files = {}
    if path == "strconv":
        u.name = "strconv"
        members = {"FormatInt": T.Signature([T.INT64, T.INT], [T.STRING])}
    elif path == "encoding/json":
        u.name = "json"
        members = {"Marshal": T.Signature([T.EMPTY_INTERFACE], [T.Slice(T.UINT8), T.ERROR])}
    else:
        raise GoUnsupported(f"import of package {path!r} (not provided and no stub available)")
    lines = []
    for name, sig in members.items():
        ent = Ent("func", name, None, None)
        ent.sig = sig
        ent.pyname = "F_" + name
        ent.state = 2
        u.scope[name] = ent
        lines.append(f"F_{name} = FuncStub({path + '.' + name!r})")
    lines.append("GV = []")
    lines.append("def _init_pkg():\n    pass")
    lines.append("_METHODS = {}")
    u.pysrc = "\n".join(lines) + "\n"
    u.code = compile(u.pysrc, f"<go-stub:{path}>", "exec")
    return u
