"""Exception types of the Go-subset interpreter."""

from __future__ import annotations


class GoUnsupported(Exception):
    """A construct outside the implemented Go subset (parser, checker or
    interpreter).  The interpreter never guesses: whatever is not implemented
    raises this exception."""


class GoSyntaxError(Exception):
    """Text that is not lexically / syntactically valid Go."""

    def __init__(self, msg: str, line: int = 0, col: int = 0):
        self.msg = msg
        self.line = line
        self.col = col
        if line:
            super().__init__(f"{line}:{col}: {msg}")
        else:
            super().__init__(msg)


class GoCompileError(GoSyntaxError):
    """A program that parses but that the Go compiler would reject (type
    errors, constant overflow, undeclared names, ...)."""


class GoPanic(Exception):
    """A Go run-time panic.  ``value`` is the Go panic value (a Python str for
    run-time errors raised by the interpreter itself)."""

    def __init__(self, value, runtime: bool = True):
        self.value = value
        self.runtime = runtime
        if runtime:
            super().__init__(f"runtime error: {value}")
        else:
            shown = value
            if isinstance(value, tuple) and len(value) == 2 and hasattr(value[0], "name"):
                # interface value (RType, value)
                shown = f"{value[0].name}({value[1]!r})"
            super().__init__(f"panic: {shown}")
