"""Expression compiler (type checker + Python code generator), part 1:
operands, constants, conversions, unary / binary / shift operators."""

from __future__ import annotations

from typing import List, Optional

from . import gotypes as T
from . import nodes as A
from .errors import GoCompileError, GoUnsupported
from .ops import NeedBox, Op, const_literal, err, is_simple, mangle, unsupported, wrap_code, wrap_val, zero_code

_CMP_OPS = frozenset(["==", "!=", "<", "<=", ">", ">="])
_ARITH_OPS = frozenset(["+", "-", "*", "/", "%", "&", "|", "^", "&^"])
_PY_CMP = {"==": "==", "!=": "!=", "<": "<", "<=": "<=", ">": ">", ">=": ">="}
MAX_CONST_SHIFT = 1074  # go/types: shiftBound = 1023 - 1 + 52
MAX_CONST_BITS = 512  # go/types keeps 512 bits of precision for untyped constants


class ExprMixin:
    # ------------------------------------------------------------------
    # entry points
    # ------------------------------------------------------------------
    def expr(self, e, hint: Optional[T.Type] = None) -> Op:
        m = getattr(self, "x_" + type(e).__name__, None)
        if m is None:
            unsupported(e, f"expression {type(e).__name__}")
        if hint is not None and isinstance(e, A.CompositeLit):
            return self.x_CompositeLit(e, hint)
        return m(e)

    def value(self, e, hint=None) -> Op:
        """Compile e and require a single value (const / value / var / nil / func)."""
        op = self.expr(e, hint)
        self.need_value(op, e)
        return op

    def need_value(self, op: Op, e):
        m = op.mode
        if m in ("const", "value", "var", "nil", "func"):
            return
        if m == "type":
            err(e, f"{T.type_str(op.type)} (type) is not an expression")
        if m == "novalue":
            err(e, "call of function without result used as value")
        if m == "tuple":
            err(e, "multiple-value expression in single-value context")
        if m == "builtin":
            err(e, f"builtin {op.val} must be called")
        if m == "pkg":
            err(e, "use of package without selector")
        if m == "method":
            unsupported(e, "method values (method used without being called)")
        err(e, f"invalid operand ({m})")

    def rv(self, op: Op) -> str:
        """Python code of a *typed* single value."""
        if op.mode == "const":
            return const_literal(op.val)
        if op.lazy is not None:
            raise AssertionError("untyped lazy operand must be converted first")
        return op.code

    # ------------------------------------------------------------------
    # untyped handling / assignability
    # ------------------------------------------------------------------
    def convert_untyped(self, op: Op, target: T.Type, e=None) -> Op:
        """Give an untyped operand the type ``target``."""
        t = op.type
        if op.mode == "nil":
            u = target.underlying()
            if isinstance(u, T.Slice):
                return Op("value", target, code="NILS")
            if isinstance(u, (T.Pointer, T.Interface, T.Signature)):
                return Op("value", target, code="None")
            err(e, f"cannot use nil as {T.type_str(target)} value")
        if not T.is_untyped(t):
            return op
        tu = target.underlying()
        if isinstance(tu, T.Interface):
            # untyped value stored in an interface: takes its default type
            return self.convert_untyped(op, T.default_type(t), e)
        if t is T.UNTYPED_FLOAT:
            unsupported(e, "floating-point constants")
        if not isinstance(tu, T.Basic) or tu.kind != t.kind:
            what = f"{op.val!r} ({t.name} constant)" if op.mode == "const" else f"{t.name} value"
            err(e, f"cannot use {what} as {T.type_str(target)} value")
        if T.is_untyped(target):
            # untyped -> untyped (int/rune mixing)
            return Op(op.mode, target, val=op.val, code=op.code, lazy=op.lazy, eff=op.eff)
        if op.mode == "const":
            if not T.representable(op.val, target):
                if tu.kind == "int":
                    err(e, f"constant {op.val} overflows {T.type_str(target)}")
                err(e, f"cannot use {op.val!r} as {T.type_str(target)} value")
            return Op("const", target, val=op.val)
        if op.lazy is not None:
            return Op("value", target, code=op.lazy(target), eff=op.eff)
        return Op("value", target, code=op.code, eff=op.eff)

    def default_op(self, op: Op, e=None) -> Op:
        """Untyped -> default type (x := 1, interface boxing, ...)."""
        if op.mode == "nil":
            err(e, "use of untyped nil")
        if T.is_untyped(op.type):
            return self.convert_untyped(op, T.default_type(op.type), e)
        return op

    def assignable_reason(self, op: Op, target: T.Type) -> Optional[str]:
        """None if the *typed* operand is assignable to target."""
        v = op.type
        if T.identical(v, target):
            return None
        vu, tu = v.underlying(), target.underlying()
        if isinstance(tu, T.Interface):
            miss = T.missing_method(v, tu)
            if miss is None:
                return None
            return f"{T.type_str(v)} does not implement {T.type_str(target)} (missing method {miss})"
        if T.identical(vu, tu) and (not T.is_named(v) or not T.is_named(target)):
            return None
        return f"cannot use value of type {T.type_str(v)} as {T.type_str(target)}"

    def assign_conv(self, op: Op, target: T.Type, e=None, what: str = "assignment") -> Op:
        """Convert op for storing into a location of type target (no copy)."""
        self.need_value(op, e)
        if op.mode == "func" and op.type is None:
            unsupported(e, "opaque function used as value in typed context")
        if op.mode == "nil" or T.is_untyped(op.type):
            op2 = self.convert_untyped(op, target, e)
            if T.is_interface(target) and not (op.mode == "nil"):
                return self.box_iface(op2, target, e)
            return op2
        reason = self.assignable_reason(op, target)
        if reason is not None:
            err(e, f"{reason} in {what}")
        if T.is_interface(target) and not T.is_interface(op.type):
            return self.box_iface(op, target, e)
        if op.type is target:
            return op
        return Op(op.mode if op.mode != "func" else "value", target, val=op.val, code=self.rv(op), lv=op.lv,
                  fresh=op.fresh, eff=op.eff)

    def box_iface(self, op: Op, target: T.Type, e=None) -> Op:
        """Concrete typed value -> interface value (RType, value)."""
        if T.is_interface(op.type):
            return Op("value", target, code=self.rv(op), eff=op.eff)
        miss = T.missing_method(op.type, target.underlying())
        if miss is not None:
            err(e, f"{T.type_str(op.type)} does not implement {T.type_str(target)} (missing method {miss})")
        code = self.materialize(op)
        return Op("value", target, code=f"({self.rt_ref(op.type)}, {code})", eff=op.eff, fresh=True)

    def materialize(self, op: Op) -> str:
        """Code of a private copy of the value (copy for non-fresh aggregates)."""
        code = self.rv(op)
        if op.mode == "const" or not T.is_agg(op.type) or op.fresh:
            return code
        return self.copy_code(op.type, code)

    def copy_code(self, t: T.Type, code: str) -> str:
        from .rt import is_flat
        if is_flat(t):
            return f"{code}.copy()"
        return f"{self.rt_ref(t)}.copy({code})"

    def store(self, op: Op, target: T.Type, e=None, what="assignment") -> str:
        """Code of op converted to target and privately copied."""
        return self.materialize(self.assign_conv(op, target, e, what))

    def zero(self, t: T.Type) -> str:
        return zero_code(t, self.rt_ref)

    # ------------------------------------------------------------------
    # operands
    # ------------------------------------------------------------------
    def x_ParenExpr(self, e) -> Op:
        return self.expr(e.x)

    def x_BasicLit(self, e) -> Op:
        k = e.kind
        if k == "INT":
            return Op("const", T.UNTYPED_INT, val=e.value)
        if k == "RUNE":
            return Op("const", T.UNTYPED_RUNE, val=e.value)
        if k == "STRING":
            return Op("const", T.UNTYPED_STRING, val=e.value)
        unsupported(e, f"{k.lower()} literal {e.text} (floating-point / complex numbers)")

    def x_FuncLit(self, e) -> Op:
        unsupported(e, "function literals (closures)")

    def x_TypeAssertExpr(self, e) -> Op:
        unsupported(e, "type assertions")

    def x_KeyValue(self, e) -> Op:
        err(e, "unexpected key:value expression")

    def x_Ellipsis(self, e) -> Op:
        err(e, "unexpected ...")

    # type expressions used in expression position
    def _type_op(self, e) -> Op:
        return Op("type", self.pkgc.resolve_type(e, self))

    x_ArrayType = _type_op
    x_StructType = _type_op
    x_FuncType = _type_op
    x_InterfaceType = _type_op
    x_MapType = _type_op

    def x_Ident(self, e) -> Op:
        name = e.name
        if name == "_":
            err(e, "cannot use _ as value")
        lv = self.lookup_local(name)
        if lv is not None:
            return self.local_op(lv, e)
        ent = self.pkgc.scope.get(name)
        if ent is not None:
            return self.pkgc.entity_op(ent, self.pkgc, e)
        if name in self.file_imports:
            self.used_imports.add(name)
            return Op("pkg", val=self.pkgc.import_unit(self.file_imports[name], e), extra=name)
        return self.universe_op(name, e)

    def local_op(self, lv, e) -> Op:
        if lv.kind == "const":
            return Op("const", lv.type, val=lv.cval)
        if lv.kind == "type":
            return Op("type", lv.type)
        if lv.boxed:
            return Op("var", lv.type, code=f"{lv.py}[0]", lv=("slot", lv.py, "0"))
        return Op("var", lv.type, code=lv.py, lv=("name", lv.py, lv.name))

    def universe_op(self, name, e) -> Op:
        t = T.UNIVERSE_TYPES.get(name)
        if t is not None:
            return Op("type", t)
        if name == "true":
            return Op("const", T.UNTYPED_BOOL, val=True)
        if name == "false":
            return Op("const", T.UNTYPED_BOOL, val=False)
        if name == "nil":
            return Op("nil", T.UNTYPED_NIL)
        if name == "iota":
            if self.iota is None:
                err(e, "cannot use iota outside constant declaration")
            return Op("const", T.UNTYPED_INT, val=self.iota)
        if name in T.UNIVERSE_BUILTINS:
            return Op("builtin", val=name)
        if name in T.UNSUPPORTED_UNIVERSE_TYPES:
            unsupported(e, f"type {name} (floating-point / complex / constraint types)")
        err(e, f"undefined: {name}")

    # ------------------------------------------------------------------
    # unary
    # ------------------------------------------------------------------
    def x_StarExpr(self, e) -> Op:
        x = self.expr(e.x)
        if x.mode == "type":
            return Op("type", T.Pointer(x.type))
        self.need_value(x, e.x)
        if x.mode == "nil":
            err(e, "invalid operation: cannot indirect nil")
        pu = x.type.underlying()
        if not isinstance(pu, T.Pointer):
            err(e, f"invalid operation: cannot indirect value of type {T.type_str(x.type)}")
        elem = pu.elem
        p = self.rv(x)
        if T.is_agg(elem):
            return Op("var", elem, code=f"nn({p})", lv=("agg",), eff=x.eff)
        if not is_simple(p):
            t = self.tmp()
            return Op("var", elem, code=f"({t} := {p}).c[{t}.k]", lv=("slot", f"({t} := {p}).c", f"{t}.k"), eff=x.eff)
        return Op("var", elem, code=f"{p}.c[{p}.k]", lv=("slot", f"{p}.c", f"{p}.k"), eff=x.eff)

    def x_UnaryExpr(self, e) -> Op:
        op = e.op
        if op == "&":
            return self.address_of(e)
        x = self.value(e.x)
        if x.mode == "nil":
            err(e, f"invalid operation: operator {op} not defined on nil")
        t = x.type
        if op == "!":
            if not T.is_boolean(t):
                err(e, f"invalid operation: operator ! not defined on {T.type_str(t)}")
            if x.mode == "const":
                return Op("const", t, val=not x.val)
            return Op("value", t, code=f"(not {self.rv(x)})", eff=x.eff)
        if not T.is_integer(t):
            if t is T.UNTYPED_FLOAT:
                unsupported(e, "floating-point constants")
            err(e, f"invalid operation: operator {op} not defined on {T.type_str(t)}")
        b = t.underlying()
        if x.mode == "const":
            v = x.val
            if op == "+":
                r = v
            elif op == "-":
                r = -v
            else:  # ^
                if b.untyped or b.signed:
                    r = ~v
                else:
                    r = v ^ b.mask
            if not b.untyped and not T.representable(r, t):
                err(e, f"constant {r} overflows {T.type_str(t)}")
            return Op("const", t, val=r)
        if x.lazy is not None:
            inner = x.lazy
            return Op("value", t, lazy=lambda tt, inner=inner, op=op: self.unary_code(op, tt.underlying(), inner(tt)), eff=x.eff)
        return Op("value", t, code=self.unary_code(op, b, self.rv(x)), eff=x.eff)

    def unary_code(self, op: str, b: T.Basic, code: str) -> str:
        if op == "+":
            return code
        if op == "-":
            return wrap_code(b, f"-{code}")
        # ^x
        if b.signed:
            return f"(~{code})"
        return f"({code} ^ {b.mask})"

    def address_of(self, e) -> Op:
        inner = e.x
        while isinstance(inner, A.ParenExpr):
            inner = inner.x
        if isinstance(inner, A.CompositeLit):
            x = self.x_CompositeLit(inner, None)
            if T.is_agg(x.type):
                return Op("value", T.Pointer(x.type), code=x.code, eff=x.eff, fresh=True)
            # &[]int{...}: pointer to a fresh scalar slot
            return Op("value", T.Pointer(x.type), code=f"Ptr([{self.rv(x)}], 0)", eff=x.eff)
        x = self.value(e.x)
        if x.mode != "var":
            err(e, "invalid operation: cannot take address of expression (not addressable)")
        if T.is_agg(x.type):
            return Op("value", T.Pointer(x.type), code=x.code, eff=x.eff)
        lv = x.lv
        if lv[0] == "name":
            raise NeedBox(lv[2])
        return Op("value", T.Pointer(x.type), code=f"Ptr({lv[1]}, {lv[2]})", eff=x.eff)

    # ------------------------------------------------------------------
    # binary
    # ------------------------------------------------------------------
    def x_BinaryExpr(self, e) -> Op:
        op = e.op
        if op in ("<<", ">>"):
            return self.shift(e, self.value(e.x), self.value(e.y), op)
        x = self.value(e.x)
        y = self.value(e.y)
        return self.binary(e, op, x, y)

    def match_types(self, e, op, x: Op, y: Op):
        """Implicit conversion of untyped operands of a binary operation."""
        xu = x.mode == "nil" or T.is_untyped(x.type)
        yu = y.mode == "nil" or T.is_untyped(y.type)
        if xu and not yu:
            if T.is_interface(y.type) and x.mode != "nil":
                x = self.box_iface(self.default_op(x, e), y.type, e)
            else:
                x = self.convert_untyped(x, y.type, e.x if hasattr(e, "x") else e)
        elif yu and not xu:
            if T.is_interface(x.type) and y.mode != "nil":
                y = self.box_iface(self.default_op(y, e), x.type, e)
            else:
                y = self.convert_untyped(y, x.type, e.y if hasattr(e, "y") else e)
        elif xu and yu:
            if x.mode == "nil" or y.mode == "nil":
                if x.mode == "nil" and y.mode == "nil" and op in ("==", "!="):
                    err(e, f"invalid operation: nil {op} nil (operator {op} not defined on nil)")
                err(e, f"invalid operation: mismatched types in {op} with nil")
            if x.type is not y.type:
                kx, ky = x.type.kind, y.type.kind
                if kx != ky:
                    if "float" in (kx, ky):
                        unsupported(e, "floating-point constants")
                    err(e, f"invalid operation: mismatched types {x.type.name} and {y.type.name}")
                # int / rune -> rune
                tt = T.UNTYPED_RUNE
                x = self.convert_untyped(x, tt, e)
                y = self.convert_untyped(y, tt, e)
        return x, y

    def binary(self, e, op: str, x: Op, y: Op) -> Op:
        x, y = self.match_types(e, op, x, y)
        if op in _CMP_OPS:
            return self.compare(e, op, x, y)
        if op in ("&&", "||"):
            if not T.is_boolean(x.type) or not T.is_boolean(y.type):
                err(e, f"invalid operation: operator {op} not defined on {T.type_str(x.type)}")
            if not T.identical(x.type, y.type):
                err(e, f"invalid operation: mismatched types {T.type_str(x.type)} and {T.type_str(y.type)}")
            if x.mode == "const" and y.mode == "const":
                return Op("const", x.type, val=(x.val and y.val) if op == "&&" else (x.val or y.val))
            pyop = "and" if op == "&&" else "or"
            return Op("value", x.type, code=f"({self.rv(x)} {pyop} {self.rv(y)})", eff=x.eff or y.eff)
        if op not in _ARITH_OPS:
            unsupported(e, f"operator {op}")
        if not T.identical(x.type, y.type):
            err(e, f"invalid operation: mismatched types {T.type_str(x.type)} and {T.type_str(y.type)} in {op}")
        t = x.type
        if T.is_string(t):
            if op != "+":
                err(e, f"invalid operation: operator {op} not defined on string")
            if x.mode == "const" and y.mode == "const":
                return Op("const", t, val=x.val + y.val)
            return Op("value", t, code=f"({self.rv(x)} + {self.rv(y)})", eff=x.eff or y.eff)
        if not T.is_integer(t):
            if t is T.UNTYPED_FLOAT:
                unsupported(e, "floating-point constants")
            err(e, f"invalid operation: operator {op} not defined on {T.type_str(t)}")
        b = t.underlying()
        if op in ("/", "%") and y.mode == "const" and y.val == 0:
            err(e, "invalid operation: division by zero")
        if x.mode == "const" and y.mode == "const":
            r = self.const_arith(op, x.val, y.val)
            if not b.untyped and not T.representable(r, t):
                err(e, f"constant {r} overflows {T.type_str(t)}")
            if b.untyped and r.bit_length() > MAX_CONST_BITS:
                err(e, "constant overflow")
            return Op("const", t, val=r)
        eff = x.eff or y.eff
        if b.untyped:
            # untyped non-constant (involves a non-constant shift): defer
            xl = x.lazy if x.lazy is not None else (lambda tt, x=x: self.rv(self.convert_untyped(x, tt, e)))
            yl = y.lazy if y.lazy is not None else (lambda tt, y=y: self.rv(self.convert_untyped(y, tt, e)))
            yconst = y.val if y.mode == "const" else None
            return Op("value", t, eff=eff,
                      lazy=lambda tt: self.arith_code(op, self.int_basic(tt, e), xl(tt), yl(tt), yconst))
        yconst = y.val if y.mode == "const" else None
        return Op("value", t, code=self.arith_code(op, b, self.rv(x), self.rv(y), yconst), eff=eff)

    def int_basic(self, tt: T.Type, e) -> T.Basic:
        b = tt.underlying()
        if not isinstance(b, T.Basic) or b.kind != "int" or b.untyped:
            err(e, f"invalid operation: shifted operand (type {T.type_str(tt)}) must be integer")
        return b

    @staticmethod
    def const_arith(op: str, a: int, b: int) -> int:
        if op == "+":
            return a + b
        if op == "-":
            return a - b
        if op == "*":
            return a * b
        if op == "/":
            q = abs(a) // abs(b)
            return -q if (a < 0) != (b < 0) else q
        if op == "%":
            r = abs(a) % abs(b)
            return -r if a < 0 else r
        if op == "&":
            return a & b
        if op == "|":
            return a | b
        if op == "^":
            return a ^ b
        if op == "&^":
            return a & ~b
        raise AssertionError(op)

    def arith_code(self, op: str, b: T.Basic, x: str, y: str, yconst=None) -> str:
        if op == "+":
            return wrap_code(b, f"{x} + {y}")
        if op == "-":
            return wrap_code(b, f"{x} - {y}")
        if op == "*":
            return wrap_code(b, f"{x} * {y}")
        if op == "&":
            return f"({x} & {y})"
        if op == "|":
            return f"({x} | {y})"
        if op == "^":
            return f"({x} ^ {y})"
        if op == "&^":
            return f"({x} & ~{y})"
        if op == "/":
            if yconst is not None and yconst > 0:
                if not b.signed:
                    return f"({x} // {y})"
                if is_simple(x):
                    return f"({x} // {y} if {x} >= 0 else -(-{x} // {y}))"
                return f"quo({x}, {y})"  # positive divisor: no overflow possible
            if not b.signed:
                return f"quo({x}, {y})"
            return wrap_code(b, f"quo({x}, {y})")
        if op == "%":
            if yconst is not None and yconst > 0:
                if not b.signed:
                    return f"({x} % {y})"
                if is_simple(x):
                    return f"({x} % {y} if {x} >= 0 else -(-{x} % {y}))"
            return f"rem({x}, {y})"
        raise AssertionError(op)

    # ------------------------------------------------------------------
    def compare(self, e, op: str, x: Op, y: Op) -> Op:
        # after match_types: both typed, or both untyped of the same kind
        xt, yt = x.type, y.type
        eff = x.eff or y.eff
        if T.is_untyped(xt):
            if x.mode == "const" and y.mode == "const":
                return Op("const", T.UNTYPED_BOOL, val=self.const_cmp(op, x.val, y.val, xt))
            # untyped non-constant operands take their default type
            x = self.default_op(x, e)
            y = self.default_op(y, e)
            xt, yt = x.type, y.type
        # typed: one must be assignable to the other
        if not T.identical(xt, yt):
            if self.assignable_reason(x, yt) is None:
                x = self.assign_conv(x, yt, e, "comparison")
            elif self.assignable_reason(y, xt) is None:
                y = self.assign_conv(y, xt, e, "comparison")
            else:
                err(e, f"invalid operation: mismatched types {T.type_str(xt)} and {T.type_str(yt)} in {op}")
            xt = yt = x.type
        u = xt.underlying()
        ordered = op in ("<", "<=", ">", ">=")
        xc, yc = None, None
        if isinstance(u, T.Basic):
            if ordered and u.kind == "bool":
                err(e, f"invalid operation: operator {op} not defined on bool")
            if x.mode == "const" and y.mode == "const":
                return Op("const", T.UNTYPED_BOOL, val=self.const_cmp(op, x.val, y.val, u))
            xc, yc = self.rv(x), self.rv(y)
            if ordered and u.kind == "string":
                return Op("value", T.UNTYPED_BOOL, code=f"(str_cmp({xc}, {yc}) {op} 0)", eff=eff)
            return Op("value", T.UNTYPED_BOOL, code=f"({xc} {_PY_CMP[op]} {yc})", eff=eff)
        if ordered:
            err(e, f"invalid operation: operator {op} not defined on {T.type_str(xt)}")
        neg = op == "!="
        xnil = x.code in ("None", "NILS") and x.mode == "value" and not x.eff and x.lv is None
        ynil = y.code in ("None", "NILS") and y.mode == "value" and not y.eff and y.lv is None
        xc, yc = self.rv(x), self.rv(y)
        if isinstance(u, T.Slice) or isinstance(u, T.Signature):
            # only comparable to nil
            if ynil and not xnil:
                other = xc
            elif xnil and not ynil:
                other = yc
            else:
                kind = "slice" if isinstance(u, T.Slice) else "func"
                err(e, f"invalid operation: {kind} can only be compared to nil")
            if isinstance(u, T.Slice):
                code = f"({other}.a is not None)" if neg else f"({other}.a is None)"
            else:
                code = f"({other} is not None)" if neg else f"({other} is None)"
            return Op("value", T.UNTYPED_BOOL, code=code, eff=eff)
        if isinstance(u, T.Pointer):
            if T.is_agg(u.elem) or xnil or ynil:
                code = f"({xc} is not {yc})" if neg else f"({xc} is {yc})"
            else:
                code = f"(not peq({xc}, {yc}))" if neg else f"peq({xc}, {yc})"
            return Op("value", T.UNTYPED_BOOL, code=code, eff=eff)
        if isinstance(u, T.Interface):
            if xnil or ynil:
                code = f"({xc} is not {yc})" if neg else f"({xc} is {yc})"
            else:
                code = f"(not ifeq({xc}, {yc}))" if neg else f"ifeq({xc}, {yc})"
            return Op("value", T.UNTYPED_BOOL, code=code, eff=eff)
        if isinstance(u, (T.Struct, T.Array)):
            if not T.comparable(xt):
                err(e, f"invalid operation: {T.type_str(xt)} cannot be compared")
            code = f"{self.rt_ref(xt)}.eq({xc}, {yc})"
            if neg:
                code = f"(not {code})"
            return Op("value", T.UNTYPED_BOOL, code=code, eff=eff)
        err(e, f"invalid operation: operator {op} not defined on {T.type_str(xt)}")

    @staticmethod
    def const_cmp(op, a, b, t) -> bool:
        if isinstance(a, str) and op not in ("==", "!="):
            a = a.encode("utf-8", "surrogateescape")
            b = b.encode("utf-8", "surrogateescape")
        if op == "==":
            return a == b
        if op == "!=":
            return a != b
        if isinstance(a, bool):
            raise GoCompileError(f"invalid operation: operator {op} not defined on bool")
        if op == "<":
            return a < b
        if op == "<=":
            return a <= b
        if op == ">":
            return a > b
        return a >= b

    # ------------------------------------------------------------------
    # shifts
    # ------------------------------------------------------------------
    def shift(self, e, x: Op, y: Op, op: str) -> Op:
        if x.mode == "nil" or y.mode == "nil":
            err(e, "invalid operation: shift of/by nil")
        # ---- shift count
        yt = y.type
        if T.is_untyped(yt):
            if yt is T.UNTYPED_FLOAT:
                unsupported(e, "floating-point constants")
            if yt.kind != "int":
                err(e, f"invalid operation: shift count must be integer")
            if y.mode == "const":
                if y.val < 0:
                    err(e, f"invalid operation: negative shift count {y.val}")
                y = self.convert_untyped(y, T.UINT, e)
            else:
                y = self.convert_untyped(y, T.UINT, e)
        elif not T.is_integer(yt):
            err(e, f"invalid operation: shift count type {T.type_str(yt)}, must be integer")
        elif y.mode == "const" and y.val < 0:
            err(e, f"invalid operation: negative shift count {y.val}")
        ysigned = y.type.underlying().signed
        # ---- left operand
        xt = x.type
        if T.is_untyped(xt):
            if xt is T.UNTYPED_FLOAT:
                unsupported(e, "floating-point constants")
            if xt.kind != "int":
                err(e, f"invalid operation: shifted operand {x.val!r} must be integer")
        elif not T.is_integer(xt):
            err(e, f"invalid operation: shifted operand of type {T.type_str(xt)} must be integer")
        b = xt.underlying()
        eff = x.eff or y.eff
        if x.mode == "const" and y.mode == "const":
            # constant shift
            n = y.val
            if n > MAX_CONST_SHIFT:
                err(e, f"invalid shift count {n}")
            r = x.val << n if op == "<<" else x.val >> n
            if not b.untyped and not T.representable(r, xt):
                err(e, f"constant {r} overflows {T.type_str(xt)}")
            if b.untyped and r.bit_length() > MAX_CONST_BITS:
                err(e, "constant shift overflow")
            return Op("const", xt, val=r)
        if b.untyped:
            # non-constant shift of an untyped constant (or of a lazy value):
            # the operand takes the type required by the context
            if x.mode == "const":
                xv = x.val

                def xl(tt, xv=xv):
                    if not T.representable(xv, tt):
                        err(e, f"constant {xv} overflows {T.type_str(tt)}")
                    return const_literal(xv)
            else:
                xl = x.lazy
            ycode = self.rv(y)
            yconst = y.val if y.mode == "const" else None
            return Op("value", T.UNTYPED_INT, eff=eff,
                      lazy=lambda tt: self.shift_code(op, self.int_basic(tt, e), xl(tt), ycode, yconst, ysigned))
        yconst = y.val if y.mode == "const" else None
        return Op("value", xt, code=self.shift_code(op, b, self.rv(x), self.rv(y), yconst, ysigned), eff=eff)

    def shift_code(self, op: str, b: T.Basic, x: str, y: str, yconst, ysigned: bool) -> str:
        if yconst is not None:
            n = yconst
            if op == "<<":
                if n >= b.bits:
                    n = b.bits  # result 0; keep evaluation of x
                return wrap_code(b, f"{x} << {n}")
            if n >= b.bits:
                n = b.bits
            return f"({x} >> {n})"
        if op == "<<":
            if b.signed:
                return f"shl_s({x}, {y}, {b.mask}, {b.half})"
            return f"shl_u({x}, {y}, {b.mask})"
        return f"shr({x}, {y})"
